package c11

import (
	"encoding/binary"
	"fmt"
	"sort"
	"testing"

	"github.com/go-text/typesetting/font"
	"github.com/go-text/typesetting/font/opentype/tables"
	"github.com/go-text/typesetting/language"
	"pgregory.net/rapid"

	"verif/internal/ev"
)

// ---- decoded synthetic case (this is what a replay file carries) --------------------------------

// seg4 is one segment of a format 4 subtable. Glyphs == nil: idRangeOffset = 0 (delta mapping);
// otherwise the segment points into the glyphIdArray where Glyphs is stored (the harness computes
// idRangeOffset), and Delta is added to every non-zero entry. RawRangeOffset, when non-zero,
// overrides idRangeOffset verbatim (0xFFFF on the final segment is a shape found in real fonts).
type seg4 struct {
	Start          uint16   `json:"start"`
	End            uint16   `json:"end"`
	Delta          uint16   `json:"delta"`
	Glyphs         []uint16 `json:"glyphs,omitempty"`
	RawRangeOffset uint16   `json:"raw_range_offset,omitempty"`
}

type group struct {
	Start uint32 `json:"start"`
	End   uint32 `json:"end"`
	Glyph uint32 `json:"glyph"`
}

type subtable struct {
	Platform uint16 `json:"platform"`
	Encoding uint16 `json:"encoding"`
	Format   int    `json:"format"`
	// format 0: 256 glyph bytes
	Bytes []int `json:"bytes,omitempty"`
	// format 4
	Segs []seg4 `json:"segments,omitempty"`
	// formats 6 and 10
	First  uint32   `json:"first,omitempty"`
	Glyphs []uint16 `json:"glyphs,omitempty"`
	// formats 12 and 13
	Groups []group `json:"groups,omitempty"`
}

type synthCase struct {
	Subtables  []subtable     `json:"subtables"`      // sorted by (platform, encoding) as the specification requires
	FontPage   uint16         `json:"font_page"`      // OS/2 font page argument of ProcessCmap
	OS2        *os2Spec       `json:"os2,omitempty"`  // OS/2 table of the font built around the cmap table
	Font       *fontSpec      `json:"font,omitempty"` // the other tables of that font (scan sequences)
	Exhaustive bool           `json:"exhaustive"`
	Disc       *disc          `json:"discrepancy,omitempty"`
	Count      map[string]int `json:"discrepancy_counts,omitempty"`
	Selected   string         `json:"cmap_type,omitempty"`
}

// ---- serialisers (written from the OpenType specification, independent of the library) ----------

type wr struct{ b []byte }

func (w *wr) u8(v uint8)   { w.b = append(w.b, v) }
func (w *wr) u16(v uint16) { w.b = binary.BigEndian.AppendUint16(w.b, v) }
func (w *wr) u32(v uint32) { w.b = binary.BigEndian.AppendUint32(w.b, v) }

func (st *subtable) serialize() []byte {
	var w wr
	switch st.Format {
	case 0:
		w.u16(0)
		w.u16(262)
		w.u16(0)
		for i := 0; i < 256; i++ {
			v := 0
			if i < len(st.Bytes) {
				v = st.Bytes[i]
			}
			w.u8(uint8(v))
		}
	case 4:
		n := len(st.Segs)
		var garr []uint16
		offs := make([]uint16, n)
		for i, sg := range st.Segs {
			if sg.RawRangeOffset != 0 {
				offs[i] = sg.RawRangeOffset
			} else if sg.Glyphs != nil {
				k := len(garr)
				garr = append(garr, sg.Glyphs...)
				offs[i] = uint16(2 * (n - i + k))
			}
		}
		w.u16(4)
		w.u16(uint16(16 + 8*n + 2*len(garr)))
		w.u16(0)
		w.u16(uint16(2 * n))
		sr, es := 1, 0
		for sr*2 <= n {
			sr *= 2
			es++
		}
		if n == 0 {
			sr = 0
		}
		w.u16(uint16(2 * sr))
		w.u16(uint16(es))
		w.u16(uint16(2*n - 2*sr))
		for _, sg := range st.Segs {
			w.u16(sg.End)
		}
		w.u16(0)
		for _, sg := range st.Segs {
			w.u16(sg.Start)
		}
		for _, sg := range st.Segs {
			w.u16(sg.Delta)
		}
		for _, o := range offs {
			w.u16(o)
		}
		for _, g := range garr {
			w.u16(g)
		}
	case 6:
		w.u16(6)
		w.u16(uint16(10 + 2*len(st.Glyphs)))
		w.u16(0)
		w.u16(uint16(st.First))
		w.u16(uint16(len(st.Glyphs)))
		for _, g := range st.Glyphs {
			w.u16(g)
		}
	case 10:
		w.u16(10)
		w.u16(0)
		w.u32(uint32(20 + 2*len(st.Glyphs)))
		w.u32(0)
		w.u32(st.First)
		w.u32(uint32(len(st.Glyphs)))
		for _, g := range st.Glyphs {
			w.u16(g)
		}
	case 12, 13:
		w.u16(uint16(st.Format))
		w.u16(0)
		w.u32(uint32(16 + 12*len(st.Groups)))
		w.u32(0)
		w.u32(uint32(len(st.Groups)))
		for _, g := range st.Groups {
			w.u32(g.Start)
			w.u32(g.End)
			w.u32(g.Glyph)
		}
	default:
		panic("harness: unsupported format")
	}
	return w.b
}

func (c *synthCase) serialize() []byte {
	var w wr
	w.u16(0)
	w.u16(uint16(len(c.Subtables)))
	bodies := make([][]byte, len(c.Subtables))
	off := 4 + 8*len(c.Subtables)
	for i := range c.Subtables {
		bodies[i] = c.Subtables[i].serialize()
		w.u16(c.Subtables[i].Platform)
		w.u16(c.Subtables[i].Encoding)
		w.u32(uint32(off))
		off += len(bodies[i])
	}
	for _, b := range bodies {
		w.b = append(w.b, b...)
	}
	return w.b
}

// ---- structure of a synthetic subtable (for the non-triviality rule and the matchers) -----------

type structure struct {
	units     int  // segments / groups (formats 0, 6, 10: 1)
	hole      bool // some mapped position has glyph 0 (array entry 0, or delta arithmetic giving 0)
	wraps     bool // 16-bit glyph arithmetic wraps around (format 4), or glyph ids exceed 0xFFFF (12)
	abuts     bool // some unit starts right after the previous one ends
	inverted  bool // some segment/group has start > end
	unordered bool // unsorted or overlapping segments/groups, codes beyond U+10FFFF
	sentinel  bool // format 4 final 0xFFFF segment present
	empty     bool
}

func (st *subtable) structure() structure {
	var s structure
	switch st.Format {
	case 0:
		s.units = 1
		for _, b := range st.Bytes {
			if b == 0 {
				s.hole = true
			}
		}
	case 4:
		s.units = len(st.Segs)
		s.empty = len(st.Segs) == 0
		prev := -1 // index of the previous segment with start <= end
		for i, sg := range st.Segs {
			if sg.Start == 0xFFFF && sg.End == 0xFFFF && i == len(st.Segs)-1 {
				s.sentinel = true
			}
			if sg.Start > sg.End {
				s.inverted = true
				continue
			}
			if prev >= 0 {
				p := st.Segs[prev]
				if sg.Start <= p.End {
					s.unordered = true
				} else if sg.Start == p.End+1 {
					s.abuts = true
				}
			}
			prev = i
			if sg.Glyphs != nil && sg.RawRangeOffset == 0 {
				for _, g := range sg.Glyphs {
					if g == 0 {
						s.hole = true
					} else if uint32(g)+uint32(sg.Delta) > 0xFFFF {
						s.wraps = true
						if g+sg.Delta == 0 {
							s.hole = true
						}
					}
				}
			} else {
				if uint32(sg.End)+uint32(sg.Delta) > 0xFFFF {
					s.wraps = true
				}
				// does some code of the segment map to glyph 0 ?
				if z := uint16(0) - sg.Delta; z >= sg.Start && z <= sg.End {
					s.hole = true
				}
			}
		}
	case 6, 10:
		s.units = 1
		s.empty = len(st.Glyphs) == 0
		for _, g := range st.Glyphs {
			if g == 0 {
				s.hole = true
			}
		}
		if len(st.Glyphs) > 0 && uint64(st.First)+uint64(len(st.Glyphs))-1 > maxRune {
			s.unordered = true
		}
	case 12, 13:
		s.units = len(st.Groups)
		s.empty = len(st.Groups) == 0
		prev := -1
		for i, g := range st.Groups {
			if g.Start > g.End {
				s.inverted = true
				continue
			}
			if g.End > maxRune {
				s.unordered = true
			}
			if prev >= 0 {
				p := st.Groups[prev]
				if g.Start <= p.End {
					s.unordered = true
				} else if g.Start == p.End+1 {
					s.abuts = true
				}
			}
			prev = i
			if g.Glyph == 0 {
				s.hole = true
			}
			if st.Format == 12 && uint64(g.Glyph)+uint64(g.End-g.Start) > 0xFFFF {
				s.wraps = true
			}
		}
	}
	return s
}

// hints returns the intervals (beyond the BMP) that must be evaluated rune by rune when the case
// is not exhaustive: every unit widened by two pages on each side, and the images of out-of-range
// codes under 24-bit / 16-bit page truncation (where an aliasing defect would show).
func (c *synthCase) hints() [][2]int64 {
	var h [][2]int64
	add := func(lo, hi int64) {
		if lo > hi {
			lo, hi = hi, lo
		}
		h = append(h, [2]int64{lo - 0x200, lo + 0x200}, [2]int64{hi - 0x200, hi + 0x200})
		if hi-lo <= 0x20000 {
			h = append(h, [2]int64{lo, hi})
		}
		for _, v := range []int64{lo, hi} {
			if v > maxRune {
				h = append(h, [2]int64{v&0xFFFFFF - 0x100, v&0xFFFFFF + 0x100}, [2]int64{v&0xFFFF - 0x100, v&0xFFFF + 0x100},
					[2]int64{v % 0x110000, v%0x110000 + 0x100})
			}
		}
	}
	for _, st := range c.Subtables {
		switch st.Format {
		case 4:
			for _, sg := range st.Segs {
				add(int64(sg.Start), int64(sg.End))
				if sg.Start > sg.End { // a wrapped walk would reach start + 0xFFFF
					add(int64(sg.Start), int64(sg.Start)+0x10000)
				}
			}
		case 6, 10:
			add(int64(st.First), int64(st.First)+int64(len(st.Glyphs)))
		case 12, 13:
			for _, g := range st.Groups {
				add(int64(g.Start), int64(g.End))
			}
		}
	}
	h = append(h, [2]int64{maxRune - 0x1FF, maxRune})
	return h
}

// ---- the property on one synthetic table ---------------------------------------------------------

func isSymbolID(st *subtable) bool { return st.Platform == 3 && st.Encoding == 0 }

// checkSynth parses the serialised table through tables.ParseCmap + font.ProcessCmap and, when it is
// accepted, evaluates the laws. Returns labels for the evidence.
func checkSynth(t ev.TB, c *synthCase) {
	data := c.serialize()
	cc := *c // the value written on failure carries the verdict
	ev.Journal("synth", c)
	defer ev.JournalDone()
	var (
		cm       font.Cmap
		err      error
		panicked any
	)
	func() {
		defer func() {
			if r := recover(); r != nil {
				panicked = r
			}
		}()
		var tb tables.Cmap
		tb, _, err = tables.ParseCmap(data)
		if err != nil {
			return
		}
		cm, _, err = font.ProcessCmap(tb, tables.FontPage(c.FontPage))
	}()
	// structure of every subtable; the one selected is identified after processing
	anyMalformed := false
	for i := range c.Subtables {
		if st := c.Subtables[i].structure(); st.inverted || st.unordered {
			anyMalformed = true
		}
	}
	if panicked != nil {
		if anyMalformed || c.offsetsBroken() {
			// totality on tables that violate the specification is C09's business
			ev.Case(false, nil, "rejected", "panic_on_malformed")
			return
		}
		ev.Fail(t, "synth", &cc, "ParseCmap/ProcessCmap panicked on a table that is well-formed per the specification: %v", panicked)
	}
	if err != nil || cm == nil {
		ev.Case(false, nil, "rejected")
		return
	}
	typeName, innerType := typeNames(cm)
	sel, selStruct := c.selected(innerType)
	_ = sel // nil when two subtables have the selected format: selStruct is then their union
	sh := shapeOfType(typeName, innerType)
	sh.inverted, sh.unordered = selStruct.inverted, selStruct.unordered
	rp := checkCmap(cm, c.Exhaustive, c.hints(), newMatcher(sh))
	cc.Selected = rp.typeName
	if rp.counts[dPanic] > 0 && (sh.inverted || sh.unordered) {
		ev.Case(false, nil, "accepted", "panic_on_malformed")
		return
	}
	first, ids := judge(rp)
	for _, id := range ids {
		ev.Excluded(id)
	}
	nontrivial := selStruct.units >= 2 && (selStruct.hole || selStruct.wraps || selStruct.abuts)
	labels := []string{"accepted", fmt.Sprintf("format:%d", sh.format)}
	if selStruct.hole {
		labels = append(labels, "hole")
	}
	if selStruct.wraps {
		labels = append(labels, "wraps")
	}
	if selStruct.abuts {
		labels = append(labels, "abuts")
	}
	if selStruct.inverted {
		labels = append(labels, "inverted_accepted")
	}
	if selStruct.unordered {
		labels = append(labels, "unordered_accepted")
	}
	if selStruct.sentinel {
		labels = append(labels, "sentinel")
	}
	if selStruct.empty {
		labels = append(labels, "empty_subtable")
	}
	if sh.remapped {
		labels = append(labels, "remapped:"+rp.typeName)
	}
	if rp.ranger {
		labels = append(labels, "ranger")
	}
	if c.Exhaustive {
		labels = append(labels, "exhaustive_code_space")
	}
	if rp.nLookup == 0 {
		labels = append(labels, "maps_nothing")
	}
	if len(c.Subtables) > 1 {
		labels = append(labels, "multi_subtable")
	}
	ev.Case(nontrivial, data, labels...)
	if first == nil && rp.counts[dIterRunaway] == 0 {
		// font level: the same table inside a minimal font file, through the loader and both
		// scanning paths
		fl, failure := checkSynthFont(c, cm)
		for _, l := range fl {
			ev.Label(l)
		}
		if failure != "" {
			ev.Fail(t, "synth", &cc, "synthetic font (%s, OS/2 %+v): %s", rp.typeName, c.os2(), failure)
		}
	}
	if first != nil {
		cc.Disc, cc.Count = first, rp.counts
		ev.Fail(t, "synth", &cc, "synthetic cmap (%s): %s  [all discrepancies: %v, of which matched by listed findings: %v]", rp.typeName, first.Msg, rp.counts, rp.excused)
	}
	if nontrivial && ev.WantSample() {
		ev.Sample(map[string]any{"subtables": c.Subtables, "font_page": c.FontPage, "cmap_type": rp.typeName, "runes_mapped": rp.nLookup, "iter_pairs": rp.nIter})
	}
}

// offsetsBroken: a format 4 segment uses a raw idRangeOffset that does not point into the
// glyphIdArray (only the 0xFFFF-on-sentinel shape is considered well-formed enough).
func (c *synthCase) offsetsBroken() bool {
	for _, st := range c.Subtables {
		for _, sg := range st.Segs {
			if sg.RawRangeOffset != 0 && !(sg.Start == 0xFFFF && sg.End == 0xFFFF) {
				return true
			}
		}
	}
	return false
}

// selected identifies the subtable ProcessCmap chose, from the type of the resulting cmap: it is
// unambiguous when exactly one subtable has the corresponding format.
func (c *synthCase) selected(innerType string) (*subtable, structure) {
	want := map[string][]int{"font.cmap0": {0}, "font.cmap4": {4}, "font.cmap6or10": {6, 10}, "font.cmap12": {12}, "font.cmap13": {13}}[innerType]
	var found *subtable
	n := 0
	for i := range c.Subtables {
		for _, f := range want {
			if c.Subtables[i].Format == f {
				found = &c.Subtables[i]
				n++
			}
		}
	}
	if n != 1 {
		// several candidates: merge their structures
		var m structure
		for i := range c.Subtables {
			s := c.Subtables[i].structure()
			m.units = max(m.units, s.units)
			m.hole = m.hole || s.hole
			m.wraps = m.wraps || s.wraps
			m.abuts = m.abuts || s.abuts
			m.inverted = m.inverted || s.inverted
			m.unordered = m.unordered || s.unordered
		}
		return nil, m
	}
	return found, found.structure()
}

// ---- generators ---------------------------------------------------------------------------------

var encodingIDs = [][2]uint16{{3, 1}, {3, 10}, {0, 3}, {0, 4}, {0, 6}, {3, 0}, {3, 0}, {1, 0}, {0, 0}, {0, 1}, {3, 1}}

func genGlyph16(t *rapid.T, label string) uint16 {
	switch rapid.IntRange(0, 7).Draw(t, label+"_kind") {
	case 0, 1:
		return 0
	case 2:
		return 0xFFFF
	case 3:
		return uint16(rapid.IntRange(0, 0xFFFF).Draw(t, label))
	default:
		return uint16(rapid.IntRange(1, 40).Draw(t, label))
	}
}

func genLen(t *rapid.T, label string) int {
	switch rapid.IntRange(0, 9).Draw(t, label+"_kind") {
	case 0, 1, 2:
		return 1
	case 3:
		return 2
	case 4, 5, 6:
		return rapid.IntRange(3, 40).Draw(t, label)
	case 7:
		return rapid.IntRange(250, 520).Draw(t, label)
	case 8:
		return 256
	default:
		return rapid.IntRange(600, 3000).Draw(t, label)
	}
}

func genGap(t *rapid.T, label string) int {
	switch rapid.IntRange(0, 9).Draw(t, label+"_kind") {
	case 0, 1, 2:
		return 1 // abuts
	case 3:
		return 2
	case 4, 5:
		return rapid.IntRange(3, 64).Draw(t, label)
	case 6:
		return 256
	case 7:
		return rapid.IntRange(200, 700).Draw(t, label)
	default:
		return rapid.IntRange(1000, 20000).Draw(t, label)
	}
}

// genSegs4 builds format 4 segments. base is where the first segment starts.
func genSegs4(t *rapid.T, base int) []seg4 {
	n := rapid.IntRange(0, 6).Draw(t, "nseg")
	var segs []seg4
	cur := base
	for i := 0; i < n; i++ {
		gap := 0
		if i > 0 {
			gap = genGap(t, "gap")
		}
		start := cur + gap
		if start > 0xFFFE {
			break
		}
		l := genLen(t, "len")
		end := start + l - 1
		if end > 0xFFFF {
			end = 0xFFFF
		} else if end == 0xFFFF && rapid.Bool().Draw(t, "avoidFFFF") {
			end = 0xFFFE
		}
		sg := seg4{Start: uint16(start), End: uint16(end)}
		if rapid.IntRange(0, 2).Draw(t, "mapping") == 0 {
			// glyph array
			sg.Glyphs = make([]uint16, end-start+1)
			for j := range sg.Glyphs {
				sg.Glyphs[j] = genGlyph16(t, "g")
			}
			switch rapid.IntRange(0, 5).Draw(t, "adelta") {
			case 0:
				sg.Delta = 1
			case 1:
				sg.Delta = 0xFFFF
			case 2:
				sg.Delta = uint16(rapid.IntRange(0, 0xFFFF).Draw(t, "adeltav"))
			}
		} else {
			switch rapid.IntRange(0, 7).Draw(t, "delta") {
			case 0:
				sg.Delta = 0
			case 1:
				sg.Delta = uint16(0 - start) // first code maps to glyph 0
			case 2:
				sg.Delta = uint16(0 - end) // last code maps to glyph 0
			case 3:
				sg.Delta = uint16(0 - (start+end)/2) // wraps in the middle of the segment
			case 4:
				sg.Delta = 0xFFFF
			case 5:
				sg.Delta = uint16(rapid.IntRange(0, 0xFFFF).Draw(t, "deltav"))
			default:
				sg.Delta = uint16(rapid.IntRange(1, 300).Draw(t, "deltas") - start)
			}
		}
		segs = append(segs, sg)
		cur = end
		if end == 0xFFFF {
			break
		}
	}
	// final segment
	lastIsFFFF := len(segs) > 0 && segs[len(segs)-1].End == 0xFFFF
	if !lastIsFFFF {
		switch rapid.IntRange(0, 7).Draw(t, "sentinel") {
		case 0:
			// missing (tolerated by every parser)
		case 1:
			segs = append(segs, seg4{Start: 0xFFFF, End: 0xFFFF, Delta: 1, RawRangeOffset: 0xFFFF})
		case 2:
			segs = append(segs, seg4{Start: 0xFFFF, End: 0xFFFF, Delta: 0})
		case 3:
			segs = append(segs, seg4{Start: 0xFFFF, End: 0xFFFF, Delta: uint16(rapid.IntRange(0, 0xFFFF).Draw(t, "sdelta"))})
		default:
			segs = append(segs, seg4{Start: 0xFFFF, End: 0xFFFF, Delta: 1})
		}
	}
	// shapes that violate the specification (accepted tables must still obey the laws)
	if len(segs) >= 2 {
		switch rapid.IntRange(0, 29).Draw(t, "hostile") {
		case 27: // unsorted
			i := rapid.IntRange(0, len(segs)-2).Draw(t, "swap")
			segs[i], segs[i+1] = segs[i+1], segs[i]
		case 28: // overlapping
			i := rapid.IntRange(1, len(segs)-1).Draw(t, "ovl")
			if segs[i].Glyphs == nil && segs[i].Start > 0 {
				segs[i].Start = segs[i-1].End - uint16(rapid.IntRange(0, 1).Draw(t, "ovlby"))
			}
		case 29: // start > end
			i := rapid.IntRange(0, len(segs)-1).Draw(t, "inv")
			if segs[i].Glyphs == nil && segs[i].Start != segs[i].End {
				segs[i].Start, segs[i].End = segs[i].End, segs[i].Start
			}
		}
	}
	return segs
}

// scriptEdges are the code points next to a boundary between a script range and a gap of
// language.ScriptRanges (runes without script), where the script set computation has its cases.
var scriptEdges16, scriptEdges32 = func() (e16 []int, e32 []int64) {
	add := func(r rune) {
		if r < 0 || r > maxRune {
			return
		}
		if r <= 0xFFFF {
			e16 = append(e16, int(r))
		}
		e32 = append(e32, int64(r))
	}
	for i, e := range language.ScriptRanges {
		next := rune(maxRune + 1)
		if i+1 < len(language.ScriptRanges) {
			next = language.ScriptRanges[i+1].Start
		}
		if e.End+1 < next { // a gap follows
			add(e.End - 1)
			add(e.End)
			add(e.End + 1)
			add(next - 2)
			add(next - 1)
		}
	}
	return e16, e32
}()

func genBase16(t *rapid.T) int {
	if rapid.IntRange(0, 3).Draw(t, "base_kind") == 0 {
		return rapid.SampledFrom(scriptEdges16).Draw(t, "base_edge")
	}
	return rapid.SampledFrom([]int{0, 0, 0x20, 0x41, 0xF0, 0xFF, 0x100, 0x600, 0x621, 0x2000, 0xF000, 0xF020, 0xF0F0, 0xF100, 0xF120, 0xF200, 0xF220, 0xFE70, 0xFFF0, 0xFFFD}).Draw(t, "base")
}

func genGroups(t *rapid.T, format int, symbol bool) []group {
	n := rapid.IntRange(0, 6).Draw(t, "ngroups")
	var base int64
	if symbol {
		base = int64(rapid.SampledFrom(puaBases).Draw(t, "pua_base"))
	} else if rapid.IntRange(0, 3).Draw(t, "gbase_kind") == 0 {
		base = rapid.SampledFrom(scriptEdges32).Draw(t, "gbase_edge")
	} else {
		base = rapid.SampledFrom([]int64{0, 0x20, 0xF0, 0x100, 0x600, 0xD7F0, 0xF000, 0xF100, 0xFFF0, 0xFFFF, 0x10000, 0x1F600, 0x2FFF0, 0xE0000, 0xE0100, 0xE01E0, 0xE01EF, 0xF0000, 0x10FF00, 0x10FFF0}).Draw(t, "gbase")
	}
	var gs []group
	cur := base
	for i := 0; i < n; i++ {
		gap := int64(0)
		if i > 0 {
			gap = int64(genGap(t, "gap"))
			if rapid.IntRange(0, 9).Draw(t, "farjump") == 0 {
				gap = int64(rapid.IntRange(0x10000, 0x90000).Draw(t, "far"))
			}
		}
		start := cur + gap
		if start > maxRune {
			break
		}
		l := int64(genLen(t, "len"))
		if rapid.IntRange(0, 19).Draw(t, "hugelen") == 0 {
			l = int64(rapid.IntRange(0x1000, 0x30000).Draw(t, "huge"))
		}
		end := start + l - 1
		if end > maxRune {
			end = maxRune
		}
		var g uint32
		switch rapid.IntRange(0, 5).Draw(t, "gid") {
		case 0:
			g = 0
		case 1:
			g = uint32(0xFFFF - (end-start)/2) // crosses 0xFFFF
		case 2:
			g = uint32(rapid.IntRange(0, 0xFFFF).Draw(t, "gidv"))
		default:
			g = uint32(rapid.IntRange(1, 500).Draw(t, "gids"))
		}
		gs = append(gs, group{Start: uint32(start), End: uint32(end), Glyph: g})
		cur = end
	}
	if len(gs) >= 1 {
		switch rapid.IntRange(0, 39).Draw(t, "hostile") {
		case 36: // unsorted
			if len(gs) >= 2 {
				i := rapid.IntRange(0, len(gs)-2).Draw(t, "swap")
				gs[i], gs[i+1] = gs[i+1], gs[i]
			}
		case 37: // overlapping
			if len(gs) >= 2 {
				i := rapid.IntRange(1, len(gs)-1).Draw(t, "ovl")
				gs[i].Start = gs[i-1].End - uint32(rapid.IntRange(0, 2).Draw(t, "ovlby"))
				if gs[i].Start > gs[i-1].End {
					gs[i].Start = gs[i-1].End
				}
			}
		case 38: // start > end (kept short: a wrapped walk would otherwise be 2^32 long)
			i := rapid.IntRange(0, len(gs)-1).Draw(t, "inv")
			if gs[i].Start != gs[i].End {
				gs[i].Start, gs[i].End = gs[i].End, gs[i].Start
			}
		case 39: // beyond the code space
			lo := uint32(rapid.SampledFrom([]int64{0x10FFFE, 0x110000, 0x110041, 0x1000041, 0x7FFFFFF0, 0x80000041, 0xFFFFFF00}).Draw(t, "beyond"))
			l := uint32(rapid.IntRange(0, 40).Draw(t, "beyondlen"))
			if lo+l < lo {
				l = 0
			}
			gs = append(gs, group{Start: lo, End: lo + l, Glyph: 7})
		}
	}
	return gs
}

// puaBases: where the symbol (U+F0xx) and legacy Arabic (U+F1xx simplified, U+F2xx traditional)
// remappings of a (3,0) subtable look for glyphs.
var puaBases = []int{0xF000, 0xF020, 0xF041, 0xF0F0, 0xF100, 0xF120, 0xF141, 0xF1B0, 0xF200, 0xF220, 0xF241, 0xF2B0}

func genSubtable(t *rapid.T, format int, id [2]uint16) subtable {
	st := subtable{Platform: id[0], Encoding: id[1], Format: format}
	symbol := isSymbolID(&st) && rapid.IntRange(0, 3).Draw(t, "pua") != 0
	switch format {
	case 0:
		st.Bytes = make([]int, 256)
		dense := rapid.Bool().Draw(t, "dense")
		for i := range st.Bytes {
			if dense || rapid.IntRange(0, 7).Draw(t, "b_present") == 0 {
				st.Bytes[i] = int(genGlyph16(t, "b") & 0xFF)
			}
		}
	case 4:
		base := genBase16(t)
		if symbol {
			base = rapid.SampledFrom(puaBases).Draw(t, "pua_base")
		}
		st.Segs = genSegs4(t, base)
	case 6:
		st.First = uint32(genBase16(t))
		if symbol {
			st.First = uint32(rapid.SampledFrom(puaBases).Draw(t, "pua_base"))
		}
		st.Glyphs = make([]uint16, rapid.SampledFrom([]int{0, 1, 2, 16, 17, 31, 32, 33, 255, 256, 257, 300}).Draw(t, "count"))
		for i := range st.Glyphs {
			st.Glyphs[i] = genGlyph16(t, "g")
		}
	case 10:
		st.First = uint32(rapid.SampledFrom([]int64{0, 0x20, 0xFF, 0xFFF0, 0x10000, 0x1F600, 0xE0100, 0xE01E0, 0x10FE00, 0x10FFF0, 0x10FFFF, 0x110000, 0x1000041}).Draw(t, "first"))
		st.Glyphs = make([]uint16, rapid.SampledFrom([]int{0, 1, 2, 16, 17, 31, 32, 33, 255, 256, 257, 300}).Draw(t, "count"))
		for i := range st.Glyphs {
			st.Glyphs[i] = genGlyph16(t, "g")
		}
	case 12, 13:
		st.Groups = genGroups(t, format, symbol)
	}
	return st
}

func genSynth(t *rapid.T) *synthCase {
	c := &synthCase{}
	format := rapid.SampledFrom([]int{4, 4, 4, 4, 12, 12, 12, 13, 6, 10, 0}).Draw(t, "format")
	id := rapid.SampledFrom(encodingIDs).Draw(t, "id")
	c.Subtables = append(c.Subtables, genSubtable(t, format, id))
	if rapid.IntRange(0, 5).Draw(t, "second") == 0 {
		id2 := rapid.SampledFrom(encodingIDs).Draw(t, "id2")
		if id2 != id {
			f2 := rapid.SampledFrom([]int{4, 12, 6, 0, 13, 10}).Draw(t, "format2")
			c.Subtables = append(c.Subtables, genSubtable(t, f2, id2))
		}
	}
	sort.SliceStable(c.Subtables, func(i, j int) bool {
		a, b := c.Subtables[i], c.Subtables[j]
		return a.Platform < b.Platform || a.Platform == b.Platform && a.Encoding < b.Encoding
	})
	c.FontPage = rapid.SampledFrom([]uint16{0, 0, 0, 0xB200, 0xB300, 0xB100, 0xDE00}).Draw(t, "font_page")
	// the OS/2 table of the font: only version 0 carries a font page
	sp := os2Spec{Fill: rapid.IntRange(0, 2).Draw(t, "os2_fill")}
	if c.FontPage == 0 {
		sp.Version = rapid.SampledFrom([]int{4, 0, 1, 5, 3}).Draw(t, "os2_version")
		sp.Absent = rapid.IntRange(0, 9).Draw(t, "os2_absent") == 9
	}
	c.OS2 = &sp
	// about one table in ten is evaluated over all 0x110000 code points (draw 0, which shrinking moves
	// towards); the others over the BMP and the neighbourhood of every unit
	c.Exhaustive = rapid.IntRange(0, 23).Draw(t, "reduced_universe") == 0
	return c
}

// TestPropSynthetic: generated cmap tables through ParseCmap + ProcessCmap, laws (a) (b) (c).
func TestPropSynthetic(t *testing.T) {
	rapid.Check(t, func(t *rapid.T) {
		checkSynth(t, genSynth(t))
	})
}
