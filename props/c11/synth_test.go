package c11

import (
	"encoding/binary"
	"fmt"
	"sort"
	"testing"

	"github.com/go-text/typesetting/font"
	"github.com/go-text/typesetting/font/opentype/tables"
	"github.com/go-text/typesetting/language"
	"pgregory.net/rapid"

	"verif/internal/ev"
)

// ---- decoded synthetic case (this is what a replay file carries) --------------------------------

// seg4 is one segment of a format 4 subtable. Glyphs == nil: idRangeOffset = 0 (delta mapping);
// otherwise the segment points into the glyphIdArray where Glyphs is stored (the harness computes
// idRangeOffset), and Delta is added to every non-zero entry. RawRangeOffset, when non-zero,
// overrides idRangeOffset verbatim (0xFFFF on the final segment is a shape found in real fonts).
type seg4 struct {
	Start          uint16   `json:"start"`
	End            uint16   `json:"end"`
	Delta          uint16   `json:"delta"`
	Glyphs         []uint16 `json:"glyphs,omitempty"`
	RawRangeOffset uint16   `json:"raw_range_offset,omitempty"`
}

type group struct {
	Start uint32 `json:"start"`
	End   uint32 `json:"end"`
	Glyph uint32 `json:"glyph"`
}

type subtable struct {
	Platform uint16 `json:"platform"`
	Encoding uint16 `json:"encoding"`
	Format   int    `json:"format"`
	// format 0: 256 glyph bytes
	Bytes []int `json:"bytes,omitempty"`
	// format 4
	Segs []seg4 `json:"segments,omitempty"`
	// formats 6 and 10
	First  uint32   `json:"first,omitempty"`
	Glyphs []uint16 `json:"glyphs,omitempty"`
	// formats 12 and 13
	Groups []group `json:"groups,omitempty"`
	// format 14 (variation selectors; must sit at (0,5))
	Selectors []uvsSel `json:"selectors,omitempty"`
}

// uvsSel is one variation selector record of a format 14 subtable.
type uvsSel struct {
	Selector   uint32      `json:"selector"`
	Default    [][2]uint32 `json:"default,omitempty"`     // (start, additionalCount)
	NonDefault [][2]uint32 `json:"non_default,omitempty"` // (unicode, glyph)
}

type synthCase struct {
	Subtables  []subtable     `json:"subtables"`      // sorted by (platform, encoding) as the specification requires
	FontPage   uint16         `json:"font_page"`      // OS/2 font page argument of ProcessCmap
	OS2        *os2Spec       `json:"os2,omitempty"`  // OS/2 table of the font built around the cmap table
	Font       *fontSpec      `json:"font,omitempty"` // the other tables of that font (scan sequences)
	Exhaustive bool           `json:"exhaustive"`
	Disc       *disc          `json:"discrepancy,omitempty"`
	Count      map[string]int `json:"discrepancy_counts,omitempty"`
	Selected   string         `json:"cmap_type,omitempty"`
}

// ---- serialisers (written from the OpenType specification, independent of the library) ----------

type wr struct{ b []byte }

func (w *wr) u8(v uint8)   { w.b = append(w.b, v) }
func (w *wr) u16(v uint16) { w.b = binary.BigEndian.AppendUint16(w.b, v) }
func (w *wr) u32(v uint32) { w.b = binary.BigEndian.AppendUint32(w.b, v) }

func (st *subtable) serialize() []byte {
	var w wr
	switch st.Format {
	case 0:
		w.u16(0)
		w.u16(262)
		w.u16(0)
		for i := 0; i < 256; i++ {
			v := 0
			if i < len(st.Bytes) {
				v = st.Bytes[i]
			}
			w.u8(uint8(v))
		}
	case 4:
		n := len(st.Segs)
		var garr []uint16
		offs := make([]uint16, n)
		for i, sg := range st.Segs {
			if sg.RawRangeOffset != 0 {
				offs[i] = sg.RawRangeOffset
			} else if sg.Glyphs != nil {
				k := len(garr)
				garr = append(garr, sg.Glyphs...)
				offs[i] = uint16(2 * (n - i + k))
			}
		}
		w.u16(4)
		w.u16(uint16(16 + 8*n + 2*len(garr)))
		w.u16(0)
		w.u16(uint16(2 * n))
		sr, es := 1, 0
		for sr*2 <= n {
			sr *= 2
			es++
		}
		if n == 0 {
			sr = 0
		}
		w.u16(uint16(2 * sr))
		w.u16(uint16(es))
		w.u16(uint16(2*n - 2*sr))
		for _, sg := range st.Segs {
			w.u16(sg.End)
		}
		w.u16(0)
		for _, sg := range st.Segs {
			w.u16(sg.Start)
		}
		for _, sg := range st.Segs {
			w.u16(sg.Delta)
		}
		for _, o := range offs {
			w.u16(o)
		}
		for _, g := range garr {
			w.u16(g)
		}
	case 6:
		w.u16(6)
		w.u16(uint16(10 + 2*len(st.Glyphs)))
		w.u16(0)
		w.u16(uint16(st.First))
		w.u16(uint16(len(st.Glyphs)))
		for _, g := range st.Glyphs {
			w.u16(g)
		}
	case 10:
		w.u16(10)
		w.u16(0)
		w.u32(uint32(20 + 2*len(st.Glyphs)))
		w.u32(0)
		w.u32(st.First)
		w.u32(uint32(len(st.Glyphs)))
		for _, g := range st.Glyphs {
			w.u16(g)
		}
	case 12, 13:
		w.u16(uint16(st.Format))
		w.u16(0)
		w.u32(uint32(16 + 12*len(st.Groups)))
		w.u32(0)
		w.u32(uint32(len(st.Groups)))
		for _, g := range st.Groups {
			w.u32(g.Start)
			w.u32(g.End)
			w.u32(g.Glyph)
		}
	case 14:
		u24 := func(v uint32) { w.u8(uint8(v >> 16)); w.u8(uint8(v >> 8)); w.u8(uint8(v)) }
		var tail wr
		off := 10 + 11*len(st.Selectors)
		type offs struct{ d, n uint32 }
		os := make([]offs, len(st.Selectors))
		for i, sel := range st.Selectors {
			if sel.Default != nil {
				os[i].d = uint32(off + len(tail.b))
				tail.u32(uint32(len(sel.Default)))
				for _, r := range sel.Default {
					tail.u8(uint8(r[0] >> 16))
					tail.u8(uint8(r[0] >> 8))
					tail.u8(uint8(r[0]))
					tail.u8(uint8(r[1]))
				}
			}
			if sel.NonDefault != nil {
				os[i].n = uint32(off + len(tail.b))
				tail.u32(uint32(len(sel.NonDefault)))
				for _, r := range sel.NonDefault {
					tail.u8(uint8(r[0] >> 16))
					tail.u8(uint8(r[0] >> 8))
					tail.u8(uint8(r[0]))
					tail.u16(uint16(r[1]))
				}
			}
		}
		w.u16(14)
		w.u32(uint32(off + len(tail.b)))
		w.u32(uint32(len(st.Selectors)))
		for i, sel := range st.Selectors {
			u24(sel.Selector)
			w.u32(os[i].d)
			w.u32(os[i].n)
		}
		w.b = append(w.b, tail.b...)
	default:
		panic("harness: unsupported format")
	}
	return w.b
}

// uvsValid: the format 14 subtable obeys the specification (selectors sorted and unique, default
// ranges sorted and disjoint, non-default mappings sorted and unique, the two disjoint, all codes
// within 24 bits): then GetGlyphVariant must agree with a linear scan.
func (st *subtable) uvsValid() bool {
	for i, sel := range st.Selectors {
		if sel.Selector > 0xFFFFFF || i > 0 && st.Selectors[i-1].Selector >= sel.Selector {
			return false
		}
		for j, r := range sel.Default {
			if r[0]+r[1] > 0xFFFFFF || r[1] > 255 || j > 0 && sel.Default[j-1][0]+sel.Default[j-1][1] >= r[0] {
				return false
			}
		}
		for j, r := range sel.NonDefault {
			if r[0] > 0xFFFFFF || r[1] > 0xFFFF || j > 0 && sel.NonDefault[j-1][0] >= r[0] {
				return false
			}
			for _, d := range sel.Default {
				if r[0] >= d[0] && r[0] <= d[0]+d[1] {
					return false
				}
			}
		}
	}
	return true
}

// uvsModel is the linear-scan reading of a valid format 14 subtable: 0 not found, 1 use default, 2 found.
func (st *subtable) uvsModel(r, selector uint32) (glyph uint32, kind uint8) {
	for _, sel := range st.Selectors {
		if sel.Selector != selector {
			continue
		}
		for _, d := range sel.Default {
			if r >= d[0] && r <= d[0]+d[1] {
				return 0, 1
			}
		}
		for _, m := range sel.NonDefault {
			if m[0] == r {
				return m[1], 2
			}
		}
	}
	return 0, 0
}

func (c *synthCase) serialize() []byte {
	var w wr
	w.u16(0)
	w.u16(uint16(len(c.Subtables)))
	bodies := make([][]byte, len(c.Subtables))
	off := 4 + 8*len(c.Subtables)
	for i := range c.Subtables {
		bodies[i] = c.Subtables[i].serialize()
		w.u16(c.Subtables[i].Platform)
		w.u16(c.Subtables[i].Encoding)
		w.u32(uint32(off))
		off += len(bodies[i])
	}
	for _, b := range bodies {
		w.b = append(w.b, b...)
	}
	return w.b
}

// ---- structure of a synthetic subtable (for the non-triviality rule and the matchers) -----------

type structure struct {
	units     int  // segments / groups (formats 0, 6, 10: 1)
	hole      bool // some mapped position has glyph 0 (array entry 0, or delta arithmetic giving 0)
	wraps     bool // 16-bit glyph arithmetic wraps around (format 4), or glyph ids exceed 0xFFFF (12)
	abuts     bool // some unit starts right after the previous one ends
	inverted  bool // some segment/group has start > end
	unordered bool // unsorted or overlapping segments/groups, codes beyond U+10FFFF
	sentinel  bool // format 4 final 0xFFFF segment present
	empty     bool
}

func (st *subtable) structure() structure {
	var s structure
	switch st.Format {
	case 0:
		s.units = 1
		for _, b := range st.Bytes {
			if b == 0 {
				s.hole = true
			}
		}
	case 4:
		s.units = len(st.Segs)
		s.empty = len(st.Segs) == 0
		prev := -1 // index of the previous segment with start <= end
		for i, sg := range st.Segs {
			if sg.Start == 0xFFFF && sg.End == 0xFFFF && i == len(st.Segs)-1 {
				s.sentinel = true
			}
			if sg.Start > sg.End {
				s.inverted = true
				continue
			}
			if prev >= 0 {
				p := st.Segs[prev]
				if sg.Start <= p.End {
					s.unordered = true
				} else if sg.Start == p.End+1 {
					s.abuts = true
				}
			}
			prev = i
			if sg.Glyphs != nil && sg.RawRangeOffset == 0 {
				for _, g := range sg.Glyphs {
					if g == 0 {
						s.hole = true
					} else if uint32(g)+uint32(sg.Delta) > 0xFFFF {
						s.wraps = true
						if g+sg.Delta == 0 {
							s.hole = true
						}
					}
				}
			} else {
				if uint32(sg.End)+uint32(sg.Delta) > 0xFFFF {
					s.wraps = true
				}
				// does some code of the segment map to glyph 0 ?
				if z := uint16(0) - sg.Delta; z >= sg.Start && z <= sg.End {
					s.hole = true
				}
			}
		}
	case 6, 10:
		s.units = 1
		s.empty = len(st.Glyphs) == 0
		for _, g := range st.Glyphs {
			if g == 0 {
				s.hole = true
			}
		}
		if len(st.Glyphs) > 0 && uint64(st.First)+uint64(len(st.Glyphs))-1 > maxRune {
			s.unordered = true
		}
	case 12, 13:
		s.units = len(st.Groups)
		s.empty = len(st.Groups) == 0
		prev := -1
		for i, g := range st.Groups {
			if g.Start > g.End {
				s.inverted = true
				continue
			}
			if g.End > maxRune {
				s.unordered = true
			}
			if prev >= 0 {
				p := st.Groups[prev]
				if g.Start <= p.End {
					s.unordered = true
				} else if g.Start == p.End+1 {
					s.abuts = true
				}
			}
			prev = i
			if g.Glyph == 0 {
				s.hole = true
			}
			if st.Format == 12 && uint64(g.Glyph)+uint64(g.End-g.Start) > 0xFFFF {
				s.wraps = true
			}
		}
	}
	return s
}

// hints returns the intervals (beyond the BMP) that must be evaluated rune by rune when the case
// is not exhaustive: every unit widened by two pages on each side, and the images of out-of-range
// codes under 24-bit / 16-bit page truncation (where an aliasing defect would show).
func (c *synthCase) hints() [][2]int64 {
	var h [][2]int64
	add := func(lo, hi int64) {
		if lo > hi {
			lo, hi = hi, lo
		}
		h = append(h, [2]int64{lo - 0x200, lo + 0x200}, [2]int64{hi - 0x200, hi + 0x200})
		if hi-lo <= 0x20000 {
			h = append(h, [2]int64{lo, hi})
		}
		for _, v := range []int64{lo, hi} {
			if v > maxRune {
				h = append(h, [2]int64{v&0xFFFFFF - 0x100, v&0xFFFFFF + 0x100}, [2]int64{v&0xFFFF - 0x100, v&0xFFFF + 0x100},
					[2]int64{v % 0x110000, v%0x110000 + 0x100})
			}
		}
	}
	for _, st := range c.Subtables {
		switch st.Format {
		case 4:
			for _, sg := range st.Segs {
				add(int64(sg.Start), int64(sg.End))
				if sg.Start > sg.End { // a wrapped walk would reach start + 0xFFFF
					add(int64(sg.Start), int64(sg.Start)+0x10000)
				}
			}
		case 6, 10:
			add(int64(st.First), int64(st.First)+int64(len(st.Glyphs)))
		case 12, 13:
			for _, g := range st.Groups {
				add(int64(g.Start), int64(g.End))
			}
		}
	}
	h = append(h, [2]int64{maxRune - 0x1FF, maxRune})
	return h
}

// ---- the property on one synthetic table ---------------------------------------------------------

func isSymbolID(st *subtable) bool { return st.Platform == 3 && st.Encoding == 0 }

// checkSynth parses the serialised table through tables.ParseCmap + font.ProcessCmap and, when it is
// accepted, evaluates the laws. Returns labels for the evidence.
func checkSynth(t ev.TB, c *synthCase) {
	data := c.serialize()
	cc := *c // the value written on failure carries the verdict
	ev.Journal("synth", c)
	defer ev.JournalDone()
	var (
		cm       font.Cmap
		uv       font.UnicodeVariations
		err      error
		panicked any
	)
	func() {
		defer func() {
			if r := recover(); r != nil {
				panicked = r
			}
		}()
		var tb tables.Cmap
		tb, _, err = tables.ParseCmap(data)
		if err != nil {
			return
		}
		cm, uv, err = font.ProcessCmap(tb, tables.FontPage(c.FontPage))
	}()
	// structure of every subtable; the one selected is identified after processing
	anyMalformed := false
	for i := range c.Subtables {
		if st := c.Subtables[i].structure(); st.inverted || st.unordered {
			anyMalformed = true
		}
	}
	if panicked != nil {
		if anyMalformed || c.offsetsBroken() {
			// totality on tables that violate the specification is C09's business
			ev.Case(false, nil, "rejected", "panic_on_malformed")
			return
		}
		ev.Fail(t, "synth", &cc, "ParseCmap/ProcessCmap panicked on a table that is well-formed per the specification: %v", panicked)
	}
	if err != nil || cm == nil {
		ev.Case(false, nil, "rejected")
		return
	}
	typeName, innerType := typeNames(cm)
	sel, selStruct := c.selected(innerType)
	_ = sel // nil when two subtables have the selected format: selStruct is then their union
	sh := shapeOfType(typeName, innerType)
	sh.inverted, sh.unordered = selStruct.inverted, selStruct.unordered
	rp := checkCmap(cm, c.Exhaustive, c.hints(), newMatcher(sh))
	cc.Selected = rp.typeName
	if rp.counts[dPanic] > 0 && (sh.inverted || sh.unordered) {
		ev.Case(false, nil, "accepted", "panic_on_malformed")
		return
	}
	first, ids := judge(rp)
	for _, id := range ids {
		ev.Excluded(id)
	}
	nontrivial := selStruct.units >= 2 && (selStruct.hole || selStruct.wraps || selStruct.abuts)
	labels := []string{"accepted", fmt.Sprintf("format:%d", sh.format)}
	if selStruct.hole {
		labels = append(labels, "hole")
	}
	if selStruct.wraps {
		labels = append(labels, "wraps")
	}
	if selStruct.abuts {
		labels = append(labels, "abuts")
	}
	if selStruct.inverted {
		labels = append(labels, "inverted_accepted")
	}
	if selStruct.unordered {
		labels = append(labels, "unordered_accepted")
	}
	if selStruct.sentinel {
		labels = append(labels, "sentinel")
	}
	if selStruct.empty {
		labels = append(labels, "empty_subtable")
	}
	if sh.remapped {
		labels = append(labels, "remapped:"+rp.typeName)
	}
	if rp.ranger {
		labels = append(labels, "ranger")
	}
	if c.Exhaustive {
		labels = append(labels, "exhaustive_code_space")
	}
	if rp.nLookup == 0 {
		labels = append(labels, "maps_nothing")
	}
	if len(c.Subtables) > 1 {
		labels = append(labels, "multi_subtable")
	}
	ev.Case(nontrivial, data, labels...)
	if msg := c.checkUVS(uv); msg != "" {
		ev.Fail(t, "synth", &cc, "synthetic cmap, format 14 subtable: %s", msg)
	}
	if first == nil && rp.counts[dIterRunaway] == 0 {
		// font level: the same table inside a minimal font file, through the loader and both
		// scanning paths
		fl, failure := checkSynthFont(c, cm)
		for _, l := range fl {
			ev.Label(l)
		}
		if failure != "" {
			ev.Fail(t, "synth", &cc, "synthetic font (%s, OS/2 %+v): %s", rp.typeName, c.os2(), failure)
		}
	}
	if first != nil {
		cc.Disc, cc.Count = first, rp.counts
		ev.Fail(t, "synth", &cc, "synthetic cmap (%s): %s  [all discrepancies: %v, of which matched by listed findings: %v]", rp.typeName, first.Msg, rp.counts, rp.excused)
	}
	if nontrivial && ev.WantSample() {
		ev.Sample(map[string]any{"subtables": c.Subtables, "font_page": c.FontPage, "cmap_type": rp.typeName, "runes_mapped": rp.nLookup, "iter_pairs": rp.nIter})
	}
}

// offsetsBroken: a format 4 segment uses a raw idRangeOffset that does not point into the
// glyphIdArray (only the 0xFFFF-on-sentinel shape is considered well-formed enough).
func (c *synthCase) offsetsBroken() bool {
	for _, st := range c.Subtables {
		for _, sg := range st.Segs {
			if sg.RawRangeOffset != 0 && !(sg.Start == 0xFFFF && sg.End == 0xFFFF) {
				return true
			}
		}
	}
	return false
}

// selected identifies the subtable ProcessCmap chose, from the type of the resulting cmap: it is
// unambiguous when exactly one subtable has the corresponding format.
func (c *synthCase) selected(innerType string) (*subtable, structure) {
	want := map[string][]int{"font.cmap0": {0}, "font.cmap4": {4}, "font.cmap6or10": {6, 10}, "font.cmap12": {12}, "font.cmap13": {13}}[innerType]
	var found *subtable
	n := 0
	for i := range c.Subtables {
		for _, f := range want {
			if c.Subtables[i].Format == f {
				found = &c.Subtables[i]
				n++
			}
		}
	}
	if n != 1 {
		// several candidates: merge their structures
		var m structure
		for i := range c.Subtables {
			s := c.Subtables[i].structure()
			m.units = max(m.units, s.units)
			m.hole = m.hole || s.hole
			m.wraps = m.wraps || s.wraps
			m.abuts = m.abuts || s.abuts
			m.inverted = m.inverted || s.inverted
			m.unordered = m.unordered || s.unordered
		}
		return nil, m
	}
	return found, found.structure()
}

// ---- generators ---------------------------------------------------------------------------------

var encodingIDs = [][2]uint16{{3, 1}, {3, 10}, {0, 3}, {0, 4}, {0, 6}, {3, 0}, {3, 0}, {1, 0}, {0, 0}, {0, 1}, {3, 1}}

func genGlyph16(t *rapid.T, label string) uint16 {
	switch rapid.IntRange(0, 7).Draw(t, label+"_kind") {
	case 0, 1:
		return 0
	case 2:
		return 0xFFFF
	case 3:
		return uint16(rapid.IntRange(0, 0xFFFF).Draw(t, label))
	default:
		return uint16(rapid.IntRange(1, 40).Draw(t, label))
	}
}

func genLen(t *rapid.T, label string) int {
	switch rapid.IntRange(0, 9).Draw(t, label+"_kind") {
	case 0, 1, 2:
		return 1
	case 3:
		return 2
	case 4, 5, 6:
		return rapid.IntRange(3, 40).Draw(t, label)
	case 7:
		return rapid.IntRange(250, 520).Draw(t, label)
	case 8:
		return 256
	default:
		return rapid.IntRange(600, 3000).Draw(t, label)
	}
}

func genGap(t *rapid.T, label string) int {
	switch rapid.IntRange(0, 9).Draw(t, label+"_kind") {
	case 0, 1, 2:
		return 1 // abuts
	case 3:
		return 2
	case 4, 5:
		return rapid.IntRange(3, 64).Draw(t, label)
	case 6:
		return 256
	case 7:
		return rapid.IntRange(200, 700).Draw(t, label)
	default:
		return rapid.IntRange(1000, 20000).Draw(t, label)
	}
}

// genSegs4 builds format 4 segments. base is where the first segment starts.
func genSegs4(t *rapid.T, base int) []seg4 {
	n := rapid.IntRange(0, 6).Draw(t, "nseg")
	var segs []seg4
	cur := base
	for i := 0; i < n; i++ {
		gap := 0
		if i > 0 {
			gap = genGap(t, "gap")
		}
		start := cur + gap
		if start > 0xFFFE {
			break
		}
		l := genLen(t, "len")
		end := start + l - 1
		if end > 0xFFFF {
			end = 0xFFFF
		} else if end == 0xFFFF && rapid.Bool().Draw(t, "avoidFFFF") {
			end = 0xFFFE
		}
		sg := seg4{Start: uint16(start), End: uint16(end)}
		if rapid.IntRange(0, 2).Draw(t, "mapping") == 0 {
			// glyph array
			sg.Glyphs = make([]uint16, end-start+1)
			for j := range sg.Glyphs {
				sg.Glyphs[j] = genGlyph16(t, "g")
			}
			switch rapid.IntRange(0, 5).Draw(t, "adelta") {
			case 0:
				sg.Delta = 1
			case 1:
				sg.Delta = 0xFFFF
			case 2:
				sg.Delta = uint16(rapid.IntRange(0, 0xFFFF).Draw(t, "adeltav"))
			}
		} else {
			switch rapid.IntRange(0, 7).Draw(t, "delta") {
			case 0:
				sg.Delta = 0
			case 1:
				sg.Delta = uint16(0 - start) // first code maps to glyph 0
			case 2:
				sg.Delta = uint16(0 - end) // last code maps to glyph 0
			case 3:
				sg.Delta = uint16(0 - (start+end)/2) // wraps in the middle of the segment
			case 4:
				sg.Delta = 0xFFFF
			case 5:
				sg.Delta = uint16(rapid.IntRange(0, 0xFFFF).Draw(t, "deltav"))
			default:
				sg.Delta = uint16(rapid.IntRange(1, 300).Draw(t, "deltas") - start)
			}
		}
		segs = append(segs, sg)
		cur = end
		if end == 0xFFFF {
			break
		}
	}
	// final segment
	lastIsFFFF := len(segs) > 0 && segs[len(segs)-1].End == 0xFFFF
	if !lastIsFFFF {
		switch rapid.IntRange(0, 7).Draw(t, "sentinel") {
		case 0:
			// missing (tolerated by every parser)
		case 1:
			segs = append(segs, seg4{Start: 0xFFFF, End: 0xFFFF, Delta: 1, RawRangeOffset: 0xFFFF})
		case 2:
			segs = append(segs, seg4{Start: 0xFFFF, End: 0xFFFF, Delta: 0})
		case 3:
			segs = append(segs, seg4{Start: 0xFFFF, End: 0xFFFF, Delta: uint16(rapid.IntRange(0, 0xFFFF).Draw(t, "sdelta"))})
		default:
			segs = append(segs, seg4{Start: 0xFFFF, End: 0xFFFF, Delta: 1})
		}
	}
	// shapes that violate the specification (accepted tables must still obey the laws)
	if len(segs) >= 2 {
		switch rapid.IntRange(0, 29).Draw(t, "hostile") {
		case 27: // unsorted
			i := rapid.IntRange(0, len(segs)-2).Draw(t, "swap")
			segs[i], segs[i+1] = segs[i+1], segs[i]
		case 28: // overlapping
			i := rapid.IntRange(1, len(segs)-1).Draw(t, "ovl")
			if segs[i].Glyphs == nil && segs[i].Start > 0 {
				segs[i].Start = segs[i-1].End - uint16(rapid.IntRange(0, 1).Draw(t, "ovlby"))
			}
		case 29: // start > end
			i := rapid.IntRange(0, len(segs)-1).Draw(t, "inv")
			if segs[i].Glyphs == nil && segs[i].Start != segs[i].End {
				segs[i].Start, segs[i].End = segs[i].End, segs[i].Start
			}
		}
	}
	return segs
}

// scriptEdges are the code points next to a boundary between a script range and a gap of
// language.ScriptRanges (runes without script), where the script set computation has its cases.
var scriptEdges16, scriptEdges32 = func() (e16 []int, e32 []int64) {
	add := func(r rune) {
		if r < 0 || r > maxRune {
			return
		}
		if r <= 0xFFFF {
			e16 = append(e16, int(r))
		}
		e32 = append(e32, int64(r))
	}
	for i, e := range language.ScriptRanges {
		next := rune(maxRune + 1)
		if i+1 < len(language.ScriptRanges) {
			next = language.ScriptRanges[i+1].Start
		}
		if e.End+1 < next { // a gap follows
			add(e.End - 1)
			add(e.End)
			add(e.End + 1)
			add(next - 2)
			add(next - 1)
		}
	}
	return e16, e32
}()

func genBase16(t *rapid.T) int {
	if rapid.IntRange(0, 3).Draw(t, "base_kind") == 0 {
		return rapid.SampledFrom(scriptEdges16).Draw(t, "base_edge")
	}
	return rapid.SampledFrom([]int{0, 0, 0x20, 0x41, 0xF0, 0xFF, 0x100, 0x600, 0x621, 0x2000, 0xF000, 0xF020, 0xF0F0, 0xF100, 0xF120, 0xF200, 0xF220, 0xFE70, 0xFFF0, 0xFFFD}).Draw(t, "base")
}

func genGroups(t *rapid.T, format int, symbol bool) []group {
	n := rapid.IntRange(0, 6).Draw(t, "ngroups")
	var base int64
	if symbol {
		base = int64(rapid.SampledFrom(puaBases).Draw(t, "pua_base"))
	} else if rapid.IntRange(0, 3).Draw(t, "gbase_kind") == 0 {
		base = rapid.SampledFrom(scriptEdges32).Draw(t, "gbase_edge")
	} else {
		base = rapid.SampledFrom([]int64{0, 0x20, 0xF0, 0x100, 0x600, 0xD7F0, 0xF000, 0xF100, 0xFFF0, 0xFFFF, 0x10000, 0x1F600, 0x2FFF0, 0xE0000, 0xE0100, 0xE01E0, 0xE01EF, 0xF0000, 0x10FF00, 0x10FFF0}).Draw(t, "gbase")
	}
	var gs []group
	cur := base
	for i := 0; i < n; i++ {
		gap := int64(0)
		if i > 0 {
			gap = int64(genGap(t, "gap"))
			if rapid.IntRange(0, 9).Draw(t, "farjump") == 0 {
				gap = int64(rapid.IntRange(0x10000, 0x90000).Draw(t, "far"))
			}
		}
		start := cur + gap
		if start > maxRune {
			break
		}
		l := int64(genLen(t, "len"))
		if rapid.IntRange(0, 19).Draw(t, "hugelen") == 0 {
			l = int64(rapid.IntRange(0x1000, 0x30000).Draw(t, "huge"))
		}
		end := start + l - 1
		if end > maxRune {
			end = maxRune
		}
		var g uint32
		switch rapid.IntRange(0, 5).Draw(t, "gid") {
		case 0:
			g = 0
		case 1:
			g = uint32(0xFFFF - (end-start)/2) // crosses 0xFFFF
		case 2:
			g = uint32(rapid.IntRange(0, 0xFFFF).Draw(t, "gidv"))
		default:
			g = uint32(rapid.IntRange(1, 500).Draw(t, "gids"))
		}
		gs = append(gs, group{Start: uint32(start), End: uint32(end), Glyph: g})
		cur = end
	}
	if len(gs) >= 1 {
		switch rapid.IntRange(0, 39).Draw(t, "hostile") {
		case 36: // unsorted
			if len(gs) >= 2 {
				i := rapid.IntRange(0, len(gs)-2).Draw(t, "swap")
				gs[i], gs[i+1] = gs[i+1], gs[i]
			}
		case 37: // overlapping
			if len(gs) >= 2 {
				i := rapid.IntRange(1, len(gs)-1).Draw(t, "ovl")
				gs[i].Start = gs[i-1].End - uint32(rapid.IntRange(0, 2).Draw(t, "ovlby"))
				if gs[i].Start > gs[i-1].End {
					gs[i].Start = gs[i-1].End
				}
			}
		case 38: // start > end (kept short: a wrapped walk would otherwise be 2^32 long)
			i := rapid.IntRange(0, len(gs)-1).Draw(t, "inv")
			if gs[i].Start != gs[i].End {
				gs[i].Start, gs[i].End = gs[i].End, gs[i].Start
			}
		case 39: // beyond the code space
			lo := uint32(rapid.SampledFrom([]int64{0x10FFFE, 0x110000, 0x110041, 0x1000041, 0x7FFFFFF0, 0x80000041, 0xFFFFFF00}).Draw(t, "beyond"))
			l := uint32(rapid.IntRange(0, 40).Draw(t, "beyondlen"))
			if lo+l < lo {
				l = 0
			}
			gs = append(gs, group{Start: lo, End: lo + l, Glyph: 7})
		}
	}
	return gs
}

// checkUVS: a specification-valid format 14 subtable at (0,5) must answer GetGlyphVariant as a
// linear scan of its records does (probed at every range boundary and its neighbours, for every
// selector of the table and two absent ones). Malformed ones carry no law here.
func (c *synthCase) checkUVS(uv font.UnicodeVariations) string {
	for i := range c.Subtables {
		st := &c.Subtables[i]
		if st.Format != 14 || st.Platform != 0 || st.Encoding != 5 {
			continue
		}
		if !st.uvsValid() {
			ev.Label("uvs_malformed_accepted")
			return ""
		}
		ev.Label("uvs_valid_checked")
		sels := []uint32{0xFE00 - 1, 0xE01F0}
		var probes []uint32
		for _, sel := range st.Selectors {
			sels = append(sels, sel.Selector)
			for _, d := range sel.Default {
				probes = append(probes, d[0]-1, d[0], d[0]+1, d[0]+d[1]-1, d[0]+d[1], d[0]+d[1]+1)
			}
			for _, m := range sel.NonDefault {
				probes = append(probes, m[0]-1, m[0], m[0]+1)
			}
		}
		for _, sel := range sels {
			for _, r := range probes {
				if r > maxRune {
					continue
				}
				var (
					g    font.GID
					kind uint8
				)
				if p := guard(func() { g, kind = uv.GetGlyphVariant(rune(r), rune(sel)) }); p != nil {
					return fmt.Sprintf("GetGlyphVariant(%s, %s) panics on a valid table: %v", u(rune(r)), u(rune(sel)), p)
				}
				wg, wk := st.uvsModel(r, sel)
				if kind != wk || kind == 2 && uint32(g) != wg {
					return fmt.Sprintf("GetGlyphVariant(%s, %s) = (%d, kind %d); the records of the table say (%d, kind %d) [0 not found, 1 use default, 2 found]", u(rune(r)), u(rune(sel)), g, kind, wg, wk)
				}
			}
		}
	}
	return ""
}

func genUVS(t *rapid.T) subtable {
	st := subtable{Platform: 0, Encoding: 5, Format: 14}
	if rapid.IntRange(0, 19).Draw(t, "uvs_wrong_id") == 19 {
		st.Platform, st.Encoding = 3, 10 // rejected by ProcessCmap
	}
	n := rapid.IntRange(0, 3).Draw(t, "uvs_selectors")
	sel := uint32(rapid.SampledFrom([]int{0xFE00, 0xFE0E, 0xE0100}).Draw(t, "uvs_first"))
	for i := 0; i < n; i++ {
		rec := uvsSel{Selector: sel}
		cur := uint32(rapid.SampledFrom([]int{0x30, 0x4E00, 0x1F600, 0xFFFE}).Draw(t, "uvs_base"))
		nd := rapid.IntRange(0, 4).Draw(t, "uvs_default")
		for j := 0; j < nd; j++ {
			add := uint32(rapid.SampledFrom([]int{0, 0, 1, 5, 255}).Draw(t, "uvs_add"))
			rec.Default = append(rec.Default, [2]uint32{cur, add})
			cur += add + uint32(rapid.SampledFrom([]int{1, 1, 2, 40}).Draw(t, "uvs_gap"))
		}
		nn := rapid.IntRange(0, 4).Draw(t, "uvs_nondefault")
		for j := 0; j < nn; j++ {
			rec.NonDefault = append(rec.NonDefault, [2]uint32{cur, uint32(rapid.IntRange(0, 300).Draw(t, "uvs_glyph"))})
			cur += uint32(rapid.SampledFrom([]int{1, 1, 2, 40}).Draw(t, "uvs_gap"))
		}
		// composed malformations: unsorted / overlapping / duplicated records
		switch rapid.IntRange(0, 11).Draw(t, "uvs_hostile") {
		case 8:
			if len(rec.Default) >= 2 {
				rec.Default[0], rec.Default[1] = rec.Default[1], rec.Default[0]
			}
		case 9:
			if len(rec.Default) >= 2 {
				rec.Default[1][0] = rec.Default[0][0] + rec.Default[0][1] // overlaps the previous range by one
			}
		case 10:
			if len(rec.NonDefault) >= 2 {
				rec.NonDefault[1] = rec.NonDefault[0]
			}
		case 11:
			if len(rec.NonDefault) >= 1 && len(rec.Default) >= 1 {
				rec.NonDefault[0][0] = rec.Default[0][0] // in both tables
			}
		}
		st.Selectors = append(st.Selectors, rec)
		switch rapid.IntRange(0, 9).Draw(t, "uvs_next") {
		case 8:
			// duplicate selector
		case 9:
			sel-- // unsorted
		default:
			sel += uint32(rapid.IntRange(1, 3).Draw(t, "uvs_step"))
		}
	}
	return st
}

// ---- composed malformations -----------------------------------------------------------------------
//
// The sanitising constructors (newCmap4, sanitizeGroups) look at each segment/group relative to
// what they kept so far; a defect there needs TWO malformations interacting (an invalid element
// that disturbs the state used to judge the next one). These generators therefore draw every
// element of a sequence from a set of kinds, so that 2-3 malformed elements end up adjacent or
// separated by valid ones.

const (
	kValid = iota
	kValid2
	kValid3
	kInverted     // start > end, around the current position
	kInvertedBack // start > end, end inside or before an earlier element
	kOverlapPrev  // starts inside the previous valid element, ends after it
	kOverlapEarly // starts inside an earlier valid element
	kDuplicate    // copy of an earlier element
	kOutOfOrder   // entirely before the first element
	kBeyond       // beyond the code space (formats 12/13)
	kGlyphWrap    // glyph ids that wrap around
	kSingle       // a single code
	kInsidePrev   // entirely inside the previous valid element
	kAbutInverted // inverted element that starts right after the previous valid one
	nKinds
)

func genGroupsComposed(t *rapid.T, format int) []group {
	n := rapid.IntRange(2, 7).Draw(t, "cgroups")
	base := uint32(rapid.SampledFrom([]int{0x100, 0x20, 0xFF00, 0x10000, 0xE0100, 0x10FF00}).Draw(t, "cbase"))
	var gs, valid []group
	cur := base
	glyph := func() uint32 { return uint32(rapid.IntRange(1, 400).Draw(t, "cgid")) }
	span := func() uint32 { return uint32(rapid.SampledFrom([]int{1, 2, 16, 0x100, 0x120}).Draw(t, "cspan")) }
	for i := 0; i < n; i++ {
		kind := rapid.IntRange(0, nKinds-1).Draw(t, "ckind")
		if len(valid) == 0 && kind != kInverted && kind != kBeyond && kind != kSingle && kind != kGlyphWrap {
			kind = kValid
		}
		var g group
		switch kind {
		case kValid, kValid2, kValid3, kSingle, kGlyphWrap:
			gap := uint32(rapid.SampledFrom([]int{1, 1, 2, 0x50, 0x101}).Draw(t, "cgap"))
			l := span()
			if kind == kSingle {
				l = 1
			}
			g = group{Start: cur + gap, End: cur + gap + l - 1, Glyph: glyph()}
			if kind == kGlyphWrap {
				g.Glyph = rapid.SampledFrom([]uint32{0, 0xFFFF, 0xFFFFFFFF, uint32(0) - l/2}).Draw(t, "cwrap")
			}
			if g.End <= maxRune {
				valid = append(valid, g)
				cur = g.End
			}
		case kInverted:
			l := span() + 1
			g = group{Start: cur + 1 + l, End: cur + 1, Glyph: glyph()}
		case kAbutInverted:
			g = group{Start: cur + 1, End: cur, Glyph: glyph()}
		case kInvertedBack:
			e := valid[rapid.IntRange(0, len(valid)-1).Draw(t, "cback")]
			g = group{Start: cur + span(), End: e.Start + (e.End-e.Start)/2, Glyph: glyph()}
			if g.Start <= g.End {
				g.Start = g.End + 1
			}
		case kOverlapPrev:
			p := valid[len(valid)-1]
			g = group{Start: p.Start + (p.End-p.Start)/2, End: p.End + span(), Glyph: glyph()}
		case kInsidePrev:
			p := valid[len(valid)-1]
			g = group{Start: p.Start, End: p.Start + (p.End-p.Start)/2, Glyph: glyph()}
		case kOverlapEarly:
			e := valid[rapid.IntRange(0, len(valid)-1).Draw(t, "cearly")]
			g = group{Start: e.End, End: e.End + span(), Glyph: glyph()}
		case kDuplicate:
			g = valid[rapid.IntRange(0, len(valid)-1).Draw(t, "cdup")]
		case kOutOfOrder:
			f := valid[0]
			l := span()
			if f.Start > l+1 {
				g = group{Start: f.Start - l - 1, End: f.Start - 2, Glyph: glyph()}
			} else {
				g = group{Start: 0, End: 0, Glyph: glyph()}
			}
		case kBeyond:
			lo := rapid.SampledFrom([]uint32{0x10FFF0, 0x10FFFF, 0x110000, 0x1000041, 0xFFFFFF00}).Draw(t, "cbeyond")
			g = group{Start: lo, End: lo + uint32(rapid.IntRange(0, 40).Draw(t, "cbeyondlen")), Glyph: glyph()}
		}
		gs = append(gs, g)
	}
	return gs
}

func genSegs4Composed(t *rapid.T) []seg4 {
	n := rapid.IntRange(2, 6).Draw(t, "csegs")
	base := rapid.SampledFrom([]int{0x100, 0x20, 0x2000, 0xF000, 0xFE00}).Draw(t, "cbase")
	var segs, valid []seg4
	cur := base
	span := func() int { return rapid.SampledFrom([]int{1, 2, 16, 0x100, 0x120}).Draw(t, "cspan") }
	mk := func(start, end int) seg4 {
		if start < 0 {
			start = 0
		}
		if end < 0 {
			end = 0
		}
		if start > 0xFFFE {
			start = 0xFFFE
		}
		if end > 0xFFFE {
			end = 0xFFFE
		}
		sg := seg4{Start: uint16(start), End: uint16(end)}
		switch rapid.IntRange(0, 3).Draw(t, "cmap") {
		case 0:
			if start <= end && end-start < 600 {
				sg.Glyphs = make([]uint16, end-start+1)
				for j := range sg.Glyphs {
					sg.Glyphs[j] = genGlyph16(t, "cg")
				}
				sg.Delta = rapid.SampledFrom([]uint16{0, 0, 1, 0xFFFF}).Draw(t, "cadelta")
				return sg
			}
			fallthrough
		case 1:
			sg.Delta = uint16(0 - start) // the first code maps to glyph 0
		case 2:
			sg.Delta = uint16(rapid.IntRange(0, 0xFFFF).Draw(t, "cdelta"))
		default:
			sg.Delta = uint16(rapid.IntRange(1, 300).Draw(t, "cdeltas") - start)
		}
		return sg
	}
	for i := 0; i < n; i++ {
		kind := rapid.IntRange(0, nKinds-1).Draw(t, "ckind")
		if kind == kBeyond {
			kind = kInverted
		}
		if len(valid) == 0 && kind != kInverted && kind != kSingle && kind != kGlyphWrap {
			kind = kValid
		}
		var sg seg4
		switch kind {
		case kValid, kValid2, kValid3, kSingle, kGlyphWrap:
			gap := rapid.SampledFrom([]int{1, 1, 2, 0x50, 0x101}).Draw(t, "cgap")
			l := span()
			if kind == kSingle {
				l = 1
			}
			sg = mk(cur+gap, cur+gap+l-1)
			if kind == kGlyphWrap && sg.Glyphs == nil {
				sg.Delta = uint16(0 - (cur + gap + l/2))
			}
			valid = append(valid, sg)
			cur = int(sg.End)
		case kInverted:
			l := span() + 1
			sg = mk(cur+1+l, cur+1)
		case kAbutInverted:
			sg = mk(cur+1, cur)
		case kInvertedBack:
			e := valid[rapid.IntRange(0, len(valid)-1).Draw(t, "cback")]
			sg = mk(cur+span(), (int(e.Start)+int(e.End))/2)
		case kOverlapPrev:
			p := valid[len(valid)-1]
			sg = mk((int(p.Start)+int(p.End))/2, int(p.End)+span())
		case kInsidePrev:
			p := valid[len(valid)-1]
			sg = mk(int(p.Start), (int(p.Start)+int(p.End))/2)
		case kOverlapEarly:
			e := valid[rapid.IntRange(0, len(valid)-1).Draw(t, "cearly")]
			sg = mk(int(e.End), int(e.End)+span())
		case kDuplicate:
			sg = valid[rapid.IntRange(0, len(valid)-1).Draw(t, "cdup")]
		case kOutOfOrder:
			f := valid[0]
			l := span()
			sg = mk(int(f.Start)-l-1, int(f.Start)-2)
		}
		// an inverted segment cannot carry a glyph array
		if sg.Start > sg.End {
			sg.Glyphs = nil
		}
		segs = append(segs, sg)
	}
	switch rapid.IntRange(0, 5).Draw(t, "csentinel") {
	case 0:
	case 1:
		segs = append(segs, seg4{Start: 0xFFFF, End: 0xFFFF, Delta: 1, RawRangeOffset: 0xFFFF})
	default:
		segs = append(segs, seg4{Start: 0xFFFF, End: 0xFFFF, Delta: 1})
	}
	// rarely: an idRangeOffset pointing outside the table (the table must then be rejected)
	if rapid.IntRange(0, 29).Draw(t, "coutside") == 29 {
		i := rapid.IntRange(0, len(segs)-1).Draw(t, "coutside_i")
		if segs[i].Start <= segs[i].End && segs[i].Start != 0xFFFF {
			segs[i].Glyphs = nil
			segs[i].RawRangeOffset = uint16(rapid.SampledFrom([]int{0x7FFE, 0xFFFE, 0x4000}).Draw(t, "coutside_v"))
		}
	}
	return segs
}

// puaBases: where the symbol (U+F0xx) and legacy Arabic (U+F1xx simplified, U+F2xx traditional)
// remappings of a (3,0) subtable look for glyphs.
var puaBases = []int{0xF000, 0xF020, 0xF041, 0xF0F0, 0xF100, 0xF120, 0xF141, 0xF1B0, 0xF200, 0xF220, 0xF241, 0xF2B0}

func genSubtable(t *rapid.T, format int, id [2]uint16) subtable {
	st := subtable{Platform: id[0], Encoding: id[1], Format: format}
	symbol := isSymbolID(&st) && rapid.IntRange(0, 3).Draw(t, "pua") != 0
	switch format {
	case 0:
		st.Bytes = make([]int, 256)
		dense := rapid.Bool().Draw(t, "dense")
		for i := range st.Bytes {
			if dense || rapid.IntRange(0, 7).Draw(t, "b_present") == 0 {
				st.Bytes[i] = int(genGlyph16(t, "b") & 0xFF)
			}
		}
	case 4:
		base := genBase16(t)
		if symbol {
			base = rapid.SampledFrom(puaBases).Draw(t, "pua_base")
		}
		if rapid.IntRange(0, 3).Draw(t, "composed") == 3 {
			st.Segs = genSegs4Composed(t)
		} else {
			st.Segs = genSegs4(t, base)
		}
	case 6:
		st.First = uint32(genBase16(t))
		if symbol {
			st.First = uint32(rapid.SampledFrom(puaBases).Draw(t, "pua_base"))
		}
		st.Glyphs = make([]uint16, rapid.SampledFrom([]int{0, 1, 2, 16, 17, 31, 32, 33, 255, 256, 257, 300}).Draw(t, "count"))
		for i := range st.Glyphs {
			st.Glyphs[i] = genGlyph16(t, "g")
		}
	case 10:
		st.First = uint32(rapid.SampledFrom([]int64{0, 0x20, 0xFF, 0xFFF0, 0x10000, 0x1F600, 0xE0100, 0xE01E0, 0x10FE00, 0x10FFF0, 0x10FFFF, 0x110000, 0x1000041}).Draw(t, "first"))
		st.Glyphs = make([]uint16, rapid.SampledFrom([]int{0, 1, 2, 16, 17, 31, 32, 33, 255, 256, 257, 300}).Draw(t, "count"))
		for i := range st.Glyphs {
			st.Glyphs[i] = genGlyph16(t, "g")
		}
	case 12, 13:
		if rapid.IntRange(0, 2).Draw(t, "composed") == 2 {
			st.Groups = genGroupsComposed(t, format)
		} else {
			st.Groups = genGroups(t, format, symbol)
		}
	}
	return st
}

func genSynth(t *rapid.T) *synthCase {
	c := &synthCase{}
	format := rapid.SampledFrom([]int{4, 4, 4, 4, 12, 12, 12, 13, 6, 10, 0}).Draw(t, "format")
	id := rapid.SampledFrom(encodingIDs).Draw(t, "id")
	c.Subtables = append(c.Subtables, genSubtable(t, format, id))
	if rapid.IntRange(0, 5).Draw(t, "second") == 0 {
		id2 := rapid.SampledFrom(encodingIDs).Draw(t, "id2")
		if id2 != id {
			f2 := rapid.SampledFrom([]int{4, 12, 6, 0, 13, 10}).Draw(t, "format2")
			c.Subtables = append(c.Subtables, genSubtable(t, f2, id2))
		}
	}
	if rapid.IntRange(0, 7).Draw(t, "uvs") == 7 {
		uvs := genUVS(t)
		dup := false
		for _, st := range c.Subtables {
			dup = dup || st.Platform == uvs.Platform && st.Encoding == uvs.Encoding
		}
		if !dup {
			c.Subtables = append(c.Subtables, uvs)
		}
	}
	sort.SliceStable(c.Subtables, func(i, j int) bool {
		a, b := c.Subtables[i], c.Subtables[j]
		return a.Platform < b.Platform || a.Platform == b.Platform && a.Encoding < b.Encoding
	})
	c.FontPage = rapid.SampledFrom([]uint16{0, 0, 0, 0xB200, 0xB300, 0xB100, 0xDE00}).Draw(t, "font_page")
	// the OS/2 table of the font: only version 0 carries a font page
	sp := os2Spec{Fill: rapid.IntRange(0, 2).Draw(t, "os2_fill")}
	if c.FontPage == 0 {
		sp.Version = rapid.SampledFrom([]int{4, 0, 1, 5, 3}).Draw(t, "os2_version")
		sp.Absent = rapid.IntRange(0, 9).Draw(t, "os2_absent") == 9
	}
	c.OS2 = &sp
	// about one table in ten is evaluated over all 0x110000 code points (draw 0, which shrinking moves
	// towards); the others over the BMP and the neighbourhood of every unit
	c.Exhaustive = rapid.IntRange(0, 23).Draw(t, "reduced_universe") == 0
	return c
}

// TestPropSynthetic: generated cmap tables through ParseCmap + ProcessCmap, laws (a) (b) (c).
func TestPropSynthetic(t *testing.T) {
	rapid.Check(t, func(t *rapid.T) {
		checkSynth(t, genSynth(t))
	})
}
