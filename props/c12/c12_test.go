// Package c12 decides property C12: shaped output geometry is self-consistent.
//
// Cases come from the generator C01 uses (corpus face × text × run × direction/orientation ×
// script × language × size × features), restricted to valid text and in-range run bounds, extended
// with word/letter spacing amounts and run-position flags. The oracle is the list of identities of
// the property statement; every clause below quotes the sentence or doc comment it is grounded in.
package c12

import (
	"encoding/json"
	"fmt"
	"math"
	"os"
	"path/filepath"
	"sort"
	"testing"
	"unicode"

	"github.com/go-text/typesetting/font"
	"github.com/go-text/typesetting/font/opentype/tables"
	"github.com/go-text/typesetting/shaping"
	"golang.org/x/image/math/fixed"
	"pgregory.net/rapid"

	"verif/internal/ev"
	sc "verif/internal/shapecase"
)

func TestMain(m *testing.M) { ev.Main(m) }

const checkName = "geometry"

// a C01 finding (time/size blow-up); only used to keep C12 campaigns from spending minutes per case
const findingC01MorxLengthBudget = "C01-morx-insertion-length-budget"

// Tolerances (stated, due to the integer pipeline):
const (
	// LineBounds and nominal advances: the library rounds font units × scale / upem once (float32);
	// 2/64 px absolute plus the float32 relative error of that product.
	scaleTol = 2
	// overflow watch: advances at 4096 px vs 2 × advances at 2048 px may differ by accumulated
	// roundings (labelled); only a discrepancy above 1 px (64 units) is a violation.
	overflowTol = 64
	// values whose expected magnitude does not fit comfortably in a 26.6 int32 are not compared
	representable = 1 << 29
)

func abs64(v int64) int64 {
	if v < 0 {
		return -v
	}
	return v
}

// mainAdv / crossAdv select the advance along / across the axis of the run.
func mainAdv(vertical bool, g *shaping.Glyph) fixed.Int26_6 {
	if vertical {
		return g.YAdvance
	}
	return g.XAdvance
}

func crossAdv(vertical bool, g *shaping.Glyph) fixed.Int26_6 {
	if vertical {
		return g.XAdvance
	}
	return g.YAdvance
}

// crossBox is the extent of the ink box of g across the axis, as the library defines it
// (output.go RecalculateAll): horizontal runs [YOffset+YBearing+Height, YOffset+YBearing],
// vertical runs [XOffset+XBearing, XOffset+XBearing+Width].
func crossBox(vertical bool, g *shaping.Glyph) (a, b fixed.Int26_6) {
	if vertical {
		a = g.XOffset + g.XBearing
		return a, a + g.Width
	}
	b = g.YOffset + g.YBearing
	return b + g.Height, b
}

// identities checks the clauses of the first sentence of the statement on o:
// "The run advance equals the sum of glyph advances along the run's axis and every glyph's
// cross-axis advance is zero; glyph bounds enclose the baseline and every glyph's ink box".
func identities(o *shaping.Output, stage string) error {
	vertical := o.Direction.IsVertical()
	var sum fixed.Int26_6
	for i := range o.Glyphs {
		g := &o.Glyphs[i]
		sum += mainAdv(vertical, g)
		if c := crossAdv(vertical, g); c != 0 {
			return fmt.Errorf("%s: glyph %d has cross-axis advance %d (vertical=%v)", stage, i, c, vertical)
		}
	}
	if o.Advance != sum {
		return fmt.Errorf("%s: Advance %d != sum of glyph advances %d", stage, o.Advance, sum)
	}
	gb := o.GlyphBounds
	if !(gb.Ascent >= 0 && gb.Descent <= 0) {
		return fmt.Errorf("%s: GlyphBounds %+v do not enclose the baseline", stage, gb)
	}
	if gb.Gap != 0 {
		return fmt.Errorf("%s: GlyphBounds.Gap = %d, documented as always zero", stage, gb.Gap)
	}
	for i := range o.Glyphs {
		a, b := crossBox(vertical, &o.Glyphs[i])
		lo, hi := a, b
		if lo > hi {
			lo, hi = hi, lo
		}
		if lo < gb.Descent || hi > gb.Ascent {
			return fmt.Errorf("%s: glyph %d ink box [%d,%d] across the axis is outside GlyphBounds [%d,%d]", stage, i, lo, hi, gb.Descent, gb.Ascent)
		}
	}
	return nil
}

// scaled is font units × ceil(size)·64 / upem, the scale shaping.Shape gives the harfbuzz font.
func scaled(v float32, c *sc.Case, upem uint16) float64 {
	return float64(v) * float64(c.Scale()) / float64(upem)
}

func near(got fixed.Int26_6, want float64) bool {
	tol := scaleTol + math.Abs(want)/(1<<22)
	return math.Abs(float64(got)-want) <= tol
}

// lineBounds: "line bounds are the font's extents under the same scale as the glyph advances".
// Compared only when the face has extents for the axis (the synthesized fallback is not claimed).
func lineBounds(c *sc.Case, face *font.Face, o *shaping.Output) (checked bool, err error) {
	var (
		ext font.FontExtents
		ok  bool
	)
	if o.Direction.IsVertical() {
		ext, ok = face.FontVExtents()
	} else {
		ext, ok = face.FontHExtents()
	}
	if !ok {
		return false, nil
	}
	upem := face.Upem()
	if upem == 0 {
		return false, nil
	}
	for _, p := range []struct {
		name string
		got  fixed.Int26_6
		fu   float32
	}{{"Ascent", o.LineBounds.Ascent, ext.Ascender}, {"Descent", o.LineBounds.Descent, ext.Descender}, {"Gap", o.LineBounds.Gap, ext.LineGap}} {
		want := scaled(p.fu, c, upem)
		if math.Abs(want) >= representable {
			return false, nil
		}
		if !near(p.got, want) {
			return true, fmt.Errorf("LineBounds.%s = %d, face extent %v font units at scale %d/%d gives %.2f", p.name, p.got, p.fu, c.Scale(), upem, want)
		}
	}
	return true, nil
}

// nominalAdvances: the other half of "the same scale as the glyph advances". Where nothing but the
// font's advance table determines an advance (face without GPOS/kern/kerx/morx/trak; horizontal or
// sideways run; 1:1 cluster of a letter or digit whose glyph has extents and is not a GDEF mark), the glyph advance must be
// the face's horizontal advance under that same scale.
func nominalAdvances(c *sc.Case, face *font.Face, info *sc.FaceInfo, o *shaping.Output) (checked int, err error) {
	tr := info.Traits
	ft := face.Font
	if tr.GPOS || tr.Kern || tr.Kerx || tr.Morx || !ft.Trak.IsEmpty() || len(ft.GPOS.Lookups) != 0 || len(ft.Kern) != 0 || len(ft.Kerx) != 0 || len(ft.Morx) != 0 {
		return 0, nil
	}
	vertical := o.Direction.IsVertical()
	if vertical && !o.Direction.IsSideways() {
		return 0, nil
	}
	upem := face.Upem()
	if upem == 0 {
		return 0, nil
	}
	for i := range o.Glyphs {
		g := &o.Glyphs[i]
		if g.RuneCount != 1 || g.GlyphCount != 1 || g.ClusterIndex < 0 || g.ClusterIndex >= len(c.Text) {
			continue
		}
		r := c.Text[g.ClusterIndex]
		if !(unicode.IsLetter(r) || unicode.IsDigit(r)) || unicode.IsMark(r) || r > 0xFFFF && !unicode.IsLetter(r) {
			continue
		}
		if _, ok := face.GlyphExtents(g.GlyphID); !ok {
			continue // shaping.Shape documents that such a glyph is left with zero size
		}
		if cd := face.Font.GDEF.GlyphClassDef; cd != nil {
			if cl, _ := cd.Class(tables.GlyphID(g.GlyphID)); cl == 3 {
				continue // GDEF says mark: its advance is zeroed whatever the rune is
			}
		}
		want := scaled(face.HorizontalAdvance(g.GlyphID), c, upem)
		if math.Abs(want) >= representable {
			continue
		}
		got := g.XAdvance
		if vertical {
			got = -g.YAdvance
		}
		checked++
		if !near(got, want) {
			return checked, fmt.Errorf("glyph %d (gid %d, U+%04X): advance %d, face advance %v font units at scale %d/%d gives %.2f",
				i, g.GlyphID, r, got, face.HorizontalAdvance(g.GlyphID), c.Scale(), upem, want)
		}
	}
	return checked, nil
}

// rotation: "Shaping a sideways vertical run equals rotating the horizontal shaping of the same
// text by 90 degrees". The harness rotates the ink boxes of the horizontal result itself
// ((x, y) → (y, −x), clockwise with y up) and compares positions and advances; the split of a
// position into bearing and offset is not compared.
func rotation(c *sc.Case, face *font.Face, side *shaping.Output) error {
	h := *c
	h.Dir = c.Dir - 2 // TTB → LTR, BTT → RTL: same progression on the horizontal axis
	h.Orient = 0
	hor, p := sc.RunShaping(&h, face)
	if p != nil {
		return nil // totality is C01's business
	}
	if len(hor.Glyphs) != len(side.Glyphs) {
		return fmt.Errorf("sideways: %d glyphs, horizontal shaping of the same text: %d", len(side.Glyphs), len(hor.Glyphs))
	}
	var penH, penV fixed.Int26_6
	for i := range hor.Glyphs {
		a, b := &hor.Glyphs[i], &side.Glyphs[i]
		if a.GlyphID != b.GlyphID || a.ClusterIndex != b.ClusterIndex {
			return fmt.Errorf("sideways glyph %d: gid/cluster %d/%d, horizontal %d/%d", i, b.GlyphID, b.ClusterIndex, a.GlyphID, a.ClusterIndex)
		}
		if b.YAdvance != -a.XAdvance || b.XAdvance != 0 {
			return fmt.Errorf("sideways glyph %d: advance (%d,%d), horizontal XAdvance %d", i, b.XAdvance, b.YAdvance, a.XAdvance)
		}
		// horizontal ink box
		x0 := penH + a.XOffset + a.XBearing
		x1 := x0 + a.Width
		yTop := a.YOffset + a.YBearing
		yBot := yTop + a.Height
		// sideways ink box
		sx0 := b.XOffset + b.XBearing
		sx1 := sx0 + b.Width
		syTop := penV + b.YOffset + b.YBearing
		syBot := syTop + b.Height
		if sx0 != yBot || sx1 != yTop || syTop != -x0 || syBot != -x1 {
			return fmt.Errorf("sideways glyph %d: ink box x[%d,%d] y[%d,%d], rotated horizontal box x[%d,%d] y[%d,%d]", i, sx0, sx1, syBot, syTop, yBot, yTop, -x1, -x0)
		}
		penH += a.XAdvance
		penV += b.YAdvance
	}
	if side.Advance != -hor.Advance {
		return fmt.Errorf("sideways Advance %d, horizontal Advance %d", side.Advance, hor.Advance)
	}
	return nil
}

// overflowWatch: advances at 4096 px ≈ 2 × advances at 2048 px.
func overflowWatch(c *sc.Case, face *font.Face, big *shaping.Output) (worst int64, checked bool, err error) {
	h := *c
	h.Size = 2048 * 64
	half, p := sc.RunShaping(&h, face)
	if p != nil || len(half.Glyphs) != len(big.Glyphs) {
		return 0, false, nil
	}
	vertical := big.Direction.IsVertical()
	for i := range big.Glyphs {
		if big.Glyphs[i].GlyphID != half.Glyphs[i].GlyphID {
			return 0, false, nil
		}
	}
	for i := range big.Glyphs {
		a := int64(mainAdv(vertical, &big.Glyphs[i]))
		b := 2 * int64(mainAdv(vertical, &half.Glyphs[i]))
		if abs64(b) >= representable {
			continue
		}
		d := abs64(a - b)
		if d > worst {
			worst = d
		}
		if d > overflowTol {
			return worst, true, fmt.Errorf("glyph %d (gid %d): advance %d at 4096 px, %d at 2048 px (2× = %d): discrepancy %d/64 px", i, big.Glyphs[i].GlyphID, a, b/2, b, d)
		}
	}
	return worst, true, nil
}

func isWordSeparator(r rune) bool {
	for _, s := range sc.WordSeparators {
		if r == s {
			return true
		}
	}
	return false
}

// sameExceptMain tells whether b equals a in everything but the advance and offset along the axis.
func sameExceptMain(vertical bool, a, b shaping.Glyph) bool {
	if vertical {
		a.YAdvance, a.YOffset = b.YAdvance, b.YOffset
	} else {
		a.XAdvance, a.XOffset = b.XAdvance, b.XOffset
	}
	// the unexported letter-spacing bookkeeping differs by design; compare the exported fields
	return a.Width == b.Width && a.Height == b.Height && a.XBearing == b.XBearing && a.YBearing == b.YBearing &&
		a.XAdvance == b.XAdvance && a.YAdvance == b.YAdvance && a.XOffset == b.XOffset && a.YOffset == b.YOffset &&
		a.ClusterIndex == b.ClusterIndex && a.RuneCount == b.RuneCount && a.GlyphCount == b.GlyphCount && a.GlyphID == b.GlyphID && a.Mask == b.Mask
}

type spacingStats struct {
	wordEligible, wordAmbiguous, clusters int
}

// wordSpacing: AddWordSpacing "alters the run, adding [additionalSpacing] on each word separator
// ... space is always added, even on boundaries"; the statement: "changes advances by exactly the
// requested amounts at exactly the eligible positions". Eligible = a cluster of exactly one rune and
// one glyph whose rune is one of the documented separators. Clusters that merge a separator with
// other runes or glyphs are ambiguous in the doc comment (the implementation skips them) and are not
// judged. The offset along the axis of an eligible glyph is not constrained (not documented).
func wordSpacing(c *sc.Case, before []shaping.Glyph, o *shaping.Output, ws fixed.Int26_6, st *spacingStats) error {
	vertical := o.Direction.IsVertical()
	if len(before) != len(o.Glyphs) {
		return fmt.Errorf("AddWordSpacing changed the number of glyphs from %d to %d", len(before), len(o.Glyphs))
	}
	for i := range before {
		b, a := before[i], o.Glyphs[i]
		oneToOne := b.RuneCount == 1 && b.GlyphCount == 1
		hasSep := false
		for k := b.ClusterIndex; k < b.ClusterIndex+b.RuneCount && k >= 0 && k < len(c.Text); k++ {
			if isWordSeparator(c.Text[k]) {
				hasSep = true
			}
		}
		switch {
		case oneToOne && hasSep:
			st.wordEligible++
			if d := mainAdv(vertical, &a) - mainAdv(vertical, &b); d != ws {
				return fmt.Errorf("AddWordSpacing(%d): separator glyph %d (cluster %d) advance changed by %d", ws, i, b.ClusterIndex, d)
			}
			if !sameExceptMain(vertical, b, a) {
				return fmt.Errorf("AddWordSpacing(%d): separator glyph %d changed in more than its advance/offset along the axis: %+v -> %+v", ws, i, b, a)
			}
		case hasSep:
			st.wordAmbiguous++
			if !sameExceptMain(vertical, b, a) {
				return fmt.Errorf("AddWordSpacing(%d): glyph %d changed across the axis: %+v -> %+v", ws, i, b, a)
			}
		default:
			if a != b {
				return fmt.Errorf("AddWordSpacing(%d): glyph %d (cluster %d, no separator) changed: %+v -> %+v", ws, i, b.ClusterIndex, b, a)
			}
		}
	}
	return nil
}

// letterSpacing: AddLetterSpacing "alters the run, adding [additionalSpacing] between each Harfbuzz
// clusters. Space is added at the boundaries if and only if there is an adjacent run, as specified by
// [isStartRun] and [isEndRun]"; Glyph documents that each side receives "half of the user provided
// letter spacing". Per cluster the advance therefore grows by one half per eligible side; for odd
// amounts either integer half is accepted on each side.
func letterSpacing(before []shaping.Glyph, o *shaping.Output, ls fixed.Int26_6, startRun, endRun bool, st *spacingStats) error {
	vertical := o.Direction.IsVertical()
	if len(before) != len(o.Glyphs) {
		return fmt.Errorf("AddLetterSpacing changed the number of glyphs from %d to %d", len(before), len(o.Glyphs))
	}
	h1 := ls / 2
	h2 := ls - h1
	n := len(before)
	for i := 0; i < n; {
		j := i + 1
		for j < n && before[j].ClusterIndex == before[i].ClusterIndex {
			j++
		}
		st.clusters++
		var delta fixed.Int26_6
		for k := i; k < j; k++ {
			delta += mainAdv(vertical, &o.Glyphs[k]) - mainAdv(vertical, &before[k])
			if !sameExceptMain(vertical, before[k], o.Glyphs[k]) {
				return fmt.Errorf("AddLetterSpacing(%d): glyph %d changed in more than its advance/offset along the axis: %+v -> %+v", ls, k, before[k], o.Glyphs[k])
			}
		}
		startSide := !(i == 0 && startRun)
		endSide := !(j == n && endRun)
		ok := false
		for _, hs := range []fixed.Int26_6{h1, h2} {
			for _, he := range []fixed.Int26_6{h1, h2} {
				want := fixed.Int26_6(0)
				if startSide {
					want += hs
				}
				if endSide {
					want += he
				}
				if delta == want {
					ok = true
				}
			}
		}
		if !ok {
			return fmt.Errorf("AddLetterSpacing(%d, start=%v, end=%v): cluster at glyphs [%d,%d) of %d advanced by %d (start side eligible=%v, end side eligible=%v, half=%d)",
				ls, startRun, endRun, i, j, n, delta, startSide, endSide, h1)
		}
		i = j
	}
	return nil
}

func faceInfo(c *sc.Case) *sc.FaceInfo {
	p := sc.ThePool()
	for i := range p.All {
		if p.All[i].File == c.Font && p.All[i].Index == c.Index {
			return &p.Info[i]
		}
	}
	return &sc.FaceInfo{}
}

// checkCase is the property.
func checkCase(t ev.TB, c sc.Case) {
	face, err := c.Face()
	if err != nil {
		t.Fatalf("case names a face the corpus cannot load: %v", err)
	}
	if !c.InRange() || c.API != sc.APIShaping {
		t.Fatalf("invalid C12 case: needs in-range bounds and the shaping API")
	}
	fail := func(err error) { ev.Fail(t, checkName, c, "%v", err) }
	info := faceInfo(&c)
	if ev.Known(findingC01MorxLengthBudget) && info.Traits.Morx && c.RunEnd-c.RunStart > 64 {
		// listed C01 finding: morx insertion beyond the length budget costs minutes per case;
		// while it is open that value class is counted, not executed (DESIGN §1.5 (3))
		ev.Excluded(findingC01MorxLengthBudget)
		ev.Case(false, c, "excluded:"+findingC01MorxLengthBudget+"(not executed)")
		return
	}
	out, p := sc.RunShaping(&c, face)
	if p != nil {
		// a panic is a C01 violation, not a geometry one; the case is counted and skipped
		ev.Case(false, c, "skipped:panic-is-C01")
		return
	}
	labels := []string{"dir:" + []string{"ltr", "rtl", "ttb", "btt"}[c.Dir&3]}
	if err := identities(&out, "after Shape"); err != nil {
		fail(err)
	}
	if checked, err := lineBounds(&c, face, &out); err != nil {
		fail(err)
	} else if checked {
		labels = append(labels, "linebounds:compared")
	} else {
		labels = append(labels, "linebounds:no-face-extents")
	}
	// The same clauses on a shaper that has been used before with its font cache enabled: the text
	// is first shaped on the other axis (same face, same size), then as the case asks.
	{
		var used shaping.Output
		prev := c
		prev.Dir ^= 2
		if prev.Dir&2 == 0 {
			prev.Orient = 0
		}
		if p := sc.Guard(func() {
			var sh shaping.HarfbuzzShaper
			sh.SetFontCacheSize(2)
			sh.Shape(prev.Input(face))
			used = sh.Shape(c.Input(face))
		}); p == nil {
			if err := identities(&used, "after Shape on a used shaper"); err != nil {
				fail(err)
			}
			if _, err := lineBounds(&c, face, &used); err != nil {
				fail(fmt.Errorf("on a shaper used before for the other axis: %v", err))
			}
			labels = append(labels, "used-shaper:compared")
		}
	}
	if n, err := nominalAdvances(&c, face, info, &out); err != nil {
		fail(err)
	} else if n > 0 {
		labels = append(labels, "nominal-advance:compared")
	}
	if c.Orient == 2 {
		labels = append(labels, "sideways")
		if err := rotation(&c, face, &out); err != nil {
			fail(err)
		}
	}
	if c.Size == 4096*64 {
		worst, checked, err := overflowWatch(&c, face, &out)
		if err != nil {
			fail(err)
		}
		if checked {
			labels = append(labels, "overflow-watch:compared")
			if worst > 2 {
				labels = append(labels, "overflow-watch:rounding>2/64")
			}
		}
	}
	// spacing on a copy of the glyphs (Shape's result is ours, but keep `before` intact)
	var st spacingStats
	ws, ls := fixed.Int26_6(c.WordSpacing), fixed.Int26_6(c.LetterSpacing)
	before := append([]shaping.Glyph(nil), out.Glyphs...)
	adv0 := out.Advance
	out.AddWordSpacing(c.Text, ws)
	if err := wordSpacing(&c, before, &out, ws, &st); err != nil {
		fail(err)
	}
	if want := adv0 + ws*fixed.Int26_6(st.wordEligible); out.Advance != want {
		fail(fmt.Errorf("AddWordSpacing(%d): Advance %d -> %d with %d separators (want %d)", ws, adv0, out.Advance, st.wordEligible, want))
	}
	if err := identities(&out, "after AddWordSpacing"); err != nil {
		fail(err)
	}
	before = append(before[:0], out.Glyphs...)
	out.AddLetterSpacing(ls, c.StartRun, c.EndRun)
	if err := letterSpacing(before, &out, ls, c.StartRun, c.EndRun, &st); err != nil {
		fail(err)
	}
	if err := identities(&out, "after AddLetterSpacing"); err != nil {
		fail(err)
	}
	adv1 := out.Advance
	out.RecalculateAll()
	if err := identities(&out, "after RecalculateAll"); err != nil {
		fail(err)
	}
	if out.Advance != adv1 {
		fail(fmt.Errorf("RecalculateAll changed Advance from %d to %d", adv1, out.Advance))
	}

	// classification
	offsets, nonOneToOne := false, false
	for i := range before {
		g := &before[i]
		if g.XOffset != 0 || g.YOffset != 0 {
			offsets = true
		}
		if g.RuneCount != 1 || g.GlyphCount != 1 {
			nonOneToOne = true
		}
	}
	nontrivial := len(before) >= 2 && (offsets || nonOneToOne) || len(before) > 0 && (ws != 0 || ls != 0) || c.Orient == 2 && len(before) > 0
	switch {
	case c.Size == 64:
		labels = append(labels, "size:1px")
	case c.Size == 4096*64:
		labels = append(labels, "size:4096px")
	case c.Size%64 != 0:
		labels = append(labels, "size:fractional")
	default:
		labels = append(labels, "size:other-integer")
	}
	sign := func(name string, v fixed.Int26_6) {
		switch {
		case v == 0:
			labels = append(labels, name+":0")
		case v%2 != 0 && v > 0:
			labels = append(labels, name+":+odd")
		case v%2 != 0:
			labels = append(labels, name+":-odd")
		case v > 0:
			labels = append(labels, name+":+even")
		default:
			labels = append(labels, name+":-even")
		}
	}
	sign("word-spacing", ws)
	sign("letter-spacing", ls)
	labels = append(labels, fmt.Sprintf("run-flags:start=%v,end=%v", c.StartRun, c.EndRun))
	if len(before) == 0 {
		labels = append(labels, "result:no-glyphs")
	}
	if c.RunEnd-c.RunStart > 64 {
		labels = append(labels, "run:long(>64)")
	}
	if len(c.Vars) > 0 || len(c.Coords) > 0 {
		labels = append(labels, "instance:variations")
	}
	if c.XPpem != 0 || c.YPpem != 0 {
		labels = append(labels, "instance:ppem")
	}
	if c.Synth != nil {
		labels = append(labels, "font:synth:"+c.Synth.Kind)
	}
	if c.Dir >= 2 && c.Orient != 2 {
		for _, f := range c.Features {
			if f.Value != 0 && (f.Name == "kern" || f.Name == "vkrn" || f.Name == "vpal" || f.Name == "palt") {
				labels = append(labels, "vertical:explicit-positioning-feature")
				break
			}
		}
	}
	if st.wordEligible > 0 {
		labels = append(labels, "word-separator:eligible")
	}
	if st.wordAmbiguous > 0 {
		labels = append(labels, "word-separator:in-merged-cluster(not judged)")
	}
	if st.clusters >= 2 {
		labels = append(labels, "clusters>=2")
	}
	if offsets {
		labels = append(labels, "result:offsets")
	}
	if nonOneToOne {
		labels = append(labels, "result:non-1:1-cluster")
	}
	if nontrivial {
		labels = append(labels, "nontrivial")
	}
	ev.Case(nontrivial, c, labels...)
	if ev.WantSample() {
		ev.Sample(map[string]any{"case": c, "glyphs": len(before), "advance": int(adv0), "advance_after_spacing": int(adv1)})
	}
}

var genOpts = sc.Opts{ValidOnly: true, Spacing: true, LongMax: 300}

// TestPropGeometry: stratified font draw per case.
func TestPropGeometry(t *testing.T) {
	sc.ThePool()
	o := genOpts
	o.MaxLen = ev.Scale(48, 256)
	rapid.Check(t, func(t *rapid.T) {
		checkCase(t, sc.Draw(t, -1, o))
	})
}

// TestPropGeometrySynth: generated fonts with positioning tables (internal/synthfont kinds gpos-rules —
// every value-record field with hinting Device tables of the three formats, cursive and mark
// attachment — and pair-classes), with pixels per em in the device range, all directions and
// orientations, explicit positioning features.
func TestPropGeometrySynth(t *testing.T) {
	o := genOpts
	o.SynthPositioning = true
	rapid.Check(t, func(t *rapid.T) {
		checkCase(t, sc.DrawSynth(t, o))
	})
}

// TestPropGeometryAllFaces: thorough tier — every loadable face in turn.
func TestPropGeometryAllFaces(t *testing.T) {
	p := sc.ThePool()
	shard, n := ev.Shard()
	o := genOpts
	o.MaxLen = ev.Scale(48, 256)
	for i := range p.All {
		if i%n != shard {
			continue
		}
		i := i
		t.Run(fmt.Sprintf("face%d", i), func(t *testing.T) {
			rapid.Check(t, func(t *rapid.T) {
				checkCase(t, sc.Draw(t, i, o))
			})
		})
		ev.Label("faces-iterated")
	}
}

// TestReplay re-runs saved cases without rapid.
func TestReplay(t *testing.T) {
	var files []string
	if p := ev.ReplayPath(); p != "" {
		files = []string{p}
	} else if d := os.Getenv("VERIF_REPLAY_DIR"); d != "" {
		files, _ = filepath.Glob(filepath.Join(d, "*.json"))
		sort.Strings(files)
	}
	for _, fp := range files {
		check, raw, err := ev.LoadReplay(fp)
		if err != nil {
			t.Fatalf("cannot load replay %s: %v", fp, err)
		}
		switch check {
		case checkName:
			var c sc.Case
			if err := json.Unmarshal(raw, &c); err != nil {
				t.Fatalf("cannot decode case of %s: %v", fp, err)
			}
			if c.Text == nil {
				c.Text = []rune{}
			}
			checkCase(t, c)
		default:
			t.Fatalf("replay %s: unknown check %q", fp, check)
		}
	}
}
