package c13

import (
	"encoding/json"
	"fmt"
	"testing"

	"github.com/go-text/typesetting/font"
	"github.com/go-text/typesetting/harfbuzz"
	"github.com/go-text/typesetting/language"
	"pgregory.net/rapid"

	"verif/internal/ev"
)

// ---------------------------------------------------------------------------------------------
// harfbuzz.Buffer state machine
//
// Objects: ONE buffer reused with Clear ("resets b to its initial empty state (including user
// settings)"), several faces and their harfbuzz.Font. Coordinates change between uses either with
// harfbuzz.Font.SetVarCoordsDesign (the setter the font offers) or with the face setters followed
// by a NEW harfbuzz.NewFont(face) (NewFont documents that the face should not be modified after the
// call, so the machine never keeps a Font across a direct face modification).
// Oracle: glyphs, clusters, masks and positions (exported fields) and the resolved Props equal
// those of harfbuzz.NewBuffer() + harfbuzz.NewFont(fresh face with the same settings) given the
// same calls.

type hbFeat struct {
	Tag   string `json:"tag"`
	Value uint32 `json:"value"`
	Start int    `json:"start"`
	End   int    `json:"end"` // -1: FeatureGlobalEnd
}

type bufOp struct {
	// shape | set_design | set_variations | set_coords | set_ppem | new_font |
	// burst_shape: Count times Clear+AddRunes+Shape of the given (tiny) input in one step, alternating
	//   between the fonts of Slot2 and Slot and ending with Slot, results not compared |
	// burst_design: Count Font.SetVarCoordsDesign calls on Slot alternating between AltDesign and Design
	Kind string `json:"kind"`
	Slot int    `json:"slot"`
	// bursts
	Count     int       `json:"count,omitempty"`
	Slot2     int       `json:"slot2,omitempty"`
	AltDesign []float32 `json:"alt_design,omitempty"`
	// shape
	Text         []rune   `json:"text,omitempty"`
	Offset       int      `json:"offset,omitempty"`
	Length       int      `json:"length,omitempty"`
	Split        int      `json:"split,omitempty"` // >0: two AddRunes calls, the first with this many runes
	Dir          uint8    `json:"dir,omitempty"`   // harfbuzz.Direction; 0 with Guess
	Script       string   `json:"script,omitempty"`
	Lang         string   `json:"lang,omitempty"`
	Guess        bool     `json:"guess,omitempty"` // call GuessSegmentProperties after setting the given props
	Flags        uint16   `json:"flags,omitempty"`
	ClusterLevel uint8    `json:"cluster_level,omitempty"`
	NotFound     uint32   `json:"not_found,omitempty"`
	Invisible    uint32   `json:"invisible,omitempty"`
	Features     []hbFeat `json:"features,omitempty"`
	XScale       int32    `json:"x_scale,omitempty"` // 0: the face's upem (the default of NewFont)
	YScale       int32    `json:"y_scale,omitempty"`
	Ptem         float32  `json:"ptem,omitempty"`
	cfgOp
}

type bufCase struct {
	Faces []faceDef `json:"faces"`
	Ops   []bufOp   `json:"ops"`
}

type bufMachine struct {
	t     ev.TB
	c     *bufCase
	pfs   []*poolFont
	faces []*font.Face
	cfgs  []faceCfg
	fonts []*harfbuzz.Font
	used  *harfbuzz.Buffer

	lastCfg   map[int]string // slot -> cfg at its last shape
	lastPlan  map[int]string // slot -> props+features at its last shape
	lastSlot  int
	lastFeats map[int][]hbFeat
	flags     map[string]bool
	shapes    int
}

func newBufMachine(t ev.TB, faces []faceDef) *bufMachine {
	m := &bufMachine{t: t, c: &bufCase{Faces: faces}, used: harfbuzz.NewBuffer(), lastCfg: map[int]string{}, lastPlan: map[int]string{}, lastFeats: map[int][]hbFeat{}, lastSlot: -1, flags: map[string]bool{}}
	for _, fd := range faces {
		pf := mustFont(t, fd.Font)
		m.pfs = append(m.pfs, pf)
		f := font.NewFace(pf.Font)
		fd.Cfg.apply(f)
		m.faces = append(m.faces, f)
		m.cfgs = append(m.cfgs, fd.Cfg)
		m.fonts = append(m.fonts, harfbuzz.NewFont(f))
	}
	return m
}

func (m *bufMachine) fail(format string, args ...any) {
	m.t.Helper()
	ev.Fail(m.t, "buffer", m.c, "step %d: "+format, append([]any{len(m.c.Ops) - 1}, args...)...)
}

func (m *bufMachine) apply(op bufOp) {
	m.c.Ops = append(m.c.Ops, op)
	ev.Journal("buffer", m.c) // names the culprit if the process hangs or dies in this step
	if op.Slot < 0 || op.Slot >= len(m.faces) {
		m.t.Fatalf("infrastructure: bad slot %d in replayed case", op.Slot)
	}
	s := op.Slot
	switch op.Kind {
	case "shape":
		m.shape(op)
	case "set_design":
		if len(op.Design) != len(m.pfs[s].Axes) {
			m.t.Fatalf("infrastructure: design coords of the wrong length in replayed case")
		}
		c := &m.cfgs[s]
		c.Mode, c.Vars, c.Coords, c.Design = "design", nil, nil, op.Design
		m.fonts[s].SetVarCoordsDesign(append([]float32(nil), op.Design...))
	case "burst_design":
		if len(op.Design) != len(m.pfs[s].Axes) || len(op.AltDesign) != len(m.pfs[s].Axes) || op.Count < 1 {
			m.t.Fatalf("infrastructure: incomplete burst in replayed case")
		}
		for i := 1; i <= op.Count; i++ {
			if (op.Count-i)%2 == 0 {
				m.fonts[s].SetVarCoordsDesign(append([]float32(nil), op.Design...))
			} else {
				m.fonts[s].SetVarCoordsDesign(append([]float32(nil), op.AltDesign...))
			}
		}
		c := &m.cfgs[s]
		c.Mode, c.Vars, c.Coords, c.Design = "design", nil, nil, op.Design
		m.flags[burstLabel(op.Count)] = true
	case "burst_shape":
		if op.Slot2 < 0 || op.Slot2 >= len(m.faces) || op.Count < 1 {
			m.t.Fatalf("infrastructure: incomplete burst in replayed case")
		}
		m.burstShape(op)
	case "set_variations", "set_coords", "set_ppem":
		applyCfgOp(op.Kind, op.cfgOp, m.faces[s], &m.cfgs[s])
		m.fonts[s] = harfbuzz.NewFont(m.faces[s]) // the face was modified: a Font made before must not be kept
	case "new_font":
		m.fonts[s] = harfbuzz.NewFont(m.faces[s])
	default:
		m.t.Fatalf("infrastructure: unknown op %q", op.Kind)
	}
}

// glyphOut is the exported result of shaping one glyph.
type glyphOut struct {
	Glyph                              uint32
	Cluster                            int
	Mask                               uint32
	XAdvance, YAdvance, XOffset, YOffset int32
}

type bufResult struct {
	Glyphs []glyphOut
	Props  harfbuzz.SegmentProperties
}

// run performs the calls of one shape op on b (already cleared or new).
func (op bufOp) run(b *harfbuzz.Buffer, f *harfbuzz.Font, upem int32) bufResult {
	if op.Flags != 0 {
		b.Flags = harfbuzz.ShappingOptions(op.Flags)
	}
	if op.ClusterLevel != 0 {
		b.ClusterLevel = harfbuzz.ClusterLevel(op.ClusterLevel)
	}
	if op.NotFound != 0 {
		b.NotFound = harfbuzz.GID(op.NotFound)
	}
	if op.Invisible != 0 {
		b.Invisible = harfbuzz.GID(op.Invisible)
	}
	text := copyRunes(op.Text)
	if op.Split > 0 {
		b.AddRunes(text, op.Offset, op.Split)
		b.AddRunes(text, op.Offset+op.Split, op.Length-op.Split)
	} else {
		b.AddRunes(text, op.Offset, op.Length)
	}
	b.Props = harfbuzz.SegmentProperties{Direction: harfbuzz.Direction(op.Dir), Script: parseScript(op.Script), Language: language.Language(op.Lang)}
	if op.Guess {
		b.GuessSegmentProperties()
	}
	f.XScale, f.YScale, f.Ptem = upem, upem, op.Ptem
	if op.XScale != 0 {
		f.XScale = op.XScale
	}
	if op.YScale != 0 {
		f.YScale = op.YScale
	}
	var feats []harfbuzz.Feature
	for _, ft := range op.Features {
		end := ft.End
		if end < 0 {
			end = harfbuzz.FeatureGlobalEnd
		}
		feats = append(feats, harfbuzz.Feature{Tag: mustTag(ft.Tag), Value: ft.Value, Start: ft.Start, End: end})
	}
	b.Shape(f, feats)
	res := bufResult{Props: b.Props}
	if len(b.Info) != len(b.Pos) {
		panic(fmt.Sprintf("len(Info)=%d != len(Pos)=%d", len(b.Info), len(b.Pos)))
	}
	for i, g := range b.Info {
		p := b.Pos[i]
		res.Glyphs = append(res.Glyphs, glyphOut{uint32(g.Glyph), g.Cluster, uint32(g.Mask), p.XAdvance, p.YAdvance, p.XOffset, p.YOffset})
	}
	if !sameRunes(text, op.Text) {
		panic("the input text was modified")
	}
	if op.MutateAfter {
		// the caller reuses its slices after the call returned
		for i := range text {
			text[i] = 0x5A
		}
		for i := range feats {
			feats[i] = harfbuzz.Feature{Tag: mustTag("zzzz"), Value: 7, Start: 1, End: 2}
		}
	}
	return res
}

func (m *bufMachine) shape(op bufOp) {
	s := op.Slot
	pf, cfg := m.pfs[s], m.cfgs[s]
	upem := int32(pf.Font.Upem())
	var got, want bufResult
	pu := try(func() {
		m.used.Clear()
		got = op.run(m.used, m.fonts[s], upem)
	})
	pr := try(func() {
		want = op.run(harfbuzz.NewBuffer(), harfbuzz.NewFont(freshFace(pf, cfg)), upem)
	})
	m.classify(op, cfg)
	if pu != nil || pr != nil {
		if pu != nil && pr != nil {
			m.flags["both_panic_restart"] = true
			m.used = harfbuzz.NewBuffer()
			return
		}
		m.fail("only one side panicked: used buffer: %v; fresh buffer: %v", pu, pr)
	}
	if d := firstDiff(got, want); d != "" {
		// attribute: the used buffer with a fresh font/face, and a fresh buffer with the used font/face
		who := ""
		var viaBuf, viaFont bufResult
		if p := try(func() { m.used.Clear(); viaBuf = op.run(m.used, harfbuzz.NewFont(freshFace(pf, cfg)), upem) }); p == nil && firstDiff(viaBuf, want) != "" {
			who += " the used BUFFER differs even with a fresh font and face;"
		}
		if p := try(func() { viaFont = op.run(harfbuzz.NewBuffer(), m.fonts[s], upem) }); p == nil && firstDiff(viaFont, want) != "" {
			who += " a fresh buffer differs when given the used FONT/FACE;"
		}
		if who == "" {
			who = " neither the used buffer with a fresh font/face nor a fresh buffer with the used font/face differs: the state is keyed by THIS buffer and THIS face together (shape plan cache);"
		}
		m.fail("used buffer differs from a fresh buffer with a fresh font (slot %d %s cfg %s): %s;%s used %v, fresh %v", s, pf.Ref.File, cfg.key(), d, who, summarize(got), summarize(want))
	}
}

// burstShape reuses the buffer Count times in one step (Clear, AddRunes, Shape of a tiny input).
// The calls are not compared with fresh objects; the steps that follow are.
func (m *bufMachine) burstShape(op bufOp) {
	slots := [2]int{op.Slot, op.Slot2}
	done := 0
	p := try(func() {
		for i := 1; i <= op.Count; i++ {
			sl := slots[(op.Count-i)%2]
			m.used.Clear()
			op.run(m.used, m.fonts[sl], int32(m.pfs[sl].Font.Upem()))
			done = i
		}
	})
	m.flags[burstLabel(op.Count)] = true
	if p != nil {
		sl := slots[(op.Count-(done+1))%2]
		if pf := try(func() {
			op.run(harfbuzz.NewBuffer(), harfbuzz.NewFont(freshFace(m.pfs[sl], m.cfgs[sl])), int32(m.pfs[sl].Font.Upem()))
		}); pf != nil {
			m.flags["both_panic_restart"] = true
			m.used = harfbuzz.NewBuffer()
			return
		}
		m.fail("call %d of the burst panicked on the used buffer, a fresh buffer does not panic on this input: %v", done+1, p)
	}
}

func summarize(r bufResult) string {
	s := "["
	for i, g := range r.Glyphs {
		if i == 8 {
			s += " …"
			break
		}
		if i > 0 {
			s += " "
		}
		s += fmt.Sprintf("%d@%d+%d", g.Glyph, g.Cluster, g.XAdvance)
	}
	return s + "]"
}

func (m *bufMachine) classify(op bufOp, cfg faceCfg) {
	m.shapes++
	fb, _ := json.Marshal(op.Features)
	plan := fmt.Sprintf("%d/%s/%s/%v/%s", op.Dir, op.Script, op.Lang, op.Guess, fb)
	if prev, ok := m.lastCfg[op.Slot]; ok {
		if prev != cfg.key() {
			m.flags["revisit_face_with_other_coords"] = true
			if m.lastPlan[op.Slot] == plan {
				m.flags["revisit_face_with_other_coords_same_plan_key"] = true
			}
		}
		if m.lastPlan[op.Slot] != plan {
			m.flags["revisit_face_with_other_props"] = true
		}
	}
	if prev, ok := m.lastFeats[op.Slot]; ok && len(prev) == len(op.Features) && len(prev) > 0 {
		sameTags, otherValue, larger, flip, bounds := true, false, false, false, false
		for i := range prev {
			a, b := prev[i], op.Features[i]
			sameTags = sameTags && a.Tag == b.Tag
			otherValue = otherValue || a.Value != b.Value
			ag, bg := a.Start == 0 && a.End < 0, b.Start == 0 && b.End < 0
			flip = flip || ag != bg
			larger = larger || (!ag && !bg && b.Value > a.Value)
			bounds = bounds || (!ag && !bg && (a.Start != b.Start || a.End != b.End))
		}
		if sameTags && otherValue {
			m.flags["revisit_face_same_feature_tags_other_values"] = true
		}
		if sameTags && larger {
			m.flags["revisit_face_larger_ranged_value"] = true
		}
		if sameTags && flip {
			m.flags["revisit_face_global_ranged_flip"] = true
		}
		if sameTags && bounds {
			m.flags["revisit_face_other_range_bounds"] = true
		}
	}
	m.lastFeats[op.Slot] = op.Features
	if m.lastSlot >= 0 && m.lastSlot != op.Slot {
		m.flags["alternating_fonts"] = true
	}
	m.lastSlot = op.Slot
	m.lastCfg[op.Slot] = cfg.key()
	m.lastPlan[op.Slot] = plan
	if op.Offset > 0 {
		m.flags["pre_context"] = true
	}
	if op.Flags != 0 || op.ClusterLevel != 0 || op.NotFound != 0 || op.Invisible != 0 {
		m.flags["user_settings"] = true
	}
}

func (m *bufMachine) finish() {
	ev.JournalDone()
	nt := len(m.c.Ops) >= 3 && (m.flags["revisit_face_with_other_coords"] || m.flags["revisit_face_with_other_props"]) && m.shapes >= 2
	labels := []string{"buffer:histories"}
	for k := range m.flags {
		labels = append(labels, "buffer:"+k)
	}
	if nt {
		labels = append(labels, "buffer:nontrivial")
	}
	ev.Case(nt, histKey("buffer", m.c), labels...)
	ev.LabelN("buffer:steps", int64(len(m.c.Ops)))
	if nt && ev.WantSample() {
		ev.Sample(map[string]any{"check": "buffer", "case": m.c})
	}
}

// ---- generators

func drawBufShape(t *rapid.T, m *bufMachine) bufOp {
	slot := rapid.IntRange(0, len(m.faces)-1).Draw(t, "slot")
	pf := m.pfs[slot]
	if ps := fontProbes(pf.Ref.File); len(ps) > 0 && rapid.IntRange(0, 9).Draw(t, "probeInput") < 6 {
		// an input known to exercise one of the font's features / lookups / tables
		return classIdx.Probes[rapid.SampledFrom(ps).Draw(t, "probe")].bufOp(slot)
	}
	text := drawText(t, pf, ev.Scale(16, 40))
	op := bufOp{Kind: "shape", Slot: slot, Text: text, Length: len(text)}
	if len(text) > 0 && rapid.IntRange(0, 9).Draw(t, "subRun") < 3 {
		op.Offset = rapid.IntRange(0, len(text)).Draw(t, "offset")
		op.Length = rapid.IntRange(0, len(text)-op.Offset).Draw(t, "length")
	}
	if op.Length >= 2 && rapid.IntRange(0, 9).Draw(t, "split") == 0 {
		op.Split = rapid.IntRange(1, op.Length-1).Draw(t, "splitAt")
	}
	run := text[op.Offset : op.Offset+op.Length]
	if rapid.IntRange(0, 9).Draw(t, "guess") == 0 {
		op.Guess = true // leave some properties unset
		if rapid.IntRange(0, 1).Draw(t, "guessDir") == 0 {
			op.Dir = uint8(harfbuzz.LeftToRight) + uint8(rapid.IntRange(0, 3).Draw(t, "dir"))
		}
		if rapid.IntRange(0, 1).Draw(t, "guessScript") == 0 {
			op.Script = drawScript(t, run)
		}
	} else {
		// di.Direction LTR,RTL,TTB,BTT -> harfbuzz 4..7
		d := drawDirection(t, run) & 3
		op.Dir = []uint8{uint8(harfbuzz.LeftToRight), uint8(harfbuzz.RightToLeft), uint8(harfbuzz.TopToBottom), uint8(harfbuzz.BottomToTop)}[d]
		op.Script = drawScript(t, run)
	}
	op.Lang = rapid.SampledFrom([]string{"", "en", "en", "ar", "tr", "hi", "sr"}).Draw(t, "lang")
	op.MutateAfter = rapid.IntRange(0, 3).Draw(t, "mutateAfter") == 0
	if rapid.IntRange(0, 4).Draw(t, "settings") == 0 {
		op.Flags = uint16(rapid.IntRange(0, 127).Draw(t, "flags"))
		op.ClusterLevel = uint8(rapid.IntRange(0, 2).Draw(t, "clusterLevel"))
		if rapid.IntRange(0, 2).Draw(t, "notFound") == 0 {
			op.NotFound = rapid.SampledFrom(pf.GIDs).Draw(t, "notFoundGlyph")
		}
		if rapid.IntRange(0, 2).Draw(t, "invisible") == 0 {
			op.Invisible = rapid.SampledFrom(pf.GIDs).Draw(t, "invisibleGlyph")
		}
	}
	for i, n := 0, rapid.SampledFrom([]int{0, 0, 0, 1, 1, 2}).Draw(t, "nFeatures"); i < n; i++ {
		f := hbFeat{Tag: drawFeatureTag(t, pf), Value: rapid.SampledFrom(featureValues).Draw(t, "featureValue"), End: -1}
		if len(text) > 0 && rapid.IntRange(0, 3).Draw(t, "ranged") == 0 {
			f.Start = rapid.IntRange(0, len(text)).Draw(t, "featStart")
			f.End = rapid.IntRange(f.Start, len(text)).Draw(t, "featEnd")
		}
		op.Features = append(op.Features, f)
	}
	if rapid.IntRange(0, 2).Draw(t, "scaled") == 0 {
		op.XScale = rapid.SampledFrom([]int32{64, 640, 1024, 2048, 64000, -1000}).Draw(t, "xScale")
		op.YScale = op.XScale
		if rapid.IntRange(0, 4).Draw(t, "aniso") == 0 {
			op.YScale = rapid.SampledFrom([]int32{64, 1000, 2048}).Draw(t, "yScale")
		}
		op.Ptem = rapid.SampledFrom([]float32{0, 0, 9, 12, 72}).Draw(t, "ptem")
	}
	return op
}

func TestPropBuffer(t *testing.T) {
	rapid.Check(t, func(rt *rapid.T) {
		m := newBufMachine(rt, drawFaces(rt))
		actions := map[string]func(*rapid.T){}
		weighted(actions, "shape", 5, func(rt *rapid.T) { m.apply(drawBufShape(rt, m)) })
		weighted(actions, "shape_again", 2, func(rt *rapid.T) {
			// an earlier Shape once more (same props and features, hence the same plan key), on the
			// same face or another face of the same font, possibly after its coordinates changed
			var earlier []bufOp
			for _, o := range m.c.Ops {
				if o.Kind == "shape" {
					earlier = append(earlier, o)
				}
			}
			if len(earlier) == 0 {
				m.apply(drawBufShape(rt, m))
				return
			}
			op := earlier[rapid.IntRange(0, len(earlier)-1).Draw(rt, "earlier")]
			if rapid.IntRange(0, 2).Draw(rt, "sibling") == 0 {
				var sib []int
				for i, pf := range m.pfs {
					if pf == m.pfs[op.Slot] {
						sib = append(sib, i)
					}
				}
				op.Slot = rapid.SampledFrom(sib).Draw(rt, "siblingSlot")
			}
			m.apply(op)
		})
		weighted(actions, "shape_again_other_features", 3, func(rt *rapid.T) {
			// the latest (or an earlier) Shape once more with ONLY its feature list changed: a value,
			// global <-> ranged, the range bounds, one feature more or fewer, the order
			var earlier []bufOp
			for _, o := range m.c.Ops {
				if o.Kind == "shape" {
					earlier = append(earlier, o)
				}
			}
			if len(earlier) == 0 {
				m.apply(drawBufShape(rt, m))
				return
			}
			op := earlier[len(earlier)-1]
			if rapid.IntRange(0, 3).Draw(rt, "notLatest") == 0 {
				op = earlier[rapid.IntRange(0, len(earlier)-1).Draw(rt, "earlier")]
			}
			op.Features = mutateHbFeats(rt, op.Features, m.pfs[op.Slot], len(op.Text))
			m.apply(op)
		})
		weighted(actions, "burst", 1, func(rt *rapid.T) {
			// a Shape, many cheap uses in one step, possibly a coordinates change, the same Shape again
			q := drawBufShape(rt, m)
			m.apply(q)
			if rapid.IntRange(0, 2).Draw(rt, "doBurst") != 0 {
				return
			}
			pf := m.pfs[q.Slot]
			if len(pf.Axes) > 0 && rapid.Bool().Draw(rt, "designBurst") {
				m.apply(bufOp{Kind: "burst_design", Slot: q.Slot, Count: drawBurstN(rt, len(pf.GIDs) < 300), AltDesign: drawDesign(rt, pf), cfgOp: cfgOp{Design: drawDesign(rt, pf)}})
			} else {
				tiny := drawBufShape(rt, m)
				if tiny.Length > 2 {
					tiny.Length = 2
				}
				if tiny.Split >= tiny.Length {
					tiny.Split = 0
				}
				tiny.Kind, tiny.Slot2, tiny.Count = "burst_shape", rapid.IntRange(0, len(m.faces)-1).Draw(rt, "slot2"), drawBurstN(rt, false)
				m.apply(tiny)
				if len(pf.Axes) > 0 && rapid.Bool().Draw(rt, "thenChange") {
					m.apply(bufOp{Kind: "set_design", Slot: q.Slot, cfgOp: cfgOp{Design: drawDesign(rt, pf)}})
				}
			}
			m.apply(q)
		})
		weighted(actions, "set_design", 1, func(rt *rapid.T) {
			slot := rapid.IntRange(0, len(m.faces)-1).Draw(rt, "slot")
			if len(m.pfs[slot].Axes) == 0 {
				m.apply(bufOp{Kind: "new_font", Slot: slot})
				return
			}
			m.apply(bufOp{Kind: "set_design", Slot: slot, cfgOp: cfgOp{Design: drawDesign(rt, m.pfs[slot])}})
		})
		weighted(actions, "reconfigure", 2, func(rt *rapid.T) {
			slot := rapid.IntRange(0, len(m.faces)-1).Draw(rt, "slot")
			switch rapid.IntRange(0, 3).Draw(rt, "which") {
			case 0:
				m.apply(bufOp{Kind: "set_coords", Slot: slot, cfgOp: cfgOp{Coords: drawCoords(rt, m.pfs[slot])}})
			case 1:
				x, y := drawPpem(rt)
				m.apply(bufOp{Kind: "set_ppem", Slot: slot, cfgOp: cfgOp{PpemX: x, PpemY: y}})
			default:
				m.apply(bufOp{Kind: "set_variations", Slot: slot, cfgOp: cfgOp{Vars: drawVars(rt, m.pfs[slot])}})
			}
		})
		rt.Repeat(actions)
		m.finish()
	})
}

// mutateHbFeats changes only the feature list of a call.
func mutateHbFeats(t *rapid.T, in []hbFeat, pf *poolFont, textLen int) []hbFeat {
	out := append([]hbFeat(nil), in...)
	drawRange := func(f *hbFeat) {
		f.Start = rapid.IntRange(0, textLen).Draw(t, "featStart")
		f.End = rapid.IntRange(f.Start, textLen).Draw(t, "featEnd")
		if f.Start == 0 && f.End == 0 && textLen > 0 {
			f.End = 1
		}
	}
	kind := rapid.IntRange(0, 11).Draw(t, "featureMutation")
	switch {
	case len(out) == 0 || kind == 0:
		f := hbFeat{Tag: drawFeatureTag(t, pf), Value: rapid.SampledFrom(featureValues).Draw(t, "featureValue"), End: -1}
		if rapid.Bool().Draw(t, "ranged") {
			drawRange(&f)
		}
		return append(out, f)
	case kind == 1:
		i := rapid.IntRange(0, len(out)-1).Draw(t, "drop")
		return append(out[:i], out[i+1:]...)
	case kind == 2 && len(out) >= 2:
		out[0], out[len(out)-1] = out[len(out)-1], out[0]
		return out
	case kind <= 4: // global <-> ranged
		i := rapid.IntRange(0, len(out)-1).Draw(t, "which")
		if out[i].Start == 0 && out[i].End < 0 {
			drawRange(&out[i])
		} else {
			out[i].Start, out[i].End = 0, -1
		}
		return out
	case kind <= 6: // other bounds (a global feature becomes ranged)
		i := rapid.IntRange(0, len(out)-1).Draw(t, "which")
		drawRange(&out[i])
		return out
	default: // other value
		i := rapid.IntRange(0, len(out)-1).Draw(t, "which")
		out[i].Value = (out[i].Value + uint32(rapid.IntRange(1, 3).Draw(t, "valueShift"))) % 4
		return out
	}
}

func replayBuffer(t *testing.T, raw json.RawMessage) {
	var c bufCase
	if err := json.Unmarshal(raw, &c); err != nil {
		t.Fatalf("infrastructure: %v", err)
	}
	m := newBufMachine(t, c.Faces)
	for _, op := range c.Ops {
		m.apply(op)
	}
}
