package c13

import (
	"bytes"
	"encoding/binary"
	"encoding/json"
	"fmt"
	"os"
	"path/filepath"
	"reflect"
	"sort"
	"strconv"
	"strings"
	"sync"
	"testing"

	"github.com/go-text/typesetting/font"
	ot "github.com/go-text/typesetting/font/opentype"
	"github.com/go-text/typesetting/font/opentype/tables"
	"github.com/go-text/typesetting/harfbuzz"
	"github.com/go-text/typesetting/language"

	"verif/internal/corpus"
	"verif/internal/ev"
	"verif/internal/synthfont"
)

// ---------------------------------------------------------------------------------------------
// Coverage classes
//
// State that only one feature, lookup type or shaper path consumes is invisible to histories whose
// fonts and texts never take that path. The history pool is therefore indexed by CLASS, not by font
// family: every GSUB/GPOS lookup type+format, every feature tag, every script, the AAT/kern tables,
// variable-font behaviours and outline kinds found in the corpus, each with probes = (font, text,
// props, features) for which the class was VERIFIED to act: shaping with the feature enabled
// differs from shaping with it disabled (fresh buffers). Texts come from the upstream expectation
// files shipped with the corpus (texts written to exercise their font) and from the coverage tables
// of the lookups. The index is computed once by TestGenClassIndex and stored in class_index.json;
// TestEnumClasses walks every class in every run and re-verifies at run time that the probe acts.

type probe struct {
	Font      fontRef      `json:"font"`
	Text      []rune       `json:"text"`
	Dir       uint8        `json:"dir"` // harfbuzz.Direction
	Script    string       `json:"script"`
	Lang      string       `json:"lang,omitempty"`
	Features  []hbFeat     `json:"features,omitempty"`
	Vars      []varSetting `json:"vars,omitempty"`
	Ptem      float32      `json:"ptem,omitempty"`
	Effective []string     `json:"effective,omitempty"` // feature tags whose on/off changes the result of this input
	Classes   []string     `json:"classes"`
}

type classIndexFile struct {
	Comment string              `json:"comment"`
	Classes map[string][]int    `json:"classes"` // class -> indices into Probes
	Probes  []probe             `json:"probes"`
	Absent  []string            `json:"absent,omitempty"` // lookup classes no corpus font exercises
	Stats   map[string]int      `json:"stats,omitempty"`
}

const classIndexName = "class_index.json"

var (
	classOnce  sync.Once
	classIdx   *classIndexFile
	classNames []string
	classErr   error
)

// synthProbes are probes on generated fonts (internal/synthfont) for paths the corpus exercises
// with one font only or not at all: random alternates ('rand'), alternates with values > 1, class
// kerning with many classes.
func synthProbes() []probe {
	alt := func(feature string, n int) synthfont.Spec {
		return synthfont.Spec{Kind: synthfont.KindSingleAlternate, N: 1, Factor: 2, Alt: n, Feature: feature}
	}
	ab := []rune("abababababab")
	return []probe{
		{Font: synthRef(alt("rand", 16)), Text: ab, Dir: uint8(harfbuzz.LeftToRight), Script: "Latn", Effective: []string{"rand"}, Classes: []string{"feat:rand", "gsub:AlternateSubs", "synth:rand-alternates"}},
		{Font: synthRef(alt("rand", 3)), Text: []rune("abba baab"), Dir: uint8(harfbuzz.LeftToRight), Script: "Latn", Effective: []string{"rand"}, Classes: []string{"feat:rand", "gsub:AlternateSubs", "synth:rand-alternates"}},
		{Font: synthRef(alt("salt", 16)), Text: ab[:6], Dir: uint8(harfbuzz.LeftToRight), Script: "Latn", Features: []hbFeat{{Tag: "salt", Value: 2, End: -1}}, Effective: []string{"salt"}, Classes: []string{"feat:salt", "altvalue:salt", "gsub:AlternateSubs", "synth:alternates"}},
		{Font: synthRef(synthfont.Spec{Kind: synthfont.KindPairClasses, N: 13, Alt: 5, Feature: "kern"}), Text: []rune("abcxyzab"), Dir: uint8(harfbuzz.LeftToRight), Script: "Latn", Effective: []string{"kern"}, Classes: []string{"feat:kern", "gpos:PairPos/PairPosData2", "synth:pair-classes"}},
	}
}

func loadClassIndex() (*classIndexFile, error) {
	classOnce.Do(func() {
		b, err := os.ReadFile(classIndexName)
		if err != nil {
			classErr = fmt.Errorf("%s missing (generate with VERIF_C13_GEN=1 go test -run TestGenClassIndex): %v", classIndexName, err)
			return
		}
		var f classIndexFile
		if err := json.Unmarshal(b, &f); err != nil {
			classErr = err
			return
		}
		for _, p := range synthProbes() {
			f.Probes = append(f.Probes, p)
			for _, c := range p.Classes {
				f.Classes[c] = append(f.Classes[c], len(f.Probes)-1)
			}
		}
		for c := range f.Classes {
			classNames = append(classNames, c)
		}
		sort.Strings(classNames)
		classIdx = &f
	})
	return classIdx, classErr
}

// probesOfFont lists the probes of one font (by file).
var (
	probesByFontOnce sync.Once
	probesByFont     map[string][]int
)

func fontProbes(file string) []int {
	probesByFontOnce.Do(func() {
		probesByFont = map[string][]int{}
		if idx, err := loadClassIndex(); err == nil {
			for i, p := range idx.Probes {
				probesByFont[p.Font.File] = append(probesByFont[p.Font.File], i)
			}
		}
	})
	return probesByFont[file]
}

// ---- probe execution with fresh objects (used by the scan and by the run-time verification)

func (p *probe) hbFeatures(extra ...harfbuzz.Feature) []harfbuzz.Feature {
	var out []harfbuzz.Feature
	for _, ft := range p.Features {
		end := ft.End
		if end < 0 {
			end = harfbuzz.FeatureGlobalEnd
		}
		out = append(out, harfbuzz.Feature{Tag: mustTag(ft.Tag), Value: ft.Value, Start: ft.Start, End: end})
	}
	return append(out, extra...)
}

type shapeSig struct {
	glyphs, positions string
	ok                bool
}

// freshSig shapes the probe with a new buffer and font and returns signatures of the result.
func (p *probe) freshSig(face *font.Face, extra ...harfbuzz.Feature) (sig shapeSig) {
	try(func() {
		b := harfbuzz.NewBuffer()
		b.AddRunes(p.Text, 0, -1)
		b.Props = harfbuzz.SegmentProperties{Direction: harfbuzz.Direction(p.Dir), Script: parseScript(p.Script), Language: language.Language(p.Lang)}
		f := harfbuzz.NewFont(face)
		f.Ptem = p.Ptem
		b.Shape(f, p.hbFeatures(extra...))
		var g, q bytes.Buffer
		for i, in := range b.Info {
			binary.Write(&g, binary.LittleEndian, uint32(in.Glyph))
			binary.Write(&g, binary.LittleEndian, int32(in.Cluster))
			po := b.Pos[i]
			binary.Write(&q, binary.LittleEndian, [4]int32{po.XAdvance, po.YAdvance, po.XOffset, po.YOffset})
		}
		sig = shapeSig{g.String(), q.String(), true}
	})
	return sig
}

func (p *probe) face(pf *poolFont) *font.Face {
	f := font.NewFace(pf.Font)
	if len(p.Vars) > 0 {
		f.SetVariations(toVariations(p.Vars))
	}
	return f
}

func global(tag string, v uint32) harfbuzz.Feature {
	return harfbuzz.Feature{Tag: mustTag(tag), Value: v, Start: harfbuzz.FeatureGlobalStart, End: harfbuzz.FeatureGlobalEnd}
}

// acts tells whether the probe still exercises its effective features on this tree: the result
// with one of them disabled differs.
func (p *probe) acts(pf *poolFont) bool {
	face := p.face(pf)
	base := p.freshSig(face)
	if !base.ok {
		return false
	}
	for _, tag := range p.Effective {
		if off := p.freshSig(face, global(tag, 0)); off.ok && off != base {
			return true
		}
	}
	if len(p.Effective) == 0 {
		return len(p.Text) > 0
	}
	return false
}

// ---------------------------------------------------------------------------------------------
// the scan (run by hand; its result class_index.json is read by the checks)

type upstreamLine struct {
	text   []rune
	dir    uint8
	script string
	lang   string
	feats  []hbFeat
	vars   []varSetting
}

func parseUpstream() map[string][]upstreamLine {
	out := map[string][]upstreamLine{}
	root := filepath.Join(corpus.Dir(), "harfbuzz", "harfbuzz_reference")
	var files []string
	filepath.Walk(root, func(path string, info os.FileInfo, err error) error {
		if err == nil && !info.IsDir() && strings.HasSuffix(path, ".tests") {
			files = append(files, path)
		}
		return nil
	})
	sort.Strings(files)
	for _, fp := range files {
		b, err := os.ReadFile(fp)
		if err != nil {
			continue
		}
		for _, line := range strings.Split(string(b), "\n") {
			parts := strings.Split(line, ";")
			if len(parts) < 4 || strings.HasPrefix(parts[0], "#") {
				continue
			}
			rel, err := filepath.Rel(corpus.Dir(), filepath.Join(filepath.Dir(fp), parts[0]))
			if err != nil {
				continue
			}
			var l upstreamLine
			for _, u := range strings.Split(parts[2], ",") {
				v, err := strconv.ParseUint(strings.TrimPrefix(strings.TrimSpace(u), "U+"), 16, 32)
				if err == nil {
					l.text = append(l.text, rune(v))
				}
			}
			if len(l.text) == 0 || len(l.text) > 40 {
				continue
			}
			okLine := true
			for _, opt := range strings.Fields(strings.ReplaceAll(parts[1], "\"", "")) {
				k, v, _ := strings.Cut(opt, "=")
				if v == "" {
					continue
				}
				switch k {
				case "--direction":
					switch strings.ToLower(v)[:1] {
					case "l":
						l.dir = uint8(harfbuzz.LeftToRight)
					case "r":
						l.dir = uint8(harfbuzz.RightToLeft)
					case "t":
						l.dir = uint8(harfbuzz.TopToBottom)
					case "b":
						l.dir = uint8(harfbuzz.BottomToTop)
					}
				case "--script":
					if sc, err := language.ParseScript(v); err == nil {
						l.script = sc.String()
					}
				case "--language":
					l.lang = v
				case "--features":
					for _, fs := range strings.Split(v, ",") {
						ft, err := harfbuzz.ParseFeature(fs)
						if err != nil {
							okLine = false
							continue
						}
						h := hbFeat{Tag: ft.Tag.String(), Value: ft.Value, Start: ft.Start, End: ft.End}
						if ft.End == harfbuzz.FeatureGlobalEnd {
							h.End = -1
						}
						l.feats = append(l.feats, h)
					}
				case "--variations":
					for _, vs := range strings.Split(v, ",") {
						va, err := harfbuzz.ParseVariation(vs)
						if err == nil {
							l.vars = append(l.vars, varSetting{Tag: va.Tag.String(), Value: va.Value})
						}
					}
				}
			}
			if okLine {
				out[rel] = append(out[rel], l)
			}
		}
	}
	return out
}

func coverageGlyphs(c tables.Coverage, max int) []uint32 {
	var out []uint32
	switch c := c.(type) {
	case tables.Coverage1:
		for _, g := range c.Glyphs {
			if len(out) < max {
				out = append(out, uint32(g))
			}
		}
	case tables.Coverage2:
		for _, r := range c.Ranges {
			for g := uint32(r.StartGlyphID); g <= uint32(r.EndGlyphID) && len(out) < max; g++ {
				out = append(out, g)
			}
		}
	}
	return out
}

// lookupClass names the type and format of a lookup subtable.
func lookupClass(table string, st any) string {
	v := reflect.ValueOf(st)
	name := v.Type().Name()
	if v.Kind() == reflect.Struct {
		if d := v.FieldByName("Data"); d.IsValid() && d.Kind() == reflect.Interface && !d.IsNil() {
			name += "/" + d.Elem().Type().Name()
		}
	}
	return table + ":" + name
}

type featInfo struct {
	table   string
	classes []string   // lookup classes of the feature's lookups
	cover   [][]uint32 // covered glyphs per lookup
}

func defaultDir(sc language.Script) uint8 {
	if rtlScripts[sc] {
		return uint8(harfbuzz.RightToLeft)
	}
	return uint8(harfbuzz.LeftToRight)
}

type scored struct {
	p      probe
	purity int
	size   int64
}

// TestGenClassIndex scans the corpus and writes class_index.json (run by hand:
// VERIF_C13_GEN=1 go test -tags verif -run TestGenClassIndex ./props/c13/).
func TestGenClassIndex(t *testing.T) {
	if os.Getenv("VERIF_C13_GEN") == "" {
		t.Skip("generator: set VERIF_C13_GEN=1")
	}
	up := parseUpstream()
	byClass := map[string][]scored{}
	allLookupClasses := map[string]bool{}
	stats := map[string]int{}
	for _, file := range corpus.Files() {
		st, err := os.Stat(corpus.Abs(file))
		if err != nil || st.Size() > 4<<20 {
			continue
		}
		pf, err := loadFont(fontRef{File: file})
		if err != nil || len(pf.Runes) == 0 {
			continue
		}
		stats["fonts_scanned"]++
		lds, _ := corpus.Loaders(file)
		has := func(s string) bool { return len(lds) > 0 && lds[0].HasTable(ot.MustNewTag(s)) }
		// reverse cmap
		rev := map[uint32]rune{}
		for _, r := range pf.Runes {
			if g, ok := pf.Font.NominalGlyph(r); ok {
				if _, seen := rev[uint32(g)]; !seen {
					rev[uint32(g)] = r
				}
			}
		}
		// features and their lookups
		feats := map[string]*featInfo{}
		var tags []string
		addFeat := func(table string, l font.Layout, sub func(i uint16) []any) {
			for _, f := range l.Features {
				tg := f.Tag.String()
				fi := feats[tg]
				if fi == nil {
					fi = &featInfo{table: table}
					feats[tg] = fi
					tags = append(tags, tg)
				}
				for _, li := range f.LookupListIndices {
					for _, s := range sub(li) {
						c := lookupClass(table, s)
						allLookupClasses[c] = true
						fi.classes = append(fi.classes, c)
						if cv, ok := s.(interface{ Cov() tables.Coverage }); ok && len(fi.cover) < 6 {
							if gl := coverageGlyphs(cv.Cov(), 12); len(gl) > 0 {
								fi.cover = append(fi.cover, gl)
							}
						}
					}
				}
			}
		}
		addFeat("gsub", pf.Font.GSUB.Layout, func(i uint16) (out []any) {
			if int(i) < len(pf.Font.GSUB.Lookups) {
				for _, s := range pf.Font.GSUB.Lookups[i].Subtables {
					out = append(out, s)
				}
			}
			return out
		})
		addFeat("gpos", pf.Font.GPOS.Layout, func(i uint16) (out []any) {
			if int(i) < len(pf.Font.GPOS.Lookups) {
				for _, s := range pf.Font.GPOS.Lookups[i].Subtables {
					out = append(out, s)
				}
			}
			return out
		})
		if (has("kern") || has("kerx")) && feats["kern"] == nil {
			feats["kern"] = &featInfo{table: "aat"}
			tags = append(tags, "kern")
		}
		if len(tags) > 64 {
			tags = tags[:64]
		}
		// candidates
		var cands []upstreamLine
		lines := up[file]
		step := 1
		if len(lines) > 12 {
			step = len(lines) / 12
		}
		for i := 0; i < len(lines) && len(cands) < 12; i += step {
			cands = append(cands, lines[i])
		}
		textOf := func(gl []uint32, n int) []rune {
			var rs []rune
			for _, g := range gl {
				if r, ok := rev[g]; ok && len(rs) < n {
					rs = append(rs, r)
				}
			}
			return rs
		}
		nCov := 0
		for _, tg := range tags {
			for _, gl := range feats[tg].cover {
				if nCov >= 24 {
					break
				}
				if rs := textOf(gl, 6); len(rs) > 0 {
					// the covered glyphs alone, and each followed by other mapped runes (pairs, marks)
					cands = append(cands, upstreamLine{text: rs})
					mixed := []rune{rs[0]}
					for _, r := range pf.Runes {
						if len(mixed) < 8 {
							mixed = append(mixed, r, rs[len(mixed)/2%len(rs)])
						}
					}
					cands = append(cands, upstreamLine{text: mixed})
					nCov += 2
				}
			}
		}
		for _, s := range []string{"1/2 3⁄4", "fi ffl AV To", "T́ẹ"} {
			ok := true
			for _, r := range s {
				if _, m := pf.Font.NominalGlyph(r); !m {
					ok = false
				}
			}
			if ok {
				cands = append(cands, upstreamLine{text: []rune(s)})
			}
		}
		if len(cands) == 0 {
			n := len(pf.Runes)
			if n > 6 {
				n = 6
			}
			cands = append(cands, upstreamLine{text: append([]rune(nil), pf.Runes[:n]...)})
		}
		// table classes of the font
		var tableClasses []string
		for _, tb := range []string{"morx", "mort", "kerx", "kern", "trak", "ankr", "CFF ", "CFF2", "sbix", "CBDT", "EBDT", "vmtx", "VORG", "gvar", "HVAR", "VVAR", "MVAR", "avar", "BASE", "feat", "COLR", "SVG "} {
			if has(tb) {
				tableClasses = append(tableClasses, "table:"+strings.TrimSpace(tb))
			}
		}
		add := func(p probe, purity int) {
			p.Font = pf.Ref
			sort.Strings(p.Classes)
			for _, c := range p.Classes {
				byClass[c] = append(byClass[c], scored{p: p, purity: purity, size: st.Size()})
			}
		}
		for ci, c := range cands {
			p := probe{Text: c.text, Dir: c.dir, Script: c.script, Lang: c.lang, Features: c.feats, Vars: c.vars}
			sc := scriptOf(p.Text)
			if p.Script == "" {
				p.Script = sc.String()
			}
			if p.Dir == 0 {
				p.Dir = defaultDir(parseScript(p.Script))
			}
			face := p.face(pf)
			base := p.freshSig(face)
			if !base.ok {
				continue
			}
			stats["candidates"]++
			common := []string{"script:" + p.Script}
			if harfbuzz.Direction(p.Dir) == harfbuzz.TopToBottom || harfbuzz.Direction(p.Dir) == harfbuzz.BottomToTop {
				common = append(common, "dir:vertical")
			}
			for _, ft := range c.feats {
				if !(ft.Start == 0 && ft.End < 0) {
					common = append(common, "user:ranged-feature")
				}
				if ft.Value > 1 {
					common = append(common, "user:feature-value>1")
				}
			}
			var defaultEff []string
			defClasses := map[string]bool{}
			pure := 1
			for _, tg := range tags {
				fi := feats[tg]
				off := p.freshSig(face, global(tg, 0))
				on := p.freshSig(face, global(tg, 1))
				if !off.ok || !on.ok {
					continue
				}
				distinct := map[string]bool{}
				for _, lc := range fi.classes {
					distinct[lc] = true
				}
				cls := []string{"feat:" + tg}
				for lc := range distinct {
					cls = append(cls, lc)
				}
				if fi.table == "aat" {
					for _, tc := range tableClasses {
						if tc == "table:kern" || tc == "table:kerx" || tc == "table:ankr" {
							cls = append(cls, tc+"(applied)")
						}
					}
				}
				if two := p.freshSig(face, global(tg, 2)); two.ok && two != on && on != off {
					cls = append(cls, "altvalue:"+tg)
				}
				switch {
				case base != off: // active by default on this input
					defaultEff = append(defaultEff, tg)
					for _, c := range cls {
						defClasses[c] = true
					}
					if len(distinct) > 1 {
						pure = 0
					}
				case on != off: // needs to be requested: classes of their own ("feat:salt=1")
					for i, c := range cls {
						if strings.HasPrefix(c, "feat:") {
							cls[i] = c + "=1"
						} else if !strings.HasPrefix(c, "altvalue:") {
							cls[i] = c + " (requested feature)"
						}
					}
					q := p
					q.Features = append(append([]hbFeat(nil), p.Features...), hbFeat{Tag: tg, Value: 1, End: -1})
					q.Effective = []string{tg}
					q.Classes = append(append([]string(nil), common...), cls...)
					pu := 0
					if len(distinct) == 1 {
						pu = 1
					}
					add(q, pu)
				}
			}
			// the input as it is: default features, tables, variations
			q := p
			q.Effective = defaultEff
			q.Classes = append([]string(nil), common...)
			for c := range defClasses {
				q.Classes = append(q.Classes, c)
			}
			for _, tc := range tableClasses {
				q.Classes = append(q.Classes, tc)
			}
			if has("morx") || has("mort") {
				nominal := true
				try(func() {
					b := harfbuzz.NewBuffer()
					b.AddRunes(p.Text, 0, -1)
					b.Props = harfbuzz.SegmentProperties{Direction: harfbuzz.Direction(p.Dir), Script: parseScript(p.Script)}
					b.Shape(harfbuzz.NewFont(face), nil)
					if len(b.Info) != len(p.Text) {
						nominal = false
						return
					}
					for i, in := range b.Info {
						if in.Cluster >= 0 && in.Cluster < len(p.Text) {
							if g, _ := pf.Font.NominalGlyph(p.Text[in.Cluster]); g != in.Glyph {
								nominal = false
							}
						}
						_ = i
					}
				})
				if !nominal {
					q.Classes = append(q.Classes, "table:morx(applied)")
				}
			}
			if has("trak") {
				withPtem := p
				withPtem.Ptem = 9
				if s9 := withPtem.freshSig(face); s9.ok && s9 != base {
					w := withPtem
					w.Effective = defaultEff
					w.Classes = append(append([]string(nil), common...), "table:trak(applied)")
					add(w, 1)
				}
			}
			if len(pf.Axes) > 0 && ci < 6 {
				for _, a := range pf.Axes[:1] {
					for _, v := range []float32{a.Min, a.Max} {
						w := p
						w.Vars = []varSetting{{Tag: a.Tag.String(), Value: v}}
						if sv := w.freshSig(w.face(pf)); sv.ok && sv != base {
							w.Effective = defaultEff
							w.Classes = append([]string(nil), common...)
							if sv.glyphs != base.glyphs {
								w.Classes = append(w.Classes, "var:feature-variations(glyphs change)")
							} else {
								w.Classes = append(w.Classes, "var:positions change")
							}
							add(w, 1)
						}
					}
				}
			}
			add(q, pure)
		}
	}
	// choose up to 2 probes per class: purest (the feature has one lookup type), smallest font, shortest text
	out := classIndexFile{Comment: "generated by TestGenClassIndex (props/c13/classes_test.go) from the corpus; do not edit", Classes: map[string][]int{}, Stats: stats}
	var names []string
	for c := range byClass {
		names = append(names, c)
	}
	sort.Strings(names)
	chosen := map[string]int{}
	for _, c := range names {
		l := byClass[c]
		sort.SliceStable(l, func(i, j int) bool {
			if l[i].purity != l[j].purity {
				return l[i].purity > l[j].purity
			}
			if l[i].size != l[j].size {
				return l[i].size < l[j].size
			}
			// texts of about 8 runes: long enough to use the lookup several times
			di, dj := len(l[i].p.Text)-8, len(l[j].p.Text)-8
			if di < 0 {
				di = -di
			}
			if dj < 0 {
				dj = -dj
			}
			return di < dj
		})
		fontsUsed := map[string]bool{}
		for _, s := range l {
			if len(out.Classes[c]) >= 2 {
				break
			}
			if fontsUsed[s.p.Font.File] && len(l) > 2 {
				continue // a second probe should come from another font when there is one
			}
			fontsUsed[s.p.Font.File] = true
			k := histKey("", s.p)
			i, ok := chosen[k]
			if !ok {
				i = len(out.Probes)
				chosen[k] = i
				out.Probes = append(out.Probes, s.p)
			}
			out.Classes[c] = append(out.Classes[c], i)
		}
	}
	for c := range allLookupClasses {
		if len(out.Classes[c]) == 0 {
			out.Absent = append(out.Absent, c)
		}
	}
	sort.Strings(out.Absent)
	stats["classes"] = len(out.Classes)
	stats["probes"] = len(out.Probes)
	b, _ := json.MarshalIndent(out, "", " ")
	if err := os.WriteFile(classIndexName, b, 0o644); err != nil {
		t.Fatal(err)
	}
	t.Logf("classes %d, probes %d, absent lookup classes %v, stats %v", len(out.Classes), len(out.Probes), out.Absent, stats)
}

var _ = ev.Seed

// ---------------------------------------------------------------------------------------------
// use of the probes by the machines

// shaperOp of a probe: only global features exist at the shaping level.
func (p *probe) shaperOp(slot int) shaperOp {
	op := shaperOp{Kind: "shape", Slot: slot, Text: copyRunes(p.Text), RunEnd: len(p.Text), Dir: p.Dir - uint8(harfbuzz.LeftToRight),
		Script: p.Script, Lang: p.Lang, Size: 16 * 64}
	for _, f := range p.Features {
		if f.Start == 0 && f.End < 0 {
			op.Features = append(op.Features, featDef{Tag: f.Tag, Value: f.Value})
		}
	}
	return op
}

func (p *probe) bufOp(slot int) bufOp {
	return bufOp{Kind: "shape", Slot: slot, Text: copyRunes(p.Text), Length: len(p.Text), Dir: p.Dir, Script: p.Script, Lang: p.Lang,
		Features: append([]hbFeat(nil), p.Features...), Ptem: p.Ptem}
}

func (p *probe) cfg() faceCfg {
	if len(p.Vars) == 0 {
		return faceCfg{}
	}
	return faceCfg{Mode: "variations", Vars: p.Vars}
}

// TestEnumClasses gives every coverage class its histories in every run: for each probe of the
// index, one history on a HarfbuzzShaper and one on a harfbuzz.Buffer in which the probe's input is
// shaped several times (so that the class acts in at least 2 calls on the same object), interleaved
// with another font, a sibling face, and variants of the effective feature (values 0/1/2/3, ranged at
// the harfbuzz level). Which variants, cache size and order is drawn from VERIF_SEED.
func TestEnumClasses(t *testing.T) {
	idx, err := loadClassIndex()
	if err != nil {
		t.Fatalf("infrastructure: %v", err)
	}
	shard, nshards := ev.Shard()
	other := fontRef{File: fRoboto}
	acted := map[string]bool{}
	for pi := range idx.Probes {
		if pi%nshards != shard {
			continue
		}
		p := &idx.Probes[pi]
		pf, err := loadFont(p.Font)
		if err != nil {
			t.Fatalf("infrastructure: %v", err)
		}
		r := ev.NewRand(uint64(ev.Seed())*1000003 + uint64(pi))
		acts := p.acts(pf)
		faces := []faceDef{{Font: p.Font, Cfg: p.cfg()}, {Font: p.Font, Cfg: p.cfg()}, {Font: other}}
		tag := ""
		if len(p.Effective) > 0 {
			tag = p.Effective[r.Intn(len(p.Effective))]
		}
		values := []uint32{0, 1, 2, 3}

		// ---- shaper
		sm := newShaperMachine(t, faces)
		sm.apply(shaperOp{Kind: "cache_size", N: []int{1, 2, 8}[r.Intn(3)]})
		q := p.shaperOp(0)
		tiny := shaperOp{Kind: "shape", Slot: 2, Text: []rune("ab"), RunEnd: 2, Script: "Latn", Lang: "en", Size: 16 * 64}
		sm.apply(q)
		sm.apply(q)
		sm.apply(tiny)
		if tag != "" {
			v := q
			v.Features = append(append([]featDef(nil), q.Features...), featDef{Tag: tag, Value: values[r.Intn(4)]})
			sm.apply(v)
			if r.Intn(2) == 0 {
				v.Features[len(v.Features)-1].Value = values[r.Intn(4)]
				sm.apply(v)
			}
		}
		sib := q
		sib.Slot = 1
		sm.apply(sib)
		sm.apply(q)
		sm.finish()

		// ---- buffer
		bm := newBufMachine(t, faces)
		bq := p.bufOp(0)
		bm.apply(bq)
		bm.apply(bq)
		bm.apply(bufOp{Kind: "shape", Slot: 2, Text: []rune("ab"), Length: 2, Dir: uint8(harfbuzz.LeftToRight), Script: "Latn", Lang: "en"})
		if tag != "" {
			for k := 0; k < 2; k++ {
				v := bq
				ft := hbFeat{Tag: tag, Value: values[r.Intn(4)], End: -1}
				if r.Intn(2) == 0 && len(p.Text) > 0 {
					ft.Start = r.Intn(len(p.Text))
					ft.End = ft.Start + 1 + r.Intn(len(p.Text)-ft.Start)
				}
				v.Features = append(append([]hbFeat(nil), bq.Features...), ft)
				bm.apply(v)
			}
		}
		bsib := bq
		bsib.Slot = 1
		bm.apply(bsib)
		bm.apply(bq)
		bm.finish()

		ev.Label("classes:probes")
		if acts {
			ev.Label("classes:probes_acting")
			for _, c := range p.Classes {
				if !acted[c] {
					acted[c] = true
				}
				ev.Label("cls:" + c) // the class acted in >= 2 calls of one history (shaper and buffer)
			}
		} else {
			ev.Label("classes:probes_not_acting_on_this_tree")
		}
	}
	ev.LabelN("classes:classes_acting_in_this_shard", int64(len(acted)))
}
