package c13

import (
	"encoding/json"
	"fmt"
	"testing"

	"github.com/go-text/typesetting/font"
	"github.com/go-text/typesetting/font/opentype/tables"
	"pgregory.net/rapid"

	"verif/internal/ev"
)

// ---------------------------------------------------------------------------------------------
// font.Face state machine
//
// Objects: two faces of the same *font.Font (font.NewFace twice); setters SetVariations /
// SetCoords / SetPpem interleaved with queries.
// Oracle: every query on a used face equals the same query on font.NewFace(font) given the
// face's current settings (floats by bits). The sibling face shows that settings of one face do
// not reach another face of the same font.

const (
	qExtents = 1 << iota
	qHAdvance
	qVAdvance
	qGlyphData
	qFontExtents
	qLineMetrics
	qOrigins
	qAll = 1<<iota - 1
)

type faceOp struct {
	// query | set_variations | set_coords | set_ppem | burst |
	// save_coords (keep the slice Coords() returns) | restore_coords (SetCoords of kept slice Saved, on this
	// face: any face of the font) | set_coords_kept / set_design_kept (SetCoords with a slice the case keeps:
	// its own, or the result of NormalizeVariations)
	Kind string   `json:"kind"`
	Face int      `json:"face"` // 0 or 1
	GIDs []uint32 `json:"gids,omitempty"`
	What int      `json:"what,omitempty"` // bit set of q* constants
	// burst: N setter calls in one step, alternating between two settings and ending with the
	// embedded one (call i of N uses the embedded setting when N-i is even, Alt otherwise).
	// Setter "mixed": SetVariations(Vars) once, then N-1 SetPpem calls alternating likewise.
	Setter string `json:"setter,omitempty"` // set_variations | set_coords | set_ppem | mixed
	N      int    `json:"n,omitempty"`
	Alt    *cfgOp `json:"alt,omitempty"`
	cfgOp
}

type faceCase struct {
	Font fontRef  `json:"font"`
	Ops  []faceOp `json:"ops"`
}

type faceMachine struct {
	t     ev.TB
	c     *faceCase
	pf    *poolFont
	faces [2]*font.Face
	cfgs  [2]faceCfg

	store   coordsStore
	queried map[string]string // face/gid -> cfg key at the last query
	flags   map[string]bool
	queries int
}

func newFaceMachine(t ev.TB, ref fontRef) *faceMachine {
	pf := mustFont(t, ref)
	m := &faceMachine{t: t, c: &faceCase{Font: ref}, pf: pf, queried: map[string]string{}, flags: map[string]bool{}}
	m.faces[0], m.faces[1] = font.NewFace(pf.Font), font.NewFace(pf.Font)
	return m
}

func (m *faceMachine) fail(format string, args ...any) {
	m.t.Helper()
	ev.Fail(m.t, "face", m.c, "step %d: "+format, append([]any{len(m.c.Ops) - 1}, args...)...)
}

// faceAnswers is everything one query op reads from a face.
type faceAnswers struct {
	Extents   []font.GlyphExtents
	ExtentsOK []bool
	HAdv      []float32
	VAdv      []float32
	Data      []font.GlyphData
	HExt, VExt font.FontExtents
	HOK, VOK   bool
	Metrics   []float32
	Origins   [][4]int32
	OriginsOK [][2]bool
	PpemX, PpemY uint16
	Coords       []tables.Coord // the getter, by value
}

func ask(f *font.Face, gids []uint32, what int) faceAnswers {
	var a faceAnswers
	a.PpemX, a.PpemY = f.Ppem()
	a.Coords = append([]tables.Coord(nil), f.Coords()...)
	for _, g := range gids {
		gid := font.GID(g)
		if what&qExtents != 0 {
			e, ok := f.GlyphExtents(gid)
			a.Extents, a.ExtentsOK = append(a.Extents, e), append(a.ExtentsOK, ok)
		}
		if what&qHAdvance != 0 {
			a.HAdv = append(a.HAdv, f.HorizontalAdvance(gid))
		}
		if what&qVAdvance != 0 && f.HasVerticalMetrics() {
			a.VAdv = append(a.VAdv, f.VerticalAdvance(gid))
		}
		if what&qGlyphData != 0 {
			a.Data = append(a.Data, f.GlyphData(gid))
		}
		if what&qOrigins != 0 {
			hx, hy, hok := f.GlyphHOrigin(gid)
			vx, vy, vok := f.GlyphVOrigin(gid)
			a.Origins, a.OriginsOK = append(a.Origins, [4]int32{hx, hy, vx, vy}), append(a.OriginsOK, [2]bool{hok, vok})
		}
	}
	if what&qFontExtents != 0 {
		a.HExt, a.HOK = f.FontHExtents()
		a.VExt, a.VOK = f.FontVExtents()
	}
	if what&qLineMetrics != 0 {
		for lm := font.UnderlinePosition; lm <= font.XHeight; lm++ {
			a.Metrics = append(a.Metrics, f.LineMetric(lm))
		}
	}
	return a
}

func (m *faceMachine) apply(op faceOp) {
	m.c.Ops = append(m.c.Ops, op)
	ev.Journal("face", m.c) // names the culprit if the process hangs or dies in this step
	if op.Face < 0 || op.Face > 1 {
		m.t.Fatalf("infrastructure: bad face index in replayed case")
	}
	k := op.Face
	if roundTripKinds[op.Kind] {
		if _, err := m.store.apply(op.Kind, op.cfgOp, m.faces[k], &m.cfgs[k], len(m.pf.Axes)); err != nil {
			m.t.Fatalf("infrastructure: %v in replayed case", err)
		}
		m.flags["round_trip:"+op.Kind] = true
		return
	}
	switch op.Kind {
	case "set_variations", "set_coords", "set_ppem":
		if op.MutateAfter {
			m.flags["caller_slice_mutated_after_call"] = true
		}
		if op.Kind == "set_coords" && len(op.Coords) != 0 && len(op.Coords) != len(m.pf.Axes) {
			m.t.Fatalf("infrastructure: coords of the wrong length in replayed case")
		}
		applyCfgOp(op.Kind, op.cfgOp, m.faces[k], &m.cfgs[k])
	case "burst":
		if op.Alt == nil || op.N < 1 {
			m.t.Fatalf("infrastructure: incomplete burst in replayed case")
		}
		for _, cs := range [][]int16{op.Coords, op.Alt.Coords} {
			if op.Setter == "set_coords" && len(cs) != 0 && len(cs) != len(m.pf.Axes) {
				m.t.Fatalf("infrastructure: coords of the wrong length in replayed case")
			}
		}
		burstSetters(op.Setter, op.N, op.cfgOp, *op.Alt, m.faces[k], &m.cfgs[k])
		m.flags[burstLabel(op.N)] = true
	case "query":
		var got, want faceAnswers
		pu := try(func() { got = ask(m.faces[k], op.GIDs, op.What) })
		pr := try(func() { want = ask(freshFace(m.pf, m.cfgs[k]), op.GIDs, op.What) })
		m.classify(op)
		if pu != nil || pr != nil {
			if pu != nil && pr != nil {
				m.flags["both_panic"] = true // totality of the query itself is C09's business
				return
			}
			m.fail("only one side panicked: used face: %v; fresh face: %v", pu, pr)
		}
		if d := firstDiff(got, want); d != "" {
			m.fail("used face %d (%s, settings %s) answers differently from a fresh face with the same settings: %s", k, m.pf.Ref.File, m.cfgs[k].key(), d)
		}
	default:
		m.t.Fatalf("infrastructure: unknown op %q", op.Kind)
	}
}

// burstSetters performs the N setter calls of a burst on the used face and leaves the model with
// the settings of the last ones.
func burstSetters(setter string, n int, last, alt cfgOp, f *font.Face, c *faceCfg) {
	switch setter {
	case "mixed":
		applyCfgOp("set_variations", last, f, c)
		for i := 2; i <= n; i++ {
			if (n-i)%2 == 0 {
				applyCfgOp("set_ppem", last, f, c)
			} else {
				applyCfgOp("set_ppem", alt, f, c)
			}
		}
	default:
		for i := 1; i <= n; i++ {
			if (n-i)%2 == 0 {
				applyCfgOp(setter, last, f, c)
			} else {
				applyCfgOp(setter, alt, f, c)
			}
		}
	}
}

func drawSetterBurst(t *rapid.T, pf *poolFont) (setter string, last, alt cfgOp) {
	setter = rapid.SampledFrom([]string{"set_variations", "set_variations", "set_coords", "set_ppem", "mixed", "mixed"}).Draw(t, "setter")
	switch setter {
	case "set_variations":
		last.Vars, alt.Vars = drawVars(t, pf), drawVars(t, pf)
	case "set_coords":
		last.Coords, alt.Coords = drawCoords(t, pf), drawCoords(t, pf)
	case "set_ppem":
		last.PpemX, last.PpemY = drawPpem(t)
		alt.PpemX, alt.PpemY = drawPpem(t)
	default:
		last.Vars = drawVars(t, pf)
		last.PpemX, last.PpemY = drawPpem(t)
		alt.PpemX, alt.PpemY = drawPpem(t)
	}
	return setter, last, alt
}

func (m *faceMachine) classify(op faceOp) {
	m.queries++
	ck := m.cfgs[op.Face].key()
	for _, g := range op.GIDs {
		k := fmt.Sprintf("%d/%d", op.Face, g)
		if prev, ok := m.queried[k]; ok && prev != ck {
			m.flags["requery_glyph_after_settings_change"] = true
			if op.What&qExtents != 0 {
				m.flags["requery_extents_after_settings_change"] = true
			}
		}
		m.queried[k] = ck
	}
	if m.cfgs[0].key() != m.cfgs[1].key() {
		m.flags["sibling_faces_differ"] = true
	}
}

func (m *faceMachine) finish() {
	ev.JournalDone()
	nt := len(m.c.Ops) >= 3 && m.flags["requery_glyph_after_settings_change"]
	labels := []string{"face:histories"}
	for k := range m.flags {
		labels = append(labels, "face:"+k)
	}
	if nt {
		labels = append(labels, "face:nontrivial")
	}
	if len(m.pf.Axes) > 0 {
		labels = append(labels, "face:variable_font")
	}
	ev.Case(nt, histKey("face", m.c), labels...)
	ev.LabelN("face:steps", int64(len(m.c.Ops)))
	if nt && ev.WantSample() {
		ev.Sample(map[string]any{"check": "face", "case": m.c})
	}
}

func TestPropFace(t *testing.T) {
	var files []string
	files = append(files, varPool...)
	files = append(files, varPool...) // variable fonts twice as likely
	files = append(files, bitmapPool...)
	files = append(files, bitmapPool...)
	files = append(files, fDejaVu, fRaleway, fAmiri)
	rapid.Check(t, func(rt *rapid.T) {
		m := newFaceMachine(rt, fontRef{File: rapid.SampledFrom(files).Draw(rt, "font")})
		pf := m.pf
		// a small set of glyphs revisited by the whole history, so that cached answers are re-read
		var hot []uint32
		for i, n := 0, rapid.IntRange(1, 5).Draw(rt, "nHot"); i < n; i++ {
			hot = append(hot, rapid.SampledFrom(pf.GIDs).Draw(rt, "hotGlyph"))
		}
		drawFaceIdx := func(rt *rapid.T) int {
			if rapid.IntRange(0, 3).Draw(rt, "sibling") == 0 {
				return 1
			}
			return 0
		}
		actions := map[string]func(*rapid.T){}
		weighted(actions, "query", 4, func(rt *rapid.T) {
			op := faceOp{Kind: "query", Face: drawFaceIdx(rt)}
			for i, n := 0, rapid.IntRange(1, 3).Draw(rt, "nGlyphs"); i < n; i++ {
				switch k := rapid.IntRange(0, 9).Draw(rt, "glyphKind"); {
				case k < 7:
					op.GIDs = append(op.GIDs, rapid.SampledFrom(hot).Draw(rt, "glyph"))
				case k < 9:
					op.GIDs = append(op.GIDs, rapid.SampledFrom(pf.GIDs).Draw(rt, "glyph"))
				default:
					op.GIDs = append(op.GIDs, uint32(rapid.IntRange(0, 70000).Draw(rt, "glyph")))
				}
			}
			op.What = qExtents
			if rapid.IntRange(0, 1).Draw(rt, "more") == 0 {
				op.What = rapid.IntRange(1, qAll).Draw(rt, "what")
			}
			m.apply(op)
		})
		weighted(actions, "set_variations", 1, func(rt *rapid.T) {
			m.apply(faceOp{Kind: "set_variations", Face: drawFaceIdx(rt), cfgOp: cfgOp{Vars: drawVars(rt, pf), MutateAfter: rapid.IntRange(0, 2).Draw(rt, "mutateAfter") == 0}})
		})
		weighted(actions, "set_coords", 1, func(rt *rapid.T) {
			m.apply(faceOp{Kind: "set_coords", Face: drawFaceIdx(rt), cfgOp: cfgOp{Coords: drawCoords(rt, pf)}})
		})
		weighted(actions, "set_ppem", 1, func(rt *rapid.T) {
			x, y := drawPpem(rt)
			m.apply(faceOp{Kind: "set_ppem", Face: drawFaceIdx(rt), cfgOp: cfgOp{PpemX: x, PpemY: y}})
		})
		query := func(k int) faceOp {
			return faceOp{Kind: "query", Face: k, GIDs: hot, What: qExtents | qHAdvance | qVAdvance | qFontExtents}
		}
		weighted(actions, "round_trip", 2, func(rt *rapid.T) {
			// coordinates read from a face (or kept by the caller) and fed back to the same or the sibling face
			k := drawFaceIdx(rt)
			other := faceOp{Kind: "set_variations", Face: k, cfgOp: cfgOp{Vars: drawVars(rt, pf), MutateAfter: rapid.Bool().Draw(rt, "mutateAfter")}}
			switch rapid.IntRange(0, 3).Draw(rt, "scenario") {
			case 0: // save, change, restore
				m.apply(faceOp{Kind: "save_coords", Face: k})
				m.apply(other)
				if rapid.Bool().Draw(rt, "queryBetween") {
					m.apply(query(k))
				}
				m.apply(faceOp{Kind: "restore_coords", Face: k, cfgOp: cfgOp{Saved: len(m.store.saved) - 1}})
				m.apply(query(k))
			case 1: // transfer to the sibling, then move the source on
				m.apply(faceOp{Kind: "save_coords", Face: k})
				m.apply(faceOp{Kind: "restore_coords", Face: 1 - k, cfgOp: cfgOp{Saved: len(m.store.saved) - 1}})
				m.apply(query(1 - k))
				m.apply(other)
				m.apply(query(1 - k))
				m.apply(query(k))
			case 2: // a slice of the caller: set, change through another setter, set the same slice again
				if len(pf.Axes) > 0 && rapid.Bool().Draw(rt, "normalized") {
					m.apply(faceOp{Kind: "set_design_kept", Face: k, cfgOp: cfgOp{Design: drawDesign(rt, pf)}})
				} else {
					m.apply(faceOp{Kind: "set_coords_kept", Face: k, cfgOp: cfgOp{Coords: drawCoords(rt, pf)}})
				}
				m.apply(query(k))
				m.apply(other)
				m.apply(faceOp{Kind: "restore_coords", Face: rapid.IntRange(0, 1).Draw(rt, "onto"), cfgOp: cfgOp{Saved: len(m.store.saved) - 1}})
				m.apply(query(0))
				m.apply(query(1))
			default: // any slice kept so far, onto any face
				if len(m.store.saved) == 0 {
					m.apply(faceOp{Kind: "save_coords", Face: k})
					return
				}
				m.apply(faceOp{Kind: "restore_coords", Face: k, cfgOp: cfgOp{Saved: rapid.IntRange(0, len(m.store.saved)-1).Draw(rt, "saved")}})
				m.apply(query(k))
			}
		})
		weighted(actions, "burst", 1, func(rt *rapid.T) {
			// query, many settings changes in one step, the same query again (the enumerator
			// TestEnumFaceWrap walks the sizes deterministically; here they meet random histories)
			if rapid.IntRange(0, 2).Draw(rt, "doBurst") != 0 {
				x, y := drawPpem(rt)
				m.apply(faceOp{Kind: "set_ppem", Face: drawFaceIdx(rt), cfgOp: cfgOp{PpemX: x, PpemY: y}})
				return
			}
			q := faceOp{Kind: "query", Face: drawFaceIdx(rt), GIDs: hot, What: qExtents | qHAdvance | qGlyphData}
			if rapid.IntRange(0, 3).Draw(rt, "allQueries") == 0 {
				q.What = qAll
			}
			m.apply(q)
			setter, last, alt := drawSetterBurst(rt, pf)
			m.apply(faceOp{Kind: "burst", Face: q.Face, Setter: setter, N: drawBurstN(rt, len(pf.GIDs) < 300), Alt: &alt, cfgOp: last})
			m.apply(q)
		})
		rt.Repeat(actions)
		m.finish()
	})
}

// TestEnumFaceWrap walks every burst size deterministically: settings A, query, N setter calls
// ending on settings B, the same query again (extents, advances, glyph data, metrics), for each
// setter and a few variable fonts, so that the wrap-around points of any counter that stands in
// for cache invalidation are visited in every run.
func TestEnumFaceWrap(t *testing.T) {
	fonts := []string{fRvrn, fHBTestVF, fSourceSansVF, fAdobeVF, fEstedad, fMada, fCommissioner}
	setters := []string{"set_variations", "set_coords", "set_ppem", "mixed"}
	shard, nshards := ev.Shard()
	idx := 0
	for _, file := range fonts {
		pf := mustFont(t, fontRef{File: file})
		gids := pf.GIDs
		if len(gids) > 6 {
			gids = append(append([]uint32{}, gids[:3]...), gids[len(gids)/2], gids[len(gids)-2], gids[len(gids)-1])
		}
		a0 := pf.Axes[0]
		for _, setter := range setters {
			for _, n := range burstAll() {
				idx++
				if idx%nshards != shard {
					continue
				}
				m := newFaceMachine(t, pf.Ref)
				var first, last, alt cfgOp
				first.Vars = []varSetting{{Tag: a0.Tag.String(), Value: a0.Min}}
				last.Vars = []varSetting{{Tag: a0.Tag.String(), Value: a0.Max}}
				alt.Vars = []varSetting{{Tag: a0.Tag.String(), Value: a0.Def}}
				first.Coords, last.Coords, alt.Coords = make([]int16, len(pf.Axes)), make([]int16, len(pf.Axes)), make([]int16, len(pf.Axes))
				first.Coords[0], last.Coords[0], alt.Coords[0] = -16384, 16384, 8192
				first.PpemX, first.PpemY, last.PpemX, last.PpemY, alt.PpemX, alt.PpemY = 12, 12, 96, 96, 20, 16
				firstKind := setter
				if setter == "mixed" || setter == "set_ppem" {
					firstKind = "set_variations"
				}
				m.apply(faceOp{Kind: firstKind, cfgOp: first})
				if setter == "set_ppem" {
					m.apply(faceOp{Kind: "set_ppem", cfgOp: first})
				}
				q := faceOp{Kind: "query", GIDs: gids, What: qAll}
				m.apply(q)
				m.apply(faceOp{Kind: "query", Face: 1, GIDs: gids, What: qExtents}) // the sibling stays untouched
				m.apply(faceOp{Kind: "burst", Setter: setter, N: n, Alt: &alt, cfgOp: last})
				m.apply(q)
				m.apply(faceOp{Kind: "query", Face: 1, GIDs: gids, What: qExtents})
				m.finish()
				ev.Label("face:enum_wrap_cases")
			}
		}
	}
}

// TestEnumFaceRoundTrips runs the getter -> setter scenarios deterministically on every variable font
// of the pool: save/change/restore on one face, transfer to the sibling then change of the source,
// and a caller-kept slice (plain, or the result of NormalizeVariations) set again after another
// setter, each with the intermediate change made by SetVariations or by SetCoords.
func TestEnumFaceRoundTrips(t *testing.T) {
	shard, nshards := ev.Shard()
	idx := 0
	for _, file := range varPool {
		pf := mustFont(t, fontRef{File: file})
		gids := pf.GIDs
		if len(gids) > 6 {
			gids = append(append([]uint32{}, gids[:3]...), gids[len(gids)/2], gids[len(gids)-2], gids[len(gids)-1])
		}
		n := len(pf.Axes)
		mk := func(first int16, rest int16) []int16 {
			c := make([]int16, n)
			for i := range c {
				c[i] = rest
			}
			c[0] = first
			return c
		}
		vars := func(f func(a axis) float32) []varSetting {
			var out []varSetting
			for _, a := range pf.Axes {
				out = append(out, varSetting{Tag: a.Tag.String(), Value: f(a)})
			}
			return out
		}
		lo := vars(func(a axis) float32 { return a.Min })
		hi := vars(func(a axis) float32 { return a.Max })
		design := make([]float32, n)
		for i, a := range pf.Axes {
			design[i] = a.Min + (a.Max-a.Min)/4
		}
		for scenario := 0; scenario < 3; scenario++ {
			for _, firstBy := range []string{"set_variations", "set_coords", "set_coords_kept", "set_design_kept"} {
				for _, changeBy := range []string{"set_variations", "set_coords"} {
					idx++
					if idx%nshards != shard {
						continue
					}
					m := newFaceMachine(t, pf.Ref)
					q := func(k int) { m.apply(faceOp{Kind: "query", Face: k, GIDs: gids, What: qAll}) }
					m.apply(faceOp{Kind: firstBy, cfgOp: cfgOp{Vars: lo, Coords: mk(-16384, 8192), Design: design}})
					if firstBy == "set_variations" {
						m.apply(faceOp{Kind: firstBy, cfgOp: cfgOp{Vars: lo}}) // the second call on a face that has coordinates
					}
					q(0)
					change := faceOp{Kind: changeBy, cfgOp: cfgOp{Vars: hi, Coords: mk(16384, -8192)}}
					switch scenario {
					case 0:
						m.apply(faceOp{Kind: "save_coords"})
						m.apply(change)
						q(0)
						m.apply(faceOp{Kind: "restore_coords", cfgOp: cfgOp{Saved: len(m.store.saved) - 1}})
						q(0)
					case 1:
						m.apply(faceOp{Kind: "save_coords"})
						m.apply(faceOp{Kind: "restore_coords", Face: 1, cfgOp: cfgOp{Saved: len(m.store.saved) - 1}})
						q(1)
						m.apply(change)
						q(1)
						q(0)
					default:
						if len(m.store.saved) == 0 {
							m.apply(faceOp{Kind: "save_coords"})
						}
						m.apply(change)
						m.apply(faceOp{Kind: "restore_coords", cfgOp: cfgOp{Saved: 0}})
						q(0)
						m.apply(change)
						m.apply(faceOp{Kind: "restore_coords", Face: 1, cfgOp: cfgOp{Saved: 0}})
						q(1)
						q(0)
					}
					m.finish()
					ev.Label("face:enum_round_trip_cases")
				}
			}
		}
	}
}

func replayFace(t *testing.T, raw json.RawMessage) {
	var c faceCase
	if err := json.Unmarshal(raw, &c); err != nil {
		t.Fatalf("infrastructure: %v", err)
	}
	m := newFaceMachine(t, c.Font)
	for _, op := range c.Ops {
		m.apply(op)
	}
}
