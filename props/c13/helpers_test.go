// Package c13 decides property C13: reusable objects never leak state between uses.
//
// One rapid state machine per reusable type (shaping.HarfbuzzShaper, harfbuzz.Buffer, font.Face,
// shaping.Segmenter, shaping.LineWrapper, segmenter.Segmenter). The oracle is always the same: a
// FRESHLY CONSTRUCTED object given only the arguments of the current call ("used ≡ fresh"), plus
// deep copies of earlier results re-compared until their documented invalidation point.
//
// Every history is recorded decoded (font paths, coords, texts as rune ints, parameters) while it
// is executed; the same apply() functions are driven by rapid (TestProp*) and by TestReplay.
package c13

import (
	"encoding/json"
	"fmt"
	"math"
	"reflect"
	"runtime/debug"
	"sort"
	"strings"
	"sync"
	"testing"

	"github.com/go-text/typesetting/font"
	ot "github.com/go-text/typesetting/font/opentype"
	"github.com/go-text/typesetting/font/opentype/tables"
	"github.com/go-text/typesetting/language"
	"pgregory.net/rapid"

	"verif/internal/corpus"
	"verif/internal/ev"
	"verif/internal/synthfont"
	"verif/internal/textgen"
)

func TestMain(m *testing.M) { ev.Main(m) }

// ---------------------------------------------------------------------------------------------
// font pool

type fontRef struct {
	File  string `json:"file"`  // corpus-relative path
	Index int    `json:"index"` // face index in the file
}

func (r fontRef) key() string { return fmt.Sprintf("%s#%d", r.File, r.Index) }

// synthPrefix starts the File of a generated font: "synth:" + JSON of the synthfont.Spec.
const synthPrefix = "synth:"

func synthRef(sp synthfont.Spec) fontRef {
	b, _ := json.Marshal(sp)
	return fontRef{File: synthPrefix + string(b)}
}

type axis struct {
	Tag           ot.Tag
	Min, Def, Max float32
}

// poolFont is one parsed font of the corpus. Font (and Shared) are shared by every history of the
// process and are never modified: histories create their own faces with font.NewFace(Font).
type poolFont struct {
	Ref     fontRef
	Font    *font.Font
	Shared  *font.Face // the corpus face, never reconfigured
	Axes    []axis
	Scripts []string // textgen alphabets worth trying with this font
	Runes   []rune   // sorted sample of mapped runes
	GIDs    []uint32 // glyphs of Runes (sorted, deduplicated) plus 0
	// Features are the distinct feature tags of the font's GSUB and GPOS, those selecting among
	// alternates (aalt, salt, ssXX, cvXX, the "test" feature of the aots fonts ...) first.
	Features []string
}

const (
	fCommissioner = "opentype/common/Commissioner-VF.ttf"
	fRvrn         = "harfbuzz/harfbuzz_reference/in-house/fonts/d23d76ea0909c14972796937ba072b5a40c1e257.ttf"
	fAdobeVF      = "harfbuzz/harfbuzz_reference/text-rendering-tests/fonts/AdobeVFPrototype-Subset.otf"
	fEstedad      = "opentype/common/Estedad-VF.ttf"
	fMada         = "opentype/common/Mada-VF.ttf"
	fGPOSFour     = "harfbuzz/harfbuzz_reference/text-rendering-tests/fonts/TestGPOSFour.ttf"
	fSourceSansVF = "opentype/common/SourceSans-VF.ttf"
	fCFF2VF       = "opentype/toys/CFF2-VF.otf"
	fHBTestVF     = "harfbuzz/harfbuzz_reference/in-house/fonts/HBTest-VF.ttf"

	fAmiri      = "harfbuzz/perf_reference/fonts/Amiri-Regular.ttf"
	fDevanagari = "harfbuzz/perf_reference/fonts/NotoSansDevanagari-Regular.ttf"
	fRoboto     = "harfbuzz/perf_reference/fonts/Roboto-Regular.ttf"
	fDejaVu     = "opentype/common/DejaVuSans.ttf"
	fRaleway    = "opentype/common/Raleway-v4020-Regular.otf"
	fMplus      = "opentype/common/mplus-1p-regular.ttf"

	// AlternateSubst lookups behind the feature "test" (values 1, 2, 3 select different glyphs)
	fAlt1 = "harfbuzz/harfbuzz_reference/aots/fonts/gsub3_1_lookupflag_f1.otf"
	fAlt2 = "harfbuzz/harfbuzz_reference/aots/fonts/gsub3_1_simple_f1.otf"
	fAlt3 = "harfbuzz/harfbuzz_reference/aots/fonts/gsub3_1_multiple_f1.otf"

	fKacst = "opentype/toys/KacstQurn.ttf"
	fSbix1 = "opentype/toys/Sbix1.ttf"
	fCBLC1 = "opentype/toys/CBLC1.ttf"
)

// scripts (textgen alphabets) per pool font; fonts not listed get "latin".
var fontScripts = map[string][]string{
	fCommissioner: {"latin", "greek", "cyrillic"},
	fEstedad:      {"arabic", "latin"},
	fMada:         {"arabic", "latin"},
	fGPOSFour:     {"arabic"},
	fAmiri:        {"arabic", "latin"},
	fDevanagari:   {"devanagari"},
	fRoboto:       {"latin", "greek", "cyrillic"},
	fDejaVu:       {"latin", "arabic", "hebrew", "greek"},
	fMplus:        {"cjk", "latin"},
	fKacst:        {"arabic"},
}

var (
	// variable fonts: the first two have GSUB FeatureVariations ('rvrn'), so does fAdobeVF/fCFF2VF;
	// the others vary advances (HVAR or gvar phantoms), extents and GPOS anchors.
	varPool    = []string{fCommissioner, fRvrn, fAdobeVF, fEstedad, fMada, fGPOSFour, fSourceSansVF, fCFF2VF, fHBTestVF}
	staticPool = []string{fAmiri, fDevanagari, fRoboto, fDejaVu, fRaleway, fMplus}
	bitmapPool = []string{fKacst, fSbix1, fCBLC1}
	altPool    = []string{fAlt1, fAlt2, fAlt3}
)

var (
	poolMu sync.Mutex
	pool   = map[string]*poolFont{}
)

// loadFont parses (once) a corpus font and derives what the generators need from it.
func loadFont(ref fontRef) (*poolFont, error) {
	poolMu.Lock()
	defer poolMu.Unlock()
	if pf, ok := pool[ref.key()]; ok {
		return pf, nil
	}
	var faces []*font.Face
	var err error
	if strings.HasPrefix(ref.File, synthPrefix) {
		// a generated font (internal/synthfont): the Spec is the rest of the name, as JSON
		var sp synthfont.Spec
		if err = json.Unmarshal([]byte(strings.TrimPrefix(ref.File, synthPrefix)), &sp); err != nil {
			return nil, fmt.Errorf("bad synthetic font name %q: %v", ref.File, err)
		}
		f, err := synthfont.Face(sp)
		if err != nil {
			return nil, err
		}
		faces = []*font.Face{f}
	} else if faces, err = corpus.Faces(ref.File); err != nil {
		return nil, fmt.Errorf("loading %s: %v", ref.File, err)
	}
	if ref.Index < 0 || ref.Index >= len(faces) {
		return nil, fmt.Errorf("%s has no face %d", ref.File, ref.Index)
	}
	pf := &poolFont{Ref: ref, Font: faces[ref.Index].Font, Shared: faces[ref.Index]}
	// axes: the font package has no accessor, read fvar directly
	if strings.HasPrefix(ref.File, synthPrefix) {
		// no fvar in generated fonts
	} else if lds, err := corpus.Loaders(ref.File); err == nil && ref.Index < len(lds) {
		if raw, err := lds[ref.Index].RawTable(ot.MustNewTag("fvar")); err == nil {
			if fv, _, err := tables.ParseFvar(raw); err == nil {
				for _, a := range fv.FvarRecords.Axis {
					pf.Axes = append(pf.Axes, axis{Tag: a.Tag, Min: a.Minimum, Def: a.Default, Max: a.Maximum})
				}
			}
		}
	}
	pf.Scripts = fontScripts[ref.File]
	if len(pf.Scripts) == 0 {
		pf.Scripts = []string{"latin"}
	}
	pf.Runes = textgen.FontRunes(pf.Font, 400)
	seen := map[uint32]bool{0: true}
	pf.GIDs = []uint32{0}
	for _, r := range pf.Runes {
		if g, ok := pf.Font.NominalGlyph(r); ok && !seen[uint32(g)] {
			seen[uint32(g)] = true
			pf.GIDs = append(pf.GIDs, uint32(g))
		}
	}
	sort.Slice(pf.GIDs, func(i, j int) bool { return pf.GIDs[i] < pf.GIDs[j] })
	seenTag := map[string]bool{}
	var alternates, others []string
	for _, l := range []font.Layout{pf.Font.GSUB.Layout, pf.Font.GPOS.Layout} {
		for _, f := range l.Features {
			tg := f.Tag.String()
			if seenTag[tg] {
				continue
			}
			seenTag[tg] = true
			if tg == "aalt" || tg == "salt" || tg == "test" || tg == "swsh" || tg == "nalt" || strings.HasPrefix(tg, "ss") || strings.HasPrefix(tg, "cv") {
				alternates = append(alternates, tg)
			} else {
				others = append(others, tg)
			}
		}
	}
	sort.Strings(alternates)
	sort.Strings(others)
	pf.Features = append(alternates, others...)
	if len(pf.Features) > 24 {
		pf.Features = pf.Features[:24]
	}
	pool[ref.key()] = pf
	return pf, nil
}

func mustFont(t ev.TB, ref fontRef) *poolFont {
	pf, err := loadFont(ref)
	if err != nil {
		t.Fatalf("infrastructure: %v", err)
	}
	return pf
}

// ---------------------------------------------------------------------------------------------
// face configuration (the model of the user-visible settings of a font.Face)

type varSetting struct {
	Tag   string  `json:"tag"`
	Value float32 `json:"value"`
}

// faceCfg is what the user last asked of a face. A fresh face given the same settings is
// font.NewFace(font) followed by the same setter calls.
type faceCfg struct {
	Mode    string       `json:"mode,omitempty"`   // "" never set | "variations" | "coords" | "design"
	Vars    []varSetting `json:"vars,omitempty"`   // SetVariations
	Coords  []int16      `json:"coords,omitempty"` // SetCoords (normalized 2.14)
	Design  []float32    `json:"design,omitempty"` // harfbuzz.Font.SetVarCoordsDesign = SetCoords(NormalizeVariations(design))
	PpemSet bool         `json:"ppem_set,omitempty"`
	PpemX   uint16       `json:"ppem_x,omitempty"`
	PpemY   uint16       `json:"ppem_y,omitempty"`
}

func (c faceCfg) key() string {
	b, _ := json.Marshal(c)
	return string(b)
}

func toVariations(vs []varSetting) []font.Variation {
	if len(vs) == 0 {
		return nil
	}
	out := make([]font.Variation, len(vs))
	for i, v := range vs {
		out[i] = font.Variation{Tag: mustTag(v.Tag), Value: v.Value}
	}
	return out
}

func mustTag(s string) ot.Tag {
	b := []byte(s + "    ")
	return ot.NewTag(b[0], b[1], b[2], b[3])
}

func toCoords(cs []int16) []tables.Coord {
	if len(cs) == 0 {
		return nil
	}
	out := make([]tables.Coord, len(cs)) // a private copy: SetCoords keeps the slice
	for i, c := range cs {
		out[i] = tables.Coord(c)
	}
	return out
}

// applyVar calls the variation setter recorded in the configuration.
func (c faceCfg) applyVar(f *font.Face) {
	switch c.Mode {
	case "variations":
		f.SetVariations(toVariations(c.Vars))
	case "coords":
		f.SetCoords(toCoords(c.Coords))
	case "design":
		f.SetCoords(f.NormalizeVariations(append([]float32(nil), c.Design...)))
	}
}

func (c faceCfg) apply(f *font.Face) {
	c.applyVar(f)
	if c.PpemSet {
		f.SetPpem(c.PpemX, c.PpemY)
	}
}

// freshFace is "a fresh face with the same current settings".
func freshFace(pf *poolFont, c faceCfg) *font.Face {
	f := font.NewFace(pf.Font)
	c.apply(f)
	return f
}

// cfgOp is a face reconfiguration step shared by the shaper, buffer and face machines.
type cfgOp struct {
	Vars   []varSetting `json:"vars,omitempty"`
	Coords []int16      `json:"coords,omitempty"`
	Design []float32    `json:"design,omitempty"`
	PpemX  uint16       `json:"ppem_x,omitempty"`
	PpemY  uint16       `json:"ppem_y,omitempty"`
	// round trips: index into the slices kept by the case (restore_coords)
	Saved int `json:"saved,omitempty"`
	// the caller overwrites the slices it passed (variations, text, features) right after the call
	// returned: only an object that kept a reference can notice
	MutateAfter bool `json:"mutate_after,omitempty"`
}

// Values that flow OUT of an object and INTO the same or another one. The case keeps the very
// slices it read from a face (Coords, NormalizeVariations) or passed to it (SetCoords), together
// with a copy of their values at that time, and later feeds the same slice objects to SetCoords of
// the same face (save and restore) or of a sibling face (transfer). The model - and so the fresh
// face of the oracle - is configured from the VALUES. Coordinates are treated as immutable values
// shared by reference, which is how the library treats them (SetCoords keeps the slice, Coords
// returns it "read-only"): the case never writes into such a slice, and nothing is claimed about
// the content of a slice obtained earlier, only about results.
type savedCoords struct {
	s    []tables.Coord
	vals []int16
}

type coordsStore struct{ saved []savedCoords }

func (cs *coordsStore) keep(s []tables.Coord) {
	vals := make([]int16, len(s))
	for i, c := range s {
		vals[i] = int16(c)
	}
	cs.saved = append(cs.saved, savedCoords{s: s, vals: vals})
}

// apply performs a round-trip op; it reports whether kind was one and an error for a replayed
// case that does not fit.
func (cs *coordsStore) apply(kind string, o cfgOp, f *font.Face, c *faceCfg, nAxes int) (bool, error) {
	switch kind {
	case "save_coords":
		cs.keep(f.Coords())
	case "restore_coords":
		if o.Saved < 0 || o.Saved >= len(cs.saved) {
			return true, fmt.Errorf("restore_coords: no saved slice %d", o.Saved)
		}
		sv := cs.saved[o.Saved]
		c.Mode, c.Vars, c.Design = "coords", nil, nil
		c.Coords = append([]int16(nil), sv.vals...)
		f.SetCoords(sv.s)
	case "set_coords_kept":
		if len(o.Coords) != 0 && len(o.Coords) != nAxes {
			return true, fmt.Errorf("coords of the wrong length")
		}
		s := toCoords(o.Coords)
		cs.keep(s)
		c.Mode, c.Vars, c.Coords, c.Design = "coords", nil, o.Coords, nil
		f.SetCoords(s)
	case "set_design_kept":
		if len(o.Design) != nAxes {
			return true, fmt.Errorf("design coords of the wrong length")
		}
		s := f.NormalizeVariations(append([]float32(nil), o.Design...))
		cs.keep(s)
		c.Mode, c.Vars, c.Coords, c.Design = "design", nil, nil, o.Design
		f.SetCoords(s)
	default:
		return false, nil
	}
	return true, nil
}

var roundTripKinds = map[string]bool{"save_coords": true, "restore_coords": true, "set_coords_kept": true, "set_design_kept": true}

// applyCfgOp performs the setter named by kind on the used face and updates the model.
func applyCfgOp(kind string, o cfgOp, f *font.Face, c *faceCfg) {
	switch kind {
	case "set_variations":
		c.Mode, c.Vars, c.Coords, c.Design = "variations", o.Vars, nil, nil
		vs := toVariations(o.Vars)
		f.SetVariations(vs)
		if o.MutateAfter {
			for i := range vs {
				vs[i] = font.Variation{Tag: mustTag("zzzz"), Value: -12345}
			}
		}
	case "set_coords":
		c.Mode, c.Vars, c.Coords, c.Design = "coords", nil, o.Coords, nil
		f.SetCoords(toCoords(o.Coords))
	case "set_ppem":
		c.PpemSet, c.PpemX, c.PpemY = true, o.PpemX, o.PpemY
		f.SetPpem(o.PpemX, o.PpemY)
	}
}

// ---- generators of configurations

func drawAxisValue(t *rapid.T, a axis) float32 {
	switch rapid.IntRange(0, 7).Draw(t, "axisValueKind") {
	case 0:
		return a.Min
	case 1:
		return a.Max
	case 2:
		return a.Def
	case 3:
		return a.Min + (a.Def-a.Min)/2
	case 4:
		return a.Def + (a.Max-a.Def)/2
	case 5:
		return a.Max + 100 // out of range: documented clamping
	default:
		// a value on a grid of 32 steps over the axis range
		k := rapid.IntRange(0, 32).Draw(t, "axisStep")
		return a.Min + (a.Max-a.Min)*float32(k)/32
	}
}

func drawVars(t *rapid.T, pf *poolFont) []varSetting {
	if len(pf.Axes) == 0 {
		if rapid.IntRange(0, 3).Draw(t, "bogusVar") == 0 {
			return []varSetting{{Tag: "wght", Value: 700}} // not a variable font: must be a no-op
		}
		return nil
	}
	if rapid.IntRange(0, 9).Draw(t, "emptyVars") == 0 {
		return nil // documented: removes the coordinates
	}
	var out []varSetting
	for _, a := range pf.Axes {
		if len(out) == 0 || rapid.IntRange(0, 2).Draw(t, "moreAxes") == 0 {
			out = append(out, varSetting{Tag: a.Tag.String(), Value: drawAxisValue(t, a)})
		}
	}
	return out
}

func drawCoords(t *rapid.T, pf *poolFont) []int16 {
	if len(pf.Axes) == 0 || rapid.IntRange(0, 9).Draw(t, "nilCoords") == 0 {
		return nil
	}
	out := make([]int16, len(pf.Axes))
	for i := range out {
		if i > 0 && rapid.IntRange(0, 1).Draw(t, "zeroCoord") == 0 {
			continue
		}
		out[i] = rapid.SampledFrom([]int16{-16384, -8192, 0, 4096, 8192, 12000, 16384}).Draw(t, "coord")
	}
	return out
}

func drawDesign(t *rapid.T, pf *poolFont) []float32 {
	out := make([]float32, len(pf.Axes))
	for i, a := range pf.Axes {
		out[i] = a.Def
		if i == 0 || rapid.IntRange(0, 2).Draw(t, "moreAxes") == 0 {
			out[i] = drawAxisValue(t, a)
		}
	}
	return out
}

func drawPpem(t *rapid.T) (x, y uint16) {
	x = rapid.SampledFrom([]uint16{0, 8, 12, 13, 16, 20, 32, 96, 109, 136, 300}).Draw(t, "ppemX")
	y = x
	if rapid.IntRange(0, 4).Draw(t, "ppemAniso") == 0 {
		y = rapid.SampledFrom([]uint16{0, 9, 16, 64, 128}).Draw(t, "ppemY")
	}
	return x, y
}

// drawInitialCfg gives a face its settings at the start of a history.
func drawInitialCfg(t *rapid.T, pf *poolFont) faceCfg {
	var c faceCfg
	if len(pf.Axes) != 0 {
		switch rapid.IntRange(0, 5).Draw(t, "initCfg") {
		case 0: // untouched
		case 1:
			c.Mode, c.Coords = "coords", drawCoords(t, pf)
		default:
			c.Mode, c.Vars = "variations", drawVars(t, pf)
		}
	}
	if rapid.IntRange(0, 5).Draw(t, "initPpem") == 0 {
		c.PpemSet = true
		c.PpemX, c.PpemY = drawPpem(t)
	}
	return c
}

// ---------------------------------------------------------------------------------------------
// text

// drawText draws a text suited to the font: textgen's mixture biased to the font's scripts and
// mapped runes, or (often for the tiny test fonts) only mapped runes.
func drawText(t *rapid.T, pf *poolFont, maxLen int) []rune {
	onlyMapped := 2
	if len(pf.Runes) > 0 && len(pf.Runes) < 64 {
		onlyMapped = 6
	}
	if len(pf.Runes) > 0 && rapid.IntRange(0, 9).Draw(t, "textKind") < onlyMapped {
		n := rapid.IntRange(1, 6).Draw(t, "len")
		out := make([]rune, n)
		for i := range out {
			out[i] = rapid.SampledFrom(pf.Runes).Draw(t, "fontrune")
		}
		return out
	}
	return textgen.Text(t, textgen.Opts{MaxLen: maxLen, FontPool: pf.Runes, Scripts: pf.Scripts, Hostile: 6})
}

// scriptOf returns the first strong script of the text (Common if none).
func scriptOf(text []rune) language.Script {
	for _, r := range text {
		if s := language.LookupScript(r); s.Strong() && s != language.Unknown {
			return s
		}
	}
	return language.Common
}

func parseScript(s string) language.Script {
	if s == "" {
		return 0
	}
	sc, err := language.ParseScript(s)
	if err != nil {
		return language.Common
	}
	return sc
}

var rtlScripts = map[language.Script]bool{language.Arabic: true, language.Hebrew: true, language.Syriac: true, language.Nko: true}

// ---------------------------------------------------------------------------------------------
// comparison

var faceType = reflect.TypeOf((*font.Face)(nil))

// firstDiff returns "" when a and b are the same value, else a description of the first
// difference. Floats are compared by bits (NaN equals itself), *font.Face by identity, other
// pointers, slices and interfaces deeply; nil and empty slices are the same.
func firstDiff(a, b any) string {
	va, vb := reflect.ValueOf(a), reflect.ValueOf(b)
	// first pass without building the paths (almost every comparison finds no difference)
	pathsWanted = false
	if diffValue(va, vb, "") == "" {
		return ""
	}
	pathsWanted = true
	d := diffValue(va, vb, "")
	pathsWanted = false
	return d
}

// pathsWanted tells diffValue to build the path of the elements it visits (single goroutine).
var pathsWanted bool

func sub(path string, format string, arg any) string {
	if !pathsWanted {
		return ""
	}
	return path + fmt.Sprintf(format, arg)
}

func diffValue(a, b reflect.Value, path string) string {
	if a.IsValid() != b.IsValid() {
		return fmt.Sprintf("%s: one side is nil", path)
	}
	if !a.IsValid() {
		return ""
	}
	if a.Type() != b.Type() {
		return fmt.Sprintf("%s: type %s vs %s", path, a.Type(), b.Type())
	}
	switch a.Kind() {
	case reflect.Float32, reflect.Float64:
		if math.Float64bits(a.Float()) != math.Float64bits(b.Float()) {
			return fmt.Sprintf("%s: %v vs %v", path, a.Float(), b.Float())
		}
	case reflect.Ptr:
		if a.Type() == faceType {
			if a.Pointer() != b.Pointer() {
				return fmt.Sprintf("%s: different *font.Face (%#x vs %#x)", path, a.Pointer(), b.Pointer())
			}
			return ""
		}
		if a.IsNil() || b.IsNil() {
			if a.IsNil() != b.IsNil() {
				return fmt.Sprintf("%s: nil vs non-nil pointer", path)
			}
			return ""
		}
		return diffValue(a.Elem(), b.Elem(), path)
	case reflect.Interface:
		if a.IsNil() || b.IsNil() {
			if a.IsNil() != b.IsNil() {
				return fmt.Sprintf("%s: nil vs non-nil interface", path)
			}
			return ""
		}
		return diffValue(a.Elem(), b.Elem(), path)
	case reflect.Slice, reflect.Array:
		if a.Len() != b.Len() {
			return fmt.Sprintf("%s: length %d vs %d", path, a.Len(), b.Len())
		}
		for i := 0; i < a.Len(); i++ {
			if d := diffValue(a.Index(i), b.Index(i), sub(path, "[%d]", i)); d != "" {
				return d
			}
		}
	case reflect.Struct:
		for i := 0; i < a.NumField(); i++ {
			if d := diffValue(a.Field(i), b.Field(i), fieldPath(path, a, i)); d != "" {
				return d
			}
		}
	case reflect.Bool:
		if a.Bool() != b.Bool() {
			return fmt.Sprintf("%s: %v vs %v", path, a.Bool(), b.Bool())
		}
	case reflect.Int, reflect.Int8, reflect.Int16, reflect.Int32, reflect.Int64:
		if a.Int() != b.Int() {
			return fmt.Sprintf("%s: %d vs %d", path, a.Int(), b.Int())
		}
	case reflect.Uint, reflect.Uint8, reflect.Uint16, reflect.Uint32, reflect.Uint64, reflect.Uintptr:
		if a.Uint() != b.Uint() {
			return fmt.Sprintf("%s: %d vs %d", path, a.Uint(), b.Uint())
		}
	case reflect.String:
		if a.String() != b.String() {
			return fmt.Sprintf("%s: %q vs %q", path, a.String(), b.String())
		}
	case reflect.Map:
		if a.Len() != b.Len() {
			return fmt.Sprintf("%s: map length %d vs %d", path, a.Len(), b.Len())
		}
		for _, k := range a.MapKeys() {
			bv := b.MapIndex(k)
			if !bv.IsValid() {
				return fmt.Sprintf("%s: key %v missing", path, k)
			}
			if d := diffValue(a.MapIndex(k), bv, sub(path, "[%v]", k)); d != "" {
				return d
			}
		}
	default:
		return fmt.Sprintf("%s: cannot compare kind %s", path, a.Kind())
	}
	return ""
}

// try runs f and returns the recovered panic (with a short stack) or nil.
func try(f func()) (p any) {
	defer func() {
		if r := recover(); r != nil {
			st := strings.Split(string(debug.Stack()), "\n")
			// keep the frames of the library only
			var keep []string
			for _, l := range st {
				if strings.Contains(l, "/typesetting/") && len(keep) < 6 {
					keep = append(keep, strings.TrimSpace(l))
				}
			}
			p = fmt.Sprintf("%v [%s]", r, strings.Join(keep, " < "))
		}
	}()
	f()
	return nil
}

func copyRunes(r []rune) []rune { return append([]rune(nil), r...) }

func sameRunes(a, b []rune) bool {
	if len(a) != len(b) {
		return false
	}
	for i := range a {
		if a[i] != b[i] {
			return false
		}
	}
	return true
}

// histKey identifies a history for distinct counting.
func histKey(check string, c any) string {
	b, _ := json.Marshal(c)
	return check + ":" + string(b)
}

// weighted registers the same action under several keys (t.Repeat draws keys uniformly).
func weighted(actions map[string]func(*rapid.T), name string, weight int, f func(*rapid.T)) {
	for i := 0; i < weight; i++ {
		actions[fmt.Sprintf("%s_%d", name, i)] = f
	}
}

// ---------------------------------------------------------------------------------------------
// long histories: bursts

// burstSizes are the repetition counts of the "burst" operations: small ones and the
// neighbourhoods of 2^8, 2*2^8, 2^10 and 2^16, where a generation / use counter kept in a small
// integer wraps around (a counter that skips 0 has period 2^k-1, hence the -1 values).
var (
	burstSmall = []int{1, 2, 3, 4, 5, 6, 7, 8, 9, 10, 11, 12, 13, 14, 15, 16, 17, 18, 19, 20}
	burstByte  = []int{254, 255, 256, 257, 510, 511, 512}
	burstKilo  = []int{1023, 1024, 1025}
	burstWord  = []int{65535, 65536, 65537}
)

// burstAll lists every size (the enumerators walk it).
func burstAll() []int {
	var out []int
	out = append(out, burstSmall...)
	out = append(out, burstByte...)
	out = append(out, burstKilo...)
	return append(out, burstWord...)
}

// drawBurstN draws a repetition count; cheap tells whether 2^16 repetitions of the operation are
// affordable (then drawn rarely in the quick tier, more often in the thorough tier).
func drawBurstN(t *rapid.T, cheap bool) int {
	k := rapid.IntRange(0, 99).Draw(t, "burstClass")
	word := 1
	if ev.Thorough() {
		word = 6
	}
	switch {
	case cheap && k < word:
		return rapid.SampledFrom(burstWord).Draw(t, "burstN")
	case k < 30:
		return rapid.SampledFrom(burstSmall).Draw(t, "burstN")
	case k < 85:
		return rapid.SampledFrom(burstByte).Draw(t, "burstN")
	default:
		return rapid.SampledFrom(burstKilo).Draw(t, "burstN")
	}
}

func burstLabel(n int) string {
	switch {
	case n >= 65535:
		return "burst_2^16"
	case n >= 1023:
		return "burst_2^10"
	case n >= 254:
		return "burst_2^8"
	}
	return "burst_small"
}

// ---------------------------------------------------------------------------------------------
// feature lists

// drawFeatureTag prefers the features the font really has.
func drawFeatureTag(t *rapid.T, pf *poolFont) string {
	if len(pf.Features) > 0 && rapid.IntRange(0, 9).Draw(t, "ownFeature") < 7 {
		// the first entries are the alternate-selecting features
		if n := len(pf.Features); n > 4 && rapid.Bool().Draw(t, "firstFeatures") {
			return pf.Features[rapid.IntRange(0, 3).Draw(t, "featureIdx")]
		}
		return rapid.SampledFrom(pf.Features).Draw(t, "feature")
	}
	return rapid.SampledFrom(shaperFeatures).Draw(t, "feature")
}

var featureValues = []uint32{0, 1, 1, 2, 3}

func fieldPath(path string, v reflect.Value, i int) string {
	if !pathsWanted {
		return ""
	}
	return path + "." + v.Type().Field(i).Name
}
