package c13

import (
	"fmt"
	"os"
	"testing"

	ot "github.com/go-text/typesetting/font/opentype"
	"verif/internal/corpus"
)

func TestScan(t *testing.T) {
	for _, f := range corpus.All() {
		tr := corpus.TraitsOf(f.File, f.Index)
		st, _ := os.Stat(corpus.Abs(f.File))
		fv := len(f.Face.Font.GSUB.FeatureVariations)
		pv := len(f.Face.Font.GPOS.FeatureVariations)
		bs := len(f.Face.Font.BitmapSizes())
		if tr.Fvar || bs > 0 || fv > 0 || pv > 0 {
			lds, _ := corpus.Loaders(f.File)
			ld := lds[f.Index]
			fmt.Printf("%s#%d size=%d fvar=%v gsubFV=%d gposFV=%d bitmapSizes=%d HVAR=%v gvar=%v CFF2=%v MVAR=%v avar=%v sbix=%v\n", f.File, f.Index, st.Size(), tr.Fvar, fv, pv, bs,
				ld.HasTable(tag("HVAR")), ld.HasTable(tag("gvar")), tr.CFF2, ld.HasTable(tag("MVAR")), ld.HasTable(tag("avar")), ld.HasTable(tag("sbix")))
		}
	}
}

func tag(s string) ot.Tag { return ot.MustNewTag(s) }
