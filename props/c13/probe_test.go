package c13

import (
	"fmt"
	"testing"

	"github.com/go-text/typesetting/di"
	"github.com/go-text/typesetting/font"
	ot "github.com/go-text/typesetting/font/opentype"
	"github.com/go-text/typesetting/harfbuzz"
	"github.com/go-text/typesetting/language"
	"github.com/go-text/typesetting/shaping"
	"golang.org/x/image/math/fixed"

	"verif/internal/corpus"
)

func TestProbe(t *testing.T) {
	const rv = "harfbuzz/harfbuzz_reference/in-house/fonts/d23d76ea0909c14972796937ba072b5a40c1e257.ttf"
	fs, err := corpus.Faces(rv)
	if err != nil {
		t.Fatal(err)
	}
	fnt := fs[0].Font
	f1 := font.NewFace(fnt)
	f2 := font.NewFace(fnt)
	f2.SetVariations([]font.Variation{{Tag: ot.MustNewTag("FVTT"), Value: 900}})
	in := func(f *font.Face) shaping.Input {
		return shaping.Input{Text: []rune("r"), RunEnd: 1, Direction: di.DirectionLTR, Face: f, Size: fixed.I(1000), Script: language.Latin, Language: "en"}
	}
	var sh shaping.HarfbuzzShaper
	sh.SetFontCacheSize(2)
	o1 := sh.Shape(in(f1))
	o2 := sh.Shape(in(f2))
	var fr shaping.HarfbuzzShaper
	o2f := fr.Shape(in(f2))
	fmt.Println("used f1", o1.Glyphs[0].GlyphID, o1.Advance, "used f2", o2.Glyphs[0].GlyphID, o2.Advance, "fresh f2", o2f.Glyphs[0].GlyphID, o2f.Advance)

	// plan cache
	buf := harfbuzz.NewBuffer()
	face := font.NewFace(fnt)
	hf := harfbuzz.NewFont(face)
	shape := func(b *harfbuzz.Buffer) string {
		b.Clear()
		b.AddRunes([]rune("r"), 0, -1)
		b.Props = harfbuzz.SegmentProperties{Direction: harfbuzz.LeftToRight, Script: language.Latin, Language: "en"}
		b.Shape(hf, nil)
		return fmt.Sprint(b.Info[0].Glyph, b.Pos[0].XAdvance)
	}
	a := shape(buf)
	face.SetVariations([]font.Variation{{Tag: ot.MustNewTag("FVTT"), Value: 900}})
	b := shape(buf)
	c := shape(harfbuzz.NewBuffer())
	fmt.Println("default", a, "used after SetCoords", b, "fresh", c)
}
