package c13

import (
	"encoding/json"
	"os"
	"path/filepath"
	"sort"
	"strings"
	"testing"

	"verif/internal/ev"
)

// TestReplay re-runs saved histories (fail-file format) through the same apply functions as the
// rapid state machines, without rapid.
func TestReplay(t *testing.T) {
	var files []string
	if p := ev.ReplayPath(); p != "" {
		files = []string{p}
	} else if d := os.Getenv("VERIF_REPLAY_DIR"); d != "" {
		es, _ := os.ReadDir(d)
		for _, e := range es {
			if strings.HasSuffix(e.Name(), ".json") {
				files = append(files, filepath.Join(d, e.Name()))
			}
		}
		sort.Strings(files)
	}
	for _, f := range files {
		check, raw, err := ev.LoadReplay(f)
		if err != nil {
			t.Fatalf("infrastructure: cannot load %s: %v", f, err)
		}
		replayOne(t, check, raw)
		ev.Case(false, nil, "replay:"+check)
	}
}

func replayOne(t *testing.T, check string, raw json.RawMessage) {
	switch check {
	case "shaper":
		replayShaper(t, raw)
	case "buffer":
		replayBuffer(t, raw)
	case "face":
		replayFace(t, raw)
	case "split":
		replaySplit(t, raw)
	case "wrap":
		replayWrap(t, raw)
	case "seginit":
		replaySegInit(t, raw)
	default:
		t.Fatalf("infrastructure: unknown check %q in replay file", check)
	}
}
