package c13

import (
	"encoding/json"
	"testing"

	"github.com/go-text/typesetting/segmenter"
	"pgregory.net/rapid"

	"verif/internal/ev"
)

// ---------------------------------------------------------------------------------------------
// segmenter.Segmenter state machine
//
// Ops: Init(text); advancing the line / grapheme / word iterators obtained after the latest Init
// (several live at once, interleaved); restarting an iterator; and calling Next on iterators
// obtained from EARLIER Inits, which stay alive. Nothing is claimed about what a stale iterator
// returns (no documented contract): only that it cannot disturb the current ones.
// Oracle: the sequence delivered by each current iterator equals the sequence a zero-value
// Segmenter delivers after Init with the same text; segments already returned (their Text aliases
// the segmenter's storage) keep their content until the next Init.

type segOp struct {
	// init | next | restart | stale |
	// burst_init: N-1 uncompared Init calls alternating between AltText and Text, then Init(Text) as "init"
	Kind    string `json:"kind"`
	Text    []rune `json:"text,omitempty"`
	AltText []rune `json:"alt_text,omitempty"`
	Iter string `json:"iter,omitempty"` // line | grapheme | word
	N    int    `json:"n,omitempty"`
}

type segCase struct {
	Ops []segOp `json:"ops"`
}

type segRec struct {
	Offset    int
	Text      []rune
	Mandatory bool
}

type nexter interface{ Next() bool }

type liveIter struct {
	kind string
	it   nexter
	pos  int // number of segments delivered
	done bool
}

type returned struct {
	kind string
	text []rune // as returned (aliases the segmenter)
	cpy  []rune
}

type segMachine struct {
	t    ev.TB
	c    *segCase
	used *segmenter.Segmenter

	text     []rune
	expected map[string][]segRec
	live     map[string]*liveIter
	stale    []nexter
	given    []returned

	inits, nexts int
	flags        map[string]bool
}

func newSegMachine(t ev.TB) *segMachine {
	return &segMachine{t: t, c: &segCase{}, used: &segmenter.Segmenter{}, expected: map[string][]segRec{}, live: map[string]*liveIter{}, flags: map[string]bool{}}
}

func (m *segMachine) fail(format string, args ...any) {
	m.t.Helper()
	ev.Fail(m.t, "seginit", m.c, "step %d: "+format, append([]any{len(m.c.Ops) - 1}, args...)...)
}

func newIter(s *segmenter.Segmenter, kind string) nexter {
	switch kind {
	case "line":
		return s.LineIterator()
	case "grapheme":
		return s.GraphemeIterator()
	default:
		return s.WordIterator()
	}
}

func current(it nexter) segRec {
	switch it := it.(type) {
	case *segmenter.LineIterator:
		l := it.Line()
		return segRec{l.Offset, l.Text, l.IsMandatoryBreak}
	case *segmenter.GraphemeIterator:
		g := it.Grapheme()
		return segRec{g.Offset, g.Text, false}
	case *segmenter.WordIterator:
		w := it.Word()
		return segRec{w.Offset, w.Text, false}
	}
	return segRec{}
}

// reference collects everything a fresh segmenter delivers for text.
func reference(text []rune) (map[string][]segRec, any) {
	out := map[string][]segRec{}
	p := try(func() {
		var s segmenter.Segmenter
		s.Init(copyRunes(text))
		for _, kind := range []string{"line", "grapheme", "word"} {
			it := newIter(&s, kind)
			for it.Next() {
				r := current(it)
				r.Text = copyRunes(r.Text)
				out[kind] = append(out[kind], r)
			}
		}
	})
	return out, p
}

func (m *segMachine) checkGiven() {
	for _, g := range m.given {
		if !sameRunes(g.text, g.cpy) {
			m.fail("the Text of a %s segment returned after the latest Init changed before the next Init: %v became %v", g.kind, g.cpy, g.text)
		}
	}
}

func (m *segMachine) apply(op segOp) {
	m.c.Ops = append(m.c.Ops, op)
	ev.Journal("seginit", m.c) // names the culprit if the process hangs or dies in this step
	switch op.Kind {
	case "burst_init", "init":
		if op.Kind == "burst_init" {
			for _, l := range m.live {
				if len(m.stale) < 8 {
					m.stale = append(m.stale, l.it)
				}
			}
			m.live = map[string]*liveIter{}
			a, b := copyRunes(op.AltText), copyRunes(op.Text)
			if p := try(func() {
				for i := 1; i < op.N; i++ {
					if (op.N-i)%2 == 0 {
						m.used.Init(b)
					} else {
						m.used.Init(a)
					}
				}
			}); p != nil {
				if _, pf := reference(op.AltText); pf == nil {
					if _, pf = reference(op.Text); pf == nil {
						m.fail("the burst of Init calls panicked on the used segmenter, a fresh one handles both texts: %v", p)
					}
				}
			}
			m.inits++
			m.given = nil
			m.text = nil
			m.flags[burstLabel(op.N)] = true
		}
		arg := copyRunes(op.Text)
		pu := try(func() { m.used.Init(arg) })
		exp, pr := reference(op.Text)
		if pu != nil || pr != nil {
			if pu != nil && pr != nil {
				m.flags["both_panic_restart"] = true
				m.used = &segmenter.Segmenter{}
				m.text, m.expected, m.live, m.given = nil, map[string][]segRec{}, map[string]*liveIter{}, nil
				return
			}
			m.fail("Init: only one side panicked: used segmenter: %v; fresh segmenter: %v", pu, pr)
		}
		if !sameRunes(arg, op.Text) {
			m.fail("Init modified its argument")
		}
		if m.inits > 0 && !sameRunes(m.text, op.Text) {
			m.flags["reinit_with_other_text"] = true
			if len(op.Text) < len(m.text) {
				m.flags["reinit_with_shorter_text"] = true
			}
		}
		m.inits++
		for _, l := range m.live {
			if len(m.stale) < 8 {
				m.stale = append(m.stale, l.it)
			}
		}
		m.text, m.expected, m.live, m.given = copyRunes(op.Text), exp, map[string]*liveIter{}, nil
	case "restart":
		delete(m.live, op.Iter)
	case "next":
		l := m.live[op.Iter]
		if l == nil {
			l = &liveIter{kind: op.Iter, it: newIter(m.used, op.Iter)}
			m.live[op.Iter] = l
		}
		exp := m.expected[op.Iter]
		for i := 0; i < op.N && !l.done; i++ {
			var ok bool
			var got segRec
			if p := try(func() {
				ok = l.it.Next()
				if ok {
					got = current(l.it)
				}
			}); p != nil {
				m.fail("%s iterator panicked on a used segmenter (a fresh one delivers %d segments without panic): %v", op.Iter, len(exp), p)
			}
			m.nexts++
			if m.inits >= 2 {
				m.flags["iterated_after_reinit"] = true
			}
			if ok != (l.pos < len(exp)) {
				m.fail("%s iterator: Next #%d returned %v on the used segmenter; a fresh one delivers %d segments for this text", op.Iter, l.pos+1, ok, len(exp))
			}
			if !ok {
				l.done = true
				break
			}
			if d := firstDiff(got, exp[l.pos]); d != "" {
				m.fail("%s iterator: segment #%d differs from a fresh segmenter's: %s (used %+v, fresh %+v)", op.Iter, l.pos+1, d, got, exp[l.pos])
			}
			m.given = append(m.given, returned{kind: op.Iter, text: got.Text, cpy: copyRunes(got.Text)})
			l.pos++
		}
	case "stale":
		for _, it := range m.stale {
			for i := 0; i < op.N; i++ {
				if p := try(func() { it.Next() }); p != nil {
					m.flags["stale_iterator_panicked"] = true // no contract: only recorded
					break
				}
			}
		}
		if len(m.stale) > 0 {
			m.flags["stale_iterators_used"] = true
		}
	default:
		m.t.Fatalf("infrastructure: unknown op %q", op.Kind)
	}
	m.checkGiven()
}

func (m *segMachine) finish() {
	ev.JournalDone()
	nt := len(m.c.Ops) >= 3 && m.flags["reinit_with_other_text"] && m.flags["iterated_after_reinit"]
	labels := []string{"seginit:histories"}
	for k := range m.flags {
		labels = append(labels, "seginit:"+k)
	}
	if nt {
		labels = append(labels, "seginit:nontrivial")
	}
	ev.Case(nt, histKey("seginit", m.c), labels...)
	ev.LabelN("seginit:steps", int64(len(m.c.Ops)))
	if nt && ev.WantSample() {
		ev.Sample(map[string]any{"check": "seginit", "case": m.c})
	}
}

func TestPropSegInit(t *testing.T) {
	rapid.Check(t, func(rt *rapid.T) {
		m := newSegMachine(rt)
		drawIter := func(rt *rapid.T) string {
			return rapid.SampledFrom([]string{"line", "line", "grapheme", "grapheme", "word"}).Draw(rt, "iter")
		}
		actions := map[string]func(*rapid.T){}
		weighted(actions, "init", 2, func(rt *rapid.T) {
			m.apply(segOp{Kind: "init", Text: drawMixedText(rt, ev.Scale(24, 80))})
		})
		weighted(actions, "next", 4, func(rt *rapid.T) {
			if m.inits == 0 {
				m.apply(segOp{Kind: "init", Text: drawMixedText(rt, ev.Scale(24, 80))})
				return
			}
			m.apply(segOp{Kind: "next", Iter: drawIter(rt), N: rapid.IntRange(1, 8).Draw(rt, "n")})
		})
		weighted(actions, "burst_init", 1, func(rt *rapid.T) {
			if rapid.IntRange(0, 2).Draw(rt, "doBurst") != 0 {
				m.apply(segOp{Kind: "init", Text: drawMixedText(rt, ev.Scale(24, 80))})
				return
			}
			m.apply(segOp{Kind: "burst_init", Text: drawMixedText(rt, 8), AltText: drawMixedText(rt, 8), N: drawBurstN(rt, false)}) // 2^16 Inits are not affordable
		})
		weighted(actions, "restart", 1, func(rt *rapid.T) { m.apply(segOp{Kind: "restart", Iter: drawIter(rt)}) })
		weighted(actions, "stale", 1, func(rt *rapid.T) { m.apply(segOp{Kind: "stale", N: rapid.IntRange(1, 4).Draw(rt, "n")}) })
		rt.Repeat(actions)
		m.finish()
	})
}

func replaySegInit(t *testing.T, raw json.RawMessage) {
	var c segCase
	if err := json.Unmarshal(raw, &c); err != nil {
		t.Fatalf("infrastructure: %v", err)
	}
	m := newSegMachine(t)
	for _, op := range c.Ops {
		m.apply(op)
	}
}
