package c13

import (
	"math"
	"encoding/json"
	"fmt"
	"testing"

	"github.com/go-text/typesetting/di"
	"github.com/go-text/typesetting/font"
	"github.com/go-text/typesetting/language"
	"github.com/go-text/typesetting/shaping"
	"golang.org/x/image/math/fixed"
	"pgregory.net/rapid"

	"verif/internal/ev"
)

// ---------------------------------------------------------------------------------------------
// shaping.HarfbuzzShaper state machine
//
// Objects: ONE shaper, several faces ("slots"); slots of the same file share the parsed
// *font.Font but are distinct font.NewFace values with their own variations / ppem.
// Oracle: every Shape result equals (all fields; Face by identity with the input's face) the
// result of a zero-value shaper shaping the same input with a fresh face given the slot's current
// settings; every earlier Output is deep-copied and must never change afterwards (Shape allocates
// its glyph slice: nothing documents an invalidation).

type faceDef struct {
	Font fontRef `json:"font"`
	Cfg  faceCfg `json:"cfg"`
}

type featDef struct {
	Tag   string `json:"tag"`
	Value uint32 `json:"value"`
}

type shaperOp struct {
	// shape | cache_size | set_variations | set_coords | set_ppem |
	// burst_shape: Count Shape calls of the given (tiny) input in one step, alternating between Slot2 and
	//   Slot and ending with Slot, results not compared (the following steps are) |
	// burst_cache: Count SetFontCacheSize calls alternating between AltN and N, ending with N |
	// burst_set: Count setter calls on the face of Slot (see faceOp: Setter, Alt, embedded setting)
	Kind string `json:"kind"`
	Slot int    `json:"slot"`
	// bursts
	Count  int    `json:"count,omitempty"`
	Slot2  int    `json:"slot2,omitempty"`
	AltN   int    `json:"alt_n,omitempty"`
	Setter string `json:"setter,omitempty"`
	Alt    *cfgOp `json:"alt,omitempty"`
	// shape
	Text     []rune    `json:"text,omitempty"`
	RunStart int       `json:"run_start,omitempty"`
	RunEnd   int       `json:"run_end,omitempty"`
	Dir      uint8     `json:"dir,omitempty"` // di.Direction
	Script   string    `json:"script,omitempty"`
	Lang     string    `json:"lang,omitempty"`
	Size     int32     `json:"size,omitempty"` // fixed.Int26_6
	Features []featDef `json:"features,omitempty"`
	// FontFeatures is an empty non-nil slice instead of nil (only when Features is empty)
	EmptyFeatures bool `json:"empty_features,omitempty"`
	// cache_size
	N int `json:"n,omitempty"`
	// set_*
	cfgOp
}

type shaperCase struct {
	Faces []faceDef  `json:"faces"`
	Ops   []shaperOp `json:"ops"`
}

type earlierOutput struct {
	step     int
	out, cpy shaping.Output
}

type shaperMachine struct {
	t     ev.TB
	c     *shaperCase
	pfs   []*poolFont
	faces []*font.Face
	cfgs  []faceCfg
	used  *shaping.HarfbuzzShaper
	size  int // current cache size
	store coordsStore
	early []earlierOutput

	// classification
	lastSlotOfFont map[string]int    // font key -> slot of its last shape
	lastCfgOfSlot  map[int]string    // slot -> cfg key at its last shape
	lastPlanOfSlot map[int]string    // slot -> direction/script/language/features at its last shape
	lastFeatsOfSlot map[int][]featDef
	sinceOther     map[string]int    // font key -> number of shapes with other fonts since its last shape
	flags          map[string]bool   // labels of this history
	shapes         int
}

func newShaperMachine(t ev.TB, faces []faceDef) *shaperMachine {
	m := &shaperMachine{t: t, c: &shaperCase{Faces: faces}, used: &shaping.HarfbuzzShaper{},
		lastSlotOfFont: map[string]int{}, lastCfgOfSlot: map[int]string{}, lastPlanOfSlot: map[int]string{}, lastFeatsOfSlot: map[int][]featDef{}, sinceOther: map[string]int{}, flags: map[string]bool{}}
	for _, fd := range faces {
		pf := mustFont(t, fd.Font)
		m.pfs = append(m.pfs, pf)
		f := font.NewFace(pf.Font)
		fd.Cfg.apply(f)
		m.faces = append(m.faces, f)
		m.cfgs = append(m.cfgs, fd.Cfg)
	}
	return m
}

func (m *shaperMachine) fail(format string, args ...any) {
	m.t.Helper()
	ev.Fail(m.t, "shaper", m.c, "step %d: "+format, append([]any{len(m.c.Ops) - 1}, args...)...)
}

func copyOutput(o shaping.Output) shaping.Output {
	o.Glyphs = append([]shaping.Glyph(nil), o.Glyphs...)
	return o
}

func (op shaperOp) input(face *font.Face) shaping.Input {
	in := shaping.Input{
		Text: copyRunes(op.Text), RunStart: op.RunStart, RunEnd: op.RunEnd,
		Direction: di.Direction(op.Dir), Face: face, Size: fixed.Int26_6(op.Size),
		Script: parseScript(op.Script), Language: language.Language(op.Lang),
	}
	if op.EmptyFeatures {
		in.FontFeatures = []shaping.FontFeature{}
	}
	for _, f := range op.Features {
		in.FontFeatures = append(in.FontFeatures, shaping.FontFeature{Tag: mustTag(f.Tag), Value: f.Value})
	}
	return in
}

func (m *shaperMachine) apply(op shaperOp) {
	m.c.Ops = append(m.c.Ops, op)
	ev.Journal("shaper", m.c) // names the culprit if the process hangs or dies in this step
	if op.Kind != "cache_size" && (op.Slot < 0 || op.Slot >= len(m.faces)) {
		m.t.Fatalf("infrastructure: bad slot %d in replayed case", op.Slot)
	}
	if roundTripKinds[op.Kind] {
		if _, err := m.store.apply(op.Kind, op.cfgOp, m.faces[op.Slot], &m.cfgs[op.Slot], len(m.pfs[op.Slot].Axes)); err != nil {
			m.t.Fatalf("infrastructure: %v in replayed case", err)
		}
		m.flags["round_trip:"+op.Kind] = true
		op.Kind = "" // nothing else to do but the re-check of the earlier outputs
	}
	switch op.Kind {
	case "":
	case "shape":
		m.shape(op)
	case "cache_size":
		m.used.SetFontCacheSize(op.N)
		if op.N < m.size {
			m.flags["cache_shrunk"] = true
		}
		m.size = op.N
	case "set_variations", "set_coords", "set_ppem":
		applyCfgOp(op.Kind, op.cfgOp, m.faces[op.Slot], &m.cfgs[op.Slot])
	case "burst_set":
		if op.Alt == nil || op.Count < 1 {
			m.t.Fatalf("infrastructure: incomplete burst in replayed case")
		}
		burstSetters(op.Setter, op.Count, op.cfgOp, *op.Alt, m.faces[op.Slot], &m.cfgs[op.Slot])
		m.flags[burstLabel(op.Count)] = true
	case "burst_cache":
		for i := 1; i <= op.Count; i++ {
			if (op.Count-i)%2 == 0 {
				m.used.SetFontCacheSize(op.N)
			} else {
				m.used.SetFontCacheSize(op.AltN)
			}
		}
		if op.N < m.size {
			m.flags["cache_shrunk"] = true
		}
		m.size = op.N
		m.flags[burstLabel(op.Count)] = true
	case "burst_shape":
		if op.Slot2 < 0 || op.Slot2 >= len(m.faces) || op.Count < 1 {
			m.t.Fatalf("infrastructure: incomplete burst in replayed case")
		}
		m.burstShape(op)
	default:
		m.t.Fatalf("infrastructure: unknown op %q", op.Kind)
	}
	// earlier outputs are freshly allocated values: no later call may change them
	for _, e := range m.early {
		if d := firstDiff(e.out, e.cpy); d != "" {
			m.fail("the Output returned at step %d was modified by a later call: %s", e.step, d)
		}
	}
}

func (m *shaperMachine) shape(op shaperOp) {
	face, pf, cfg := m.faces[op.Slot], m.pfs[op.Slot], m.cfgs[op.Slot]
	in := op.input(face)
	var out, ref shaping.Output
	pu := try(func() { out = m.used.Shape(in) })

	ff := freshFace(pf, cfg)
	inF := op.input(ff)
	pr := try(func() { ref = (&shaping.HarfbuzzShaper{}).Shape(inF) })

	m.classify(op, pf, cfg)
	if pu != nil || pr != nil {
		if pu != nil && pr != nil {
			// a totality failure of Shape itself (C01's business): restart with a new shaper
			m.flags["both_panic_restart"] = true
			m.used = &shaping.HarfbuzzShaper{}
			m.used.SetFontCacheSize(m.size)
			return
		}
		m.fail("only one side panicked: used shaper: %v; fresh shaper: %v", pu, pr)
	}
	if !sameRunes(in.Text, op.Text) {
		m.fail("Shape modified its input text")
	}
	if out.Face != face {
		m.fail("Output.Face is not the input's face")
	}
	if ref.Face != ff {
		m.fail("fresh shaper: Output.Face is not the input's face")
	}
	a, b := out, ref
	a.Face, b.Face = nil, nil
	if d := firstDiff(a, b); d != "" {
		// which object leaked? shape once more with a fresh shaper but the used face
		who := "the shaper leaks state (a fresh shaper given the same used face agrees with the reference)"
		var third shaping.Output
		if p := try(func() { third = (&shaping.HarfbuzzShaper{}).Shape(op.input(face)) }); p == nil {
			third.Face = nil
			if firstDiff(third, b) != "" {
				who = "the used face leaks state (a fresh shaper given the used face also differs from the reference)"
			}
		}
		m.fail("used shaper differs from a fresh shaper with a fresh face (slot %d %s cfg %s): %s; %s; used glyphs %s, fresh glyphs %s",
			op.Slot, pf.Ref.File, cfg.key(), d, who, glyphSummary(out), glyphSummary(ref))
	}
	m.early = append(m.early, earlierOutput{step: len(m.c.Ops) - 1, out: out, cpy: copyOutput(out)})
	if op.MutateAfter {
		// the caller reuses its slices: only a shaper that kept a reference can notice, later
		for i := range in.Text {
			in.Text[i] = 0x5A
		}
		for i := range in.FontFeatures {
			in.FontFeatures[i] = shaping.FontFeature{Tag: mustTag("zzzz"), Value: 7}
		}
		m.flags["caller_slices_mutated_after_call"] = true
	}
}

// burstShape shapes a tiny input Count times in one step. The calls themselves are not compared
// with fresh objects (that is what makes long histories affordable); the steps that follow are.
func (m *shaperMachine) burstShape(op shaperOp) {
	ins := [2]shaping.Input{op.input(m.faces[op.Slot]), op.input(m.faces[op.Slot2])}
	done := 0
	p := try(func() {
		for i := 1; i <= op.Count; i++ {
			m.used.Shape(ins[(op.Count-i)%2])
			done = i
		}
	})
	m.flags[burstLabel(op.Count)] = true
	for _, sl := range []int{op.Slot2, op.Slot} {
		m.lastSlotOfFont[m.pfs[sl].Ref.key()] = sl
		m.lastCfgOfSlot[sl] = m.cfgs[sl].key()
	}
	if p != nil {
		// does a fresh shaper panic on this input too? then it is a totality matter
		which := (op.Count - (done + 1)) % 2
		sl := [2]int{op.Slot, op.Slot2}[which]
		if pf := try(func() { (&shaping.HarfbuzzShaper{}).Shape(op.input(freshFace(m.pfs[sl], m.cfgs[sl]))) }); pf != nil {
			m.flags["both_panic_restart"] = true
			m.used = &shaping.HarfbuzzShaper{}
			m.used.SetFontCacheSize(m.size)
			return
		}
		m.fail("call %d of the burst panicked on the used shaper, a fresh shaper does not panic on this input: %v", done+1, p)
	}
}

func glyphSummary(o shaping.Output) string {
	s := "["
	for i, g := range o.Glyphs {
		if i == 8 {
			s += " …"
			break
		}
		if i > 0 {
			s += " "
		}
		s += fmt.Sprintf("%d@%d+%d", g.GlyphID, g.ClusterIndex, g.XAdvance)
	}
	return s + fmt.Sprintf("] adv=%d", o.Advance)
}

func (m *shaperMachine) classify(op shaperOp, pf *poolFont, cfg faceCfg) {
	m.shapes++
	fk := pf.Ref.key()
	if prev, ok := m.lastSlotOfFont[fk]; ok {
		if prev != op.Slot {
			m.flags["revisit_font_with_other_face"] = true
			if m.size > 0 {
				m.flags["revisit_font_with_other_face_cached"] = true
			}
		}
		if m.sinceOther[fk] >= m.size && m.sinceOther[fk] > 0 {
			m.flags["revisit_after_eviction"] = true
		}
	}
	fb, _ := json.Marshal(op.Features)
	plan := fmt.Sprintf("%d/%s/%s/%s", di.Direction(op.Dir).Harfbuzz(), op.Script, op.Lang, fb)
	if prev, ok := m.lastCfgOfSlot[op.Slot]; ok && prev != cfg.key() {
		m.flags["revisit_face_with_other_settings"] = true
		if m.lastPlanOfSlot[op.Slot] == plan {
			m.flags["revisit_face_with_other_settings_same_plan_key"] = true
		}
	}
	m.lastPlanOfSlot[op.Slot] = plan
	if prev, ok := m.lastFeatsOfSlot[op.Slot]; ok && len(prev) == len(op.Features) && len(prev) > 0 {
		sameTags, otherValue := true, false
		for i := range prev {
			sameTags = sameTags && prev[i].Tag == op.Features[i].Tag
			otherValue = otherValue || prev[i].Value != op.Features[i].Value
		}
		if sameTags && otherValue {
			m.flags["revisit_face_same_feature_tags_other_values"] = true
		}
	}
	m.lastFeatsOfSlot[op.Slot] = op.Features
	for k := range m.sinceOther {
		if k != fk {
			m.sinceOther[k]++
		}
	}
	m.sinceOther[fk] = 0
	m.lastSlotOfFont[fk] = op.Slot
	m.lastCfgOfSlot[op.Slot] = cfg.key()
	if op.RunStart > 0 {
		m.flags["pre_context"] = true
	}
	if len(pf.Axes) > 0 && cfg.Mode != "" {
		m.flags["variable_instance"] = true
	}
}

// finish records the history in the evidence.
func (m *shaperMachine) finish() {
	ev.JournalDone()
	nt := len(m.c.Ops) >= 3 && (m.flags["revisit_font_with_other_face"] || m.flags["revisit_face_with_other_settings"] || m.flags["revisit_after_eviction"])
	labels := []string{"shaper:histories"}
	for k := range m.flags {
		labels = append(labels, "shaper:"+k)
	}
	if nt {
		labels = append(labels, "shaper:nontrivial")
	}
	ev.Case(nt, histKey("shaper", m.c), labels...)
	ev.LabelN("shaper:steps", int64(len(m.c.Ops)))
	ev.LabelN("shaper:shapes", int64(m.shapes))
	if nt && ev.WantSample() {
		ev.Sample(map[string]any{"check": "shaper", "case": m.c})
	}
}

// ---- generators

var shaperFeatures = []string{"kern", "liga", "smcp", "frac", "ss01", "rvrn", "calt", "dlig", "onum", "mark"}

var shapeSizes = []int32{64, 10 * 64, 16 * 64, 72 * 64, 1000 * 64, 800 /* 12.5 */}

func drawDirection(t *rapid.T, text []rune) uint8 {
	natural := di.DirectionLTR
	if rtlScripts[scriptOf(text)] {
		natural = di.DirectionRTL
	}
	switch k := rapid.IntRange(0, 19).Draw(t, "dirKind"); {
	case k < 11:
		return uint8(natural)
	case k < 13:
		return uint8(di.DirectionLTR)
	case k < 15:
		return uint8(di.DirectionRTL)
	case k < 17:
		return uint8(di.DirectionTTB)
	case k < 18:
		return uint8(di.DirectionBTT)
	default:
		d := di.DirectionTTB
		d.SetSideways(true)
		return uint8(d)
	}
}

func drawScript(t *rapid.T, text []rune) string {
	if rapid.IntRange(0, 9).Draw(t, "scriptKind") < 8 {
		return scriptOf(text).String()
	}
	return rapid.SampledFrom([]string{"Latn", "Arab", "Zyyy", "Deva", "Hebr", "Zzzz"}).Draw(t, "script")
}

func drawFaces(t *rapid.T) []faceDef {
	var out []faceDef
	add := func(file string, n int) {
		pf := mustFont(t, fontRef{File: file})
		for i := 0; i < n; i++ {
			out = append(out, faceDef{Font: pf.Ref, Cfg: drawInitialCfg(t, pf)})
		}
	}
	// 2-3 faces of one variable font, 0-2 static fonts, sometimes a second variable font
	add(rapid.SampledFrom(varPool).Draw(t, "varFont"), rapid.IntRange(2, 3).Draw(t, "nVarFaces"))
	for i, n := 0, rapid.IntRange(0, 2).Draw(t, "nStatic"); i < n; i++ {
		add(rapid.SampledFrom(staticPool).Draw(t, "staticFont"), 1)
	}
	if idx, err := loadClassIndex(); err == nil && rapid.IntRange(0, 1).Draw(t, "classSlot") == 0 {
		// a font chosen by coverage class (feature, lookup type, script, table ...), not by family
		class := rapid.SampledFrom(classNames).Draw(t, "class")
		pr := idx.Probes[rapid.SampledFrom(idx.Classes[class]).Draw(t, "probe")]
		add(pr.Font.File, rapid.IntRange(1, 2).Draw(t, "nClassFaces"))
	}
	if rapid.IntRange(0, 3).Draw(t, "alternatesFont") == 0 {
		add(rapid.SampledFrom(altPool).Draw(t, "altFont"), rapid.IntRange(1, 2).Draw(t, "nAltFaces"))
	}
	if rapid.IntRange(0, 3).Draw(t, "secondVar") == 0 {
		add(rapid.SampledFrom(varPool).Draw(t, "varFont2"), rapid.IntRange(1, 2).Draw(t, "nVarFaces2"))
	}
	return out
}

func drawShapeOp(t *rapid.T, m *shaperMachine) shaperOp {
	slot := rapid.IntRange(0, len(m.faces)-1).Draw(t, "slot")
	pf := m.pfs[slot]
	if ps := fontProbes(pf.Ref.File); len(ps) > 0 && rapid.IntRange(0, 9).Draw(t, "probeInput") < 6 {
		// an input known to exercise one of the font's features / lookups / tables
		op := classIdx.Probes[rapid.SampledFrom(ps).Draw(t, "probe")].shaperOp(slot)
		op.Size = rapid.SampledFrom(shapeSizes).Draw(t, "size")
		return op
	}
	text := drawText(t, pf, ev.Scale(16, 40))
	op := shaperOp{Kind: "shape", Slot: slot, Text: text, RunEnd: len(text)}
	if len(text) > 0 && rapid.IntRange(0, 9).Draw(t, "subRun") < 3 {
		op.RunStart = rapid.IntRange(0, len(text)).Draw(t, "runStart")
		op.RunEnd = rapid.IntRange(op.RunStart, len(text)).Draw(t, "runEnd")
	}
	op.Dir = drawDirection(t, text[op.RunStart:op.RunEnd])
	op.Script = drawScript(t, text[op.RunStart:op.RunEnd])
	op.Lang = rapid.SampledFrom([]string{"", "en", "en", "ar", "tr", "hi", "sr"}).Draw(t, "lang")
	op.Size = rapid.SampledFrom(shapeSizes).Draw(t, "size")
	op.MutateAfter = rapid.IntRange(0, 3).Draw(t, "mutateAfter") == 0
	for i, n := 0, rapid.SampledFrom([]int{0, 0, 0, 1, 1, 2}).Draw(t, "nFeatures"); i < n; i++ {
		op.Features = append(op.Features, featDef{Tag: drawFeatureTag(t, pf), Value: rapid.SampledFrom(featureValues).Draw(t, "featureValue")})
	}
	return op
}

func TestPropShaper(t *testing.T) {
	rapid.Check(t, func(rt *rapid.T) {
		m := newShaperMachine(rt, drawFaces(rt))
		if rapid.IntRange(0, 9).Draw(rt, "initialCache") < 7 {
			m.apply(shaperOp{Kind: "cache_size", N: rapid.SampledFrom([]int{1, 2, 8}).Draw(rt, "n")})
		}
		actions := map[string]func(*rapid.T){}
		weighted(actions, "shape", 5, func(rt *rapid.T) { m.apply(drawShapeOp(rt, m)) })
		weighted(actions, "shape_again", 2, func(rt *rapid.T) {
			// an earlier Shape call once more, on the same face or on another face of the same font:
			// the same shape plan key and cache entries are revisited, possibly with other settings
			var earlier []shaperOp
			for _, o := range m.c.Ops {
				if o.Kind == "shape" {
					earlier = append(earlier, o)
				}
			}
			if len(earlier) == 0 {
				m.apply(drawShapeOp(rt, m))
				return
			}
			op := earlier[rapid.IntRange(0, len(earlier)-1).Draw(rt, "earlier")]
			if rapid.Bool().Draw(rt, "sibling") {
				var sib []int
				for i, pf := range m.pfs {
					if pf == m.pfs[op.Slot] {
						sib = append(sib, i)
					}
				}
				op.Slot = rapid.SampledFrom(sib).Draw(rt, "siblingSlot")
			}
			m.apply(op)
		})
		weighted(actions, "shape_again_other_features", 2, func(rt *rapid.T) {
			// the latest (or an earlier) Shape call once more with ONLY its feature list changed
			var earlier []shaperOp
			for _, o := range m.c.Ops {
				if o.Kind == "shape" {
					earlier = append(earlier, o)
				}
			}
			if len(earlier) == 0 {
				m.apply(drawShapeOp(rt, m))
				return
			}
			op := earlier[len(earlier)-1]
			if rapid.IntRange(0, 3).Draw(rt, "notLatest") == 0 {
				op = earlier[rapid.IntRange(0, len(earlier)-1).Draw(rt, "earlier")]
			}
			op.Features = mutateFeatDefs(rt, op.Features, m.pfs[op.Slot])
			m.apply(op)
		})
		weighted(actions, "burst", 1, func(rt *rapid.T) {
			// a Shape, many cheap operations in one step, possibly a settings change, the same Shape again
			q := drawShapeOp(rt, m)
			m.apply(q)
			if rapid.IntRange(0, 2).Draw(rt, "doBurst") != 0 {
				return
			}
			pf := m.pfs[q.Slot]
			switch rapid.IntRange(0, 3).Draw(rt, "burstKind") {
			case 0:
				tiny := drawShapeOp(rt, m)
				if len(tiny.Text) > 2 {
					tiny.Text = tiny.Text[:2]
				}
				tiny.RunStart, tiny.RunEnd = 0, len(tiny.Text)
				tiny.Kind, tiny.Slot2, tiny.Count = "burst_shape", rapid.IntRange(0, len(m.faces)-1).Draw(rt, "slot2"), drawBurstN(rt, false)
				m.apply(tiny)
			case 1:
				m.apply(shaperOp{Kind: "burst_cache", Count: drawBurstN(rt, true), N: rapid.SampledFrom([]int{0, 1, 2, 8}).Draw(rt, "n"), AltN: rapid.SampledFrom([]int{0, 1, 2, 8}).Draw(rt, "altN")})
			default:
				setter, last, alt := drawSetterBurst(rt, pf)
				m.apply(shaperOp{Kind: "burst_set", Slot: q.Slot, Setter: setter, Count: drawBurstN(rt, len(pf.GIDs) < 300), Alt: &alt, cfgOp: last})
			}
			if rapid.Bool().Draw(rt, "thenChange") {
				m.apply(shaperOp{Kind: "set_variations", Slot: q.Slot, cfgOp: cfgOp{Vars: drawVars(rt, pf)}})
			}
			m.apply(q)
		})
		weighted(actions, "round_trip", 1, func(rt *rapid.T) {
			// coordinates read from a face fed back to it or to a sibling face of the same font, with
			// Shape calls in between
			q := drawShapeOp(rt, m)
			q.MutateAfter = rapid.Bool().Draw(rt, "mutateAfter")
			k := q.Slot
			pf := m.pfs[k]
			var sib []int
			for i, p := range m.pfs {
				if p == pf && i != k {
					sib = append(sib, i)
				}
			}
			m.apply(q)
			m.apply(shaperOp{Kind: "save_coords", Slot: k})
			saved := len(m.store.saved) - 1
			change := shaperOp{Kind: "set_variations", Slot: k, cfgOp: cfgOp{Vars: drawVars(rt, pf), MutateAfter: rapid.Bool().Draw(rt, "mutateVars")}}
			if len(sib) > 0 && rapid.Bool().Draw(rt, "transfer") {
				b := rapid.SampledFrom(sib).Draw(rt, "sibling")
				m.apply(shaperOp{Kind: "restore_coords", Slot: b, cfgOp: cfgOp{Saved: saved}})
				qb := q
				qb.Slot = b
				m.apply(qb)
				m.apply(change)
				m.apply(qb)
				m.apply(q)
				return
			}
			m.apply(change)
			if rapid.Bool().Draw(rt, "shapeBetween") {
				m.apply(q)
			}
			m.apply(shaperOp{Kind: "restore_coords", Slot: k, cfgOp: cfgOp{Saved: saved}})
			m.apply(q)
		})
		weighted(actions, "edge_args", 1, func(rt *rapid.T) {
			// an ordinary Shape with the font cache enabled, then the same call with ONE argument at the
			// edge of its contract (sizes 0, 1/64, negative, overflowing; empty text; empty, reversed or
			// out-of-range run, which Shape documents it clamps; empty non-nil features; ppem 0), then
			// the ordinary call again: whatever the edge call does, it must do on a fresh shaper too,
			// and it must leave nothing behind
			if m.size == 0 {
				m.apply(shaperOp{Kind: "cache_size", N: rapid.SampledFrom([]int{1, 2, 8}).Draw(rt, "n")})
			}
			q := drawShapeOp(rt, m)
			m.apply(q)
			m.flags["edge_args"] = true
			e := edgeVariant(q, rapid.IntRange(0, len(edgeSizes)+edgeOthers-1).Draw(rt, "edge"))
			if e.Kind == "set_ppem" {
				m.apply(e)
				m.apply(q)
				return
			}
			m.apply(e)
			if rapid.Bool().Draw(rt, "edgeTwice") {
				m.apply(e)
			}
			m.apply(q)
		})
		weighted(actions, "cache_size", 1, func(rt *rapid.T) {
			m.apply(shaperOp{Kind: "cache_size", N: rapid.SampledFrom([]int{0, 1, 2, 8}).Draw(rt, "n")})
		})
		weighted(actions, "set_variations", 1, func(rt *rapid.T) {
			slot := rapid.IntRange(0, len(m.faces)-1).Draw(rt, "slot")
			m.apply(shaperOp{Kind: "set_variations", Slot: slot, cfgOp: cfgOp{Vars: drawVars(rt, m.pfs[slot])}})
		})
		weighted(actions, "reconfigure", 1, func(rt *rapid.T) {
			slot := rapid.IntRange(0, len(m.faces)-1).Draw(rt, "slot")
			if rapid.IntRange(0, 1).Draw(rt, "which") == 0 {
				m.apply(shaperOp{Kind: "set_coords", Slot: slot, cfgOp: cfgOp{Coords: drawCoords(rt, m.pfs[slot])}})
			} else {
				x, y := drawPpem(rt)
				m.apply(shaperOp{Kind: "set_ppem", Slot: slot, cfgOp: cfgOp{PpemX: x, PpemY: y}})
			}
		})
		rt.Repeat(actions)
		m.finish()
	})
}

// mutateFeatDefs changes only the feature list of a call: a value (0, 1, 2, 3), one more or one
// fewer feature, or their order.
func mutateFeatDefs(t *rapid.T, in []featDef, pf *poolFont) []featDef {
	out := append([]featDef(nil), in...)
	kind := rapid.IntRange(0, 9).Draw(t, "featureMutation")
	switch {
	case len(out) == 0 || kind == 0:
		return append(out, featDef{Tag: drawFeatureTag(t, pf), Value: rapid.SampledFrom(featureValues).Draw(t, "featureValue")})
	case kind == 1:
		i := rapid.IntRange(0, len(out)-1).Draw(t, "drop")
		return append(out[:i], out[i+1:]...)
	case kind == 2 && len(out) >= 2:
		out[0], out[len(out)-1] = out[len(out)-1], out[0]
		return out
	default:
		i := rapid.IntRange(0, len(out)-1).Draw(t, "which")
		out[i].Value = (out[i].Value + uint32(rapid.IntRange(1, 3).Draw(t, "valueShift"))) % 4
		return out
	}
}

// TestEnumShaperWrap walks every burst size deterministically on one shaper: Shape with face 0,
// a burst (Shape calls alternating between two other faces, SetFontCacheSize toggles, or setter
// calls on face 0), a variations change of face 0, the same Shape again and a Shape with the
// sibling face, for cache sizes 1 and 2.
func TestEnumShaperWrap(t *testing.T) {
	fonts := []string{fRvrn, fHBTestVF, fSourceSansVF, fEstedad}
	shard, nshards := ev.Shard()
	idx := 0
	for fi, file := range fonts {
		pf := mustFont(t, fontRef{File: file})
		a0 := pf.Axes[0]
		vars := func(v float32) []varSetting { return []varSetting{{Tag: a0.Tag.String(), Value: v}} }
		text := []rune{pf.Runes[len(pf.Runes)/2]}
		if file == fRvrn {
			text = []rune("r")
		}
		for _, kind := range []string{"burst_shape", "burst_cache", "burst_set", "burst_set_mixed"} {
			for _, size := range []int{1, 2} {
				for _, n := range burstAll() {
					if n >= 65535 && kind == "burst_shape" && (fi != 0 || size != 2) {
						continue // 2^16 real shapings: once is affordable
					}
					idx++
					if idx%nshards != shard {
						continue
					}
					faces := []faceDef{{Font: pf.Ref, Cfg: faceCfg{Mode: "variations", Vars: vars(a0.Min)}}, {Font: pf.Ref, Cfg: faceCfg{Mode: "variations", Vars: vars(a0.Max)}}, {Font: pf.Ref}}
					m := newShaperMachine(t, faces)
					q := shaperOp{Kind: "shape", Slot: 0, Text: text, RunEnd: len(text), Script: scriptOf(text).String(), Lang: "en", Size: 1000 * 64}
					m.apply(shaperOp{Kind: "cache_size", N: size})
					m.apply(q)
					switch kind {
					case "burst_shape":
						b := q
						b.Kind, b.Slot, b.Slot2, b.Count = "burst_shape", 1, 2, n
						m.apply(b)
					case "burst_cache":
						m.apply(shaperOp{Kind: "burst_cache", Count: n, N: size, AltN: 3 - size})
					default:
						setter := "set_variations"
						if kind == "burst_set_mixed" {
							setter = "mixed"
						}
						m.apply(shaperOp{Kind: "burst_set", Slot: 0, Setter: setter, Count: n, Alt: &cfgOp{Vars: vars(a0.Def), PpemX: 20, PpemY: 20}, cfgOp: cfgOp{Vars: vars(a0.Max), PpemX: 96, PpemY: 96}})
					}
					if kind == "burst_shape" || kind == "burst_cache" {
						m.apply(shaperOp{Kind: "set_variations", Slot: 0, cfgOp: cfgOp{Vars: vars(a0.Def + (a0.Max-a0.Def)/2)}})
					}
					m.apply(q)
					q.Slot = 1
					m.apply(q)
					m.finish()
					ev.Label("shaper:enum_wrap_cases")
				}
			}
		}
	}
}

// edgeSizes are Input.Size values (fixed.Int26_6) at and beyond the edge of what a size means.
var edgeSizes = []int32{0, 1, -1, -64 * 3, 64 * (1 << 20), math.MaxInt32, math.MinInt32}

const edgeOthers = 7

// edgeVariant returns q with one argument replaced by edge value number k.
func edgeVariant(q shaperOp, k int) shaperOp {
	e := q
	e.Text = copyRunes(q.Text)
	if k < len(edgeSizes) {
		e.Size = edgeSizes[k]
		return e
	}
	switch k - len(edgeSizes) {
	case 0: // empty text
		e.Text, e.RunStart, e.RunEnd = nil, 0, 0
	case 1: // empty run at the end
		e.RunStart, e.RunEnd = len(e.Text), len(e.Text)
	case 2: // empty run at the start
		e.RunStart, e.RunEnd = 0, 0
	case 3: // reversed bounds ("try to guess what the caller actually wanted")
		e.RunStart, e.RunEnd = len(e.Text), 0
	case 4: // out of range on both sides (clamped)
		e.RunStart, e.RunEnd = -3, len(e.Text)+5
	case 5: // empty but non-nil features
		e.Features, e.EmptyFeatures = nil, true
	default: // the face at ppem 0
		return shaperOp{Kind: "set_ppem", Slot: q.Slot}
	}
	return e
}

// TestEnumShaperEdgeArgs walks every edge value deterministically: font cache on, an ordinary Shape,
// the edge call (twice), the ordinary Shape again, the edge call on the sibling face.
func TestEnumShaperEdgeArgs(t *testing.T) {
	shard, nshards := ev.Shard()
	idx := 0
	for _, file := range []string{fRoboto, fAmiri, fCommissioner, fRvrn, fAlt1} {
		pf := mustFont(t, fontRef{File: file})
		n := len(pf.Runes)
		if n > 5 {
			n = 5
		}
		text := append([]rune(nil), pf.Runes[len(pf.Runes)/2:][:min(n, len(pf.Runes)-len(pf.Runes)/2)]...)
		if file == fRoboto || file == fCommissioner {
			text = []rune("AVfi To")
		}
		for _, size := range []int{1, 2} {
			for k := 0; k < len(edgeSizes)+edgeOthers; k++ {
				idx++
				if idx%nshards != shard {
					continue
				}
				m := newShaperMachine(t, []faceDef{{Font: pf.Ref}, {Font: pf.Ref}})
				q := shaperOp{Kind: "shape", Slot: 0, Text: text, RunEnd: len(text), Script: scriptOf(text).String(), Lang: "en", Size: 16 * 64,
					Dir: drawNaturalDir(text), Features: []featDef{{Tag: "kern", Value: 1}}}
				e := edgeVariant(q, k)
				m.apply(shaperOp{Kind: "cache_size", N: size})
				m.apply(q)
				m.apply(e)
				if e.Kind == "shape" {
					m.apply(e)
				}
				m.apply(q)
				if e.Kind == "shape" {
					e.Slot = 1
					m.apply(e)
				}
				q.Slot = 1
				m.apply(q)
				m.flags["edge_args"] = true
				m.finish()
				ev.Label("shaper:enum_edge_arg_cases")
			}
		}
	}
}

func drawNaturalDir(text []rune) uint8 {
	if rtlScripts[scriptOf(text)] {
		return uint8(di.DirectionRTL)
	}
	return uint8(di.DirectionLTR)
}

func min(a, b int) int {
	if a < b {
		return a
	}
	return b
}

func replayShaper(t *testing.T, raw json.RawMessage) {
	var c shaperCase
	if err := json.Unmarshal(raw, &c); err != nil {
		t.Fatalf("infrastructure: %v", err)
	}
	m := newShaperMachine(t, c.Faces)
	for _, op := range c.Ops {
		m.apply(op)
	}
}
