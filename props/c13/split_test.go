package c13

import (
	"encoding/json"
	"testing"

	"github.com/go-text/typesetting/di"
	"github.com/go-text/typesetting/font"
	"github.com/go-text/typesetting/language"
	"github.com/go-text/typesetting/shaping"
	"golang.org/x/image/math/fixed"
	"pgregory.net/rapid"

	"verif/internal/ev"
	"verif/internal/textgen"
)

// ---------------------------------------------------------------------------------------------
// shaping.Segmenter state machine
//
// Oracle: Split on a used Segmenter returns exactly (every field of every Input; faces by
// identity; text by content) what Split on a zero-value Segmenter returns for the same input and
// fontmap. The returned slice "is only valid until the next call to Split", so nothing is
// demanded of earlier results; the argument text must not be modified.

type splitOp struct {
	Text        []rune    `json:"text"`
	RunStart    int       `json:"run_start"`
	RunEnd      int       `json:"run_end"`
	Dir         uint8     `json:"dir"`
	Lang        string    `json:"lang,omitempty"`
	Script      string    `json:"script,omitempty"`
	Size        int32     `json:"size,omitempty"`
	Features    []featDef `json:"features,omitempty"`
	Fonts       []fontRef `json:"fonts"`
	ScriptAware bool      `json:"script_aware,omitempty"` // the fontmap implements FontmapScript
	// Burst > 0: Burst-1 uncompared Split calls first, alternating between AltText (whole text as
	// the run) and this input, then this (compared) call
	Burst   int    `json:"burst,omitempty"`
	AltText []rune `json:"alt_text,omitempty"`
	// the caller overwrites its text and features slices after the (compared) call returned
	MutateAfter bool `json:"mutate_after,omitempty"`
}

type splitCase struct {
	Ops []splitOp `json:"ops"`
}

// plainMap resolves like the library's fixedFontmap: first face mapping the rune, else the first.
type plainMap []*font.Face

func (ff plainMap) ResolveFace(r rune) *font.Face {
	for _, f := range ff {
		if _, has := f.NominalGlyph(r); has {
			return f
		}
	}
	return ff[0]
}

// scriptMap also receives script hints: for Arabic-script runs it searches from the end.
type scriptMap struct {
	faces  plainMap
	script language.Script
}

func (sm *scriptMap) SetScript(s language.Script) { sm.script = s }
func (sm *scriptMap) ResolveFace(r rune) *font.Face {
	if sm.script == language.Arabic {
		for i := len(sm.faces) - 1; i >= 0; i-- {
			if _, has := sm.faces[i].NominalGlyph(r); has {
				return sm.faces[i]
			}
		}
	}
	return sm.faces.ResolveFace(r)
}

type splitMachine struct {
	t    ev.TB
	c    *splitCase
	used *shaping.Segmenter

	prevKey  string
	prevRuns int
	flags    map[string]bool
}

func newSplitMachine(t ev.TB) *splitMachine {
	return &splitMachine{t: t, c: &splitCase{}, used: &shaping.Segmenter{}, flags: map[string]bool{}}
}

func (m *splitMachine) fail(format string, args ...any) {
	m.t.Helper()
	ev.Fail(m.t, "split", m.c, "step %d: "+format, append([]any{len(m.c.Ops) - 1}, args...)...)
}

func (op splitOp) build(t ev.TB) (shaping.Input, func() shaping.Fontmap) {
	in := shaping.Input{Text: copyRunes(op.Text), RunStart: op.RunStart, RunEnd: op.RunEnd, Direction: di.Direction(op.Dir),
		Language: language.Language(op.Lang), Script: parseScript(op.Script), Size: fixed.Int26_6(op.Size)}
	for _, f := range op.Features {
		in.FontFeatures = append(in.FontFeatures, shaping.FontFeature{Tag: mustTag(f.Tag), Value: f.Value})
	}
	var faces plainMap
	for _, r := range op.Fonts {
		faces = append(faces, mustFont(t, r).Shared)
	}
	if len(faces) == 0 {
		t.Fatalf("infrastructure: split op without fonts")
	}
	return in, func() shaping.Fontmap {
		if op.ScriptAware {
			return &scriptMap{faces: faces}
		}
		return faces
	}
}

func (m *splitMachine) apply(op splitOp) {
	m.c.Ops = append(m.c.Ops, op)
	ev.Journal("split", m.c) // names the culprit if the process hangs or dies in this step
	if op.RunStart < 0 || op.RunEnd > len(op.Text) || op.RunStart > op.RunEnd {
		m.t.Fatalf("infrastructure: run bounds out of range in replayed case")
	}
	in, fm := op.build(m.t)
	inF, _ := op.build(m.t)
	var got, want []shaping.Input
	if op.Burst > 1 {
		alt := op
		alt.Text, alt.RunStart, alt.RunEnd = op.AltText, 0, len(op.AltText)
		inA, _ := alt.build(m.t)
		inB, _ := op.build(m.t)
		if p := try(func() {
			for i := 1; i < op.Burst; i++ {
				if (op.Burst-i)%2 == 0 {
					m.used.Split(inB, fm())
				} else {
					m.used.Split(inA, fm())
				}
			}
		}); p != nil {
			// a panic on one of the two tiny inputs: is it the input's fault?
			if pf := try(func() { (&shaping.Segmenter{}).Split(inA, fm()); (&shaping.Segmenter{}).Split(inB, fm()) }); pf == nil {
				m.fail("the burst panicked on the used segmenter, a fresh one handles both inputs: %v", p)
			}
			m.flags["both_panic_restart"] = true
			m.used = &shaping.Segmenter{}
		}
		m.flags[burstLabel(op.Burst)] = true
	}
	pu := try(func() { got = m.used.Split(in, fm()) })
	pr := try(func() { want = (&shaping.Segmenter{}).Split(inF, fm()) })

	if op.Burst > 1 {
		m.prevRuns = 2 // the burst alternated between two inputs
	}
	key := histKey("", op)
	if m.prevKey != "" && m.prevKey != key && m.prevRuns >= 2 {
		m.flags["different_input_after_multi_run_result"] = true
	}
	m.prevKey, m.prevRuns = key, len(got)
	if len(got) >= 2 {
		m.flags["multi_run"] = true
	}
	if di.Direction(op.Dir).IsVertical() {
		m.flags["vertical"] = true
	}

	if pu != nil || pr != nil {
		if pu != nil && pr != nil {
			m.flags["both_panic_restart"] = true
			m.used = &shaping.Segmenter{}
			m.prevRuns = 0
			return
		}
		m.fail("only one side panicked: used segmenter: %v; fresh segmenter: %v", pu, pr)
	}
	if !sameRunes(in.Text, op.Text) {
		m.fail("Split modified its input text")
	}
	if d := firstDiff(got, want); d != "" {
		m.fail("used Segmenter differs from a fresh one (%d vs %d runs): %s", len(got), len(want), d)
	}
	if op.MutateAfter {
		// the returned runs share the text with the input (nothing is claimed about them any more);
		// a segmenter that kept a reference shows in the next call
		for i := range in.Text {
			in.Text[i] = 0x5A
		}
		for i := range in.FontFeatures {
			in.FontFeatures[i] = shaping.FontFeature{Tag: mustTag("zzzz"), Value: 7}
		}
		m.flags["caller_slices_mutated_after_call"] = true
	}
}

func (m *splitMachine) finish() {
	ev.JournalDone()
	nt := len(m.c.Ops) >= 3 && m.flags["different_input_after_multi_run_result"]
	labels := []string{"split:histories"}
	for k := range m.flags {
		labels = append(labels, "split:"+k)
	}
	if nt {
		labels = append(labels, "split:nontrivial")
	}
	ev.Case(nt, histKey("split", m.c), labels...)
	ev.LabelN("split:steps", int64(len(m.c.Ops)))
	if nt && ev.WantSample() {
		ev.Sample(map[string]any{"check": "split", "case": m.c})
	}
}

// ---- generator

var delimiters = []rune("()[]{}<>«»“”‘’「」『』（）")

// drawMixedText concatenates pieces of different scripts with paired delimiters and spaces in
// between: what the bidi, script (delimiter stack) and face splitting steps react to.
func drawMixedText(t *rapid.T, maxLen int) []rune {
	var out []rune
	for i, n := 0, rapid.IntRange(1, 4).Draw(t, "pieces"); i < n; i++ {
		switch rapid.IntRange(0, 9).Draw(t, "pieceKind") {
		case 0, 1:
			out = append(out, rapid.SampledFrom(delimiters).Draw(t, "delim"))
		case 2:
			out = append(out, ' ')
		case 3:
			out = append(out, rapid.SampledFrom([]rune{'\n', 0x2029, 0x200F, 0x202B, 0x202C, '1', '2', ','}).Draw(t, "special"))
		default:
			sc := rapid.SampledFrom([]string{"latin", "latin", "arabic", "hebrew", "devanagari", "cjk", "greek", "hangul", "thai", "emoji"}).Draw(t, "pieceScript")
			out = append(out, textgen.Text(t, textgen.Opts{MaxLen: 6, Scripts: []string{sc}, Hostile: 5, NoInvalid: false})...)
		}
		if rapid.IntRange(0, 3).Draw(t, "closing") == 0 {
			out = append(out, rapid.SampledFrom(delimiters).Draw(t, "delim"))
		}
	}
	if len(out) > maxLen {
		out = out[:maxLen]
	}
	return out
}

func drawFontList(t *rapid.T, max int) []fontRef {
	all := append(append([]string{}, staticPool...), fCommissioner, fEstedad)
	var out []fontRef
	for i, n := 0, rapid.IntRange(1, max).Draw(t, "nFonts"); i < n; i++ {
		out = append(out, fontRef{File: rapid.SampledFrom(all).Draw(t, "font")})
	}
	return out
}

func drawSplitOp(t *rapid.T) splitOp {
	text := drawMixedText(t, ev.Scale(24, 64))
	op := splitOp{Text: text, RunEnd: len(text)}
	if len(text) > 0 && rapid.IntRange(0, 9).Draw(t, "subRun") < 2 {
		op.RunStart = rapid.IntRange(0, len(text)).Draw(t, "runStart")
		op.RunEnd = rapid.IntRange(op.RunStart, len(text)).Draw(t, "runEnd")
	}
	d := rapid.SampledFrom([]di.Direction{di.DirectionLTR, di.DirectionLTR, di.DirectionRTL, di.DirectionRTL, di.DirectionTTB, di.DirectionBTT}).Draw(t, "dir")
	if d.IsVertical() && rapid.IntRange(0, 2).Draw(t, "orientationSet") == 0 {
		d.SetSideways(rapid.Bool().Draw(t, "sideways"))
	}
	op.Dir = uint8(d)
	op.Lang = rapid.SampledFrom([]string{"", "en", "fr", "ar", "zh", "xx-unknown"}).Draw(t, "lang")
	op.Size = rapid.SampledFrom(shapeSizes).Draw(t, "size")
	if rapid.IntRange(0, 4).Draw(t, "withFeature") == 0 {
		op.Features = []featDef{{Tag: "liga", Value: 0}}
	}
	op.Fonts = drawFontList(t, 3)
	op.ScriptAware = rapid.IntRange(0, 3).Draw(t, "scriptAware") == 0
	op.MutateAfter = rapid.IntRange(0, 3).Draw(t, "mutateAfter") == 0
	return op
}

func TestPropSplit(t *testing.T) {
	rapid.Check(t, func(rt *rapid.T) {
		m := newSplitMachine(rt)
		rt.Repeat(map[string]func(*rapid.T){
			"split": func(rt *rapid.T) { m.apply(drawSplitOp(rt)) },
			"burst": func(rt *rapid.T) {
				op := drawSplitOp(rt)
				if rapid.IntRange(0, 2).Draw(rt, "doBurst") == 0 {
					// both inputs of a burst are tiny: the cost of a long history is the number of calls
					op.Text = drawMixedText(rt, 6)
					op.RunStart, op.RunEnd = 0, len(op.Text)
					op.AltText = drawMixedText(rt, 6)
					op.Burst = drawBurstN(rt, false) // 2^16 Splits (bidi) are not affordable
				}
				m.apply(op)
			},
			"split_again": func(rt *rapid.T) {
				// the same input as the previous step once more, or a prefix of it: a shorter result
				// after a longer one is what exposes stale slice contents
				if len(m.c.Ops) == 0 {
					m.apply(drawSplitOp(rt))
					return
				}
				op := m.c.Ops[len(m.c.Ops)-1]
				op.Text = copyRunes(op.Text)
				if n := len(op.Text); n > 0 && rapid.Bool().Draw(rt, "prefix") {
					op.Text = op.Text[:rapid.IntRange(0, n-1).Draw(rt, "keep")]
					if op.RunEnd > len(op.Text) {
						op.RunEnd = len(op.Text)
					}
					if op.RunStart > op.RunEnd {
						op.RunStart = op.RunEnd
					}
				}
				m.apply(op)
			},
		})
		m.finish()
	})
}

func replaySplit(t *testing.T, raw json.RawMessage) {
	var c splitCase
	if err := json.Unmarshal(raw, &c); err != nil {
		t.Fatalf("infrastructure: %v", err)
	}
	m := newSplitMachine(t)
	for _, op := range c.Ops {
		m.apply(op)
	}
}
