package c13

import (
	"encoding/json"
	"fmt"
	"testing"

	"github.com/go-text/typesetting/di"
	"github.com/go-text/typesetting/language"
	"github.com/go-text/typesetting/shaping"
	"golang.org/x/image/math/fixed"
	"pgregory.net/rapid"

	"verif/internal/ev"
	"verif/internal/textgen"
)

// ---------------------------------------------------------------------------------------------
// shaping.LineWrapper state machine
//
// Ops: WrapParagraph, Prepare, WrapNextLine over different paragraphs (shaped by the real
// pipeline: Segmenter.Split + HarfbuzzShaper.Shape with one to three corpus fonts; helper
// objects are new for every paragraph so that only the wrapper under test is reused).
// The wrapper writes into the glyphs of the runs it is given (trailing-space trimming), so the
// used and the fresh wrapper each receive their own deep copy of the runs: "the arguments of that
// call" are the same values.
// Oracle: WrapParagraph on the used wrapper == WrapParagraph on a zero-value wrapper; the k-th
// WrapNextLine after Prepare == the k-th WrapNextLine of a zero-value wrapper after the same
// Prepare and the same k-1 widths. Lines returned by WrapNextLine are documented valid "until the
// next call to Prepare or WrapParagraph": deep copies of the lines of the running iteration are
// re-compared after every later WrapNextLine. The machine never calls WrapNextLine after a
// WrapParagraph without a new Prepare (Prepare "must be called prior to invoking WrapNextLine").

type paraDef struct {
	Text  []rune    `json:"text"`
	Fonts []fontRef `json:"fonts"`
	Dir   uint8     `json:"dir"`
	Size  int32     `json:"size"`
	Lang  string    `json:"lang,omitempty"`
}

type wrapCfg struct {
	Dir                uint8 `json:"dir"`
	TruncateAfterLines int   `json:"truncate_after_lines,omitempty"`
	Truncator          bool  `json:"truncator,omitempty"` // "…" shaped with the paragraph's first font
	TextContinues      bool  `json:"text_continues,omitempty"`
	BreakPolicy        uint8 `json:"break_policy,omitempty"`
	DisableTrim        bool  `json:"disable_trim,omitempty"`
}

type wrapOp struct {
	// wrap_paragraph | prepare | next_line |
	// burst_wrap_paragraph: Burst-1 uncompared WrapParagraph calls alternating between AltPara and Para
	//   (same config and width), then this call as "wrap_paragraph" |
	// burst_prepare: Burst-1 times Prepare + one WrapNextLine(MaxWidth), alternating likewise, then "prepare"
	Kind     string   `json:"kind"`
	Burst    int      `json:"burst,omitempty"`
	AltPara  *paraDef `json:"alt_para,omitempty"`
	Para     *paraDef `json:"para,omitempty"`
	Cfg      *wrapCfg `json:"cfg,omitempty"`
	MaxWidth int      `json:"max_width"`
}

type wrapCase struct {
	Ops []wrapOp `json:"ops"`
}

type shapedPara struct {
	text      []rune
	runs      []shaping.Output
	truncator shaping.Output
	total     int // sum of the run advances (ceil), for width generation
}

func copyRuns(runs []shaping.Output) []shaping.Output {
	out := make([]shaping.Output, len(runs))
	for i, r := range runs {
		out[i] = copyOutput(r)
	}
	return out
}

func copyLines(lines []shaping.Line) []shaping.Line {
	if lines == nil {
		return nil
	}
	out := make([]shaping.Line, len(lines))
	for i, l := range lines {
		if l != nil {
			out[i] = shaping.Line(copyRuns(l))
		}
	}
	return out
}

// shapePara runs the library's own pipeline with brand-new helper objects.
func shapePara(t ev.TB, p paraDef) (sp *shapedPara, panicked any) {
	sp = &shapedPara{text: copyRunes(p.Text)}
	var faces plainMap
	for _, r := range p.Fonts {
		faces = append(faces, mustFont(t, r).Shared)
	}
	if len(faces) == 0 {
		t.Fatalf("infrastructure: paragraph without fonts")
	}
	panicked = try(func() {
		in := shaping.Input{Text: copyRunes(p.Text), RunEnd: len(p.Text), Direction: di.Direction(p.Dir), Size: fixed.Int26_6(p.Size), Language: language.Language(p.Lang)}
		var seg shaping.Segmenter
		for _, run := range seg.Split(in, faces) {
			if run.Face == nil {
				run.Face = faces[0] // Split leaves the face unset for an empty run: choose as a caller must
			}
			sp.runs = append(sp.runs, (&shaping.HarfbuzzShaper{}).Shape(run))
		}
		tr := shaping.Input{Text: []rune("…"), RunEnd: 1, Direction: di.Direction(p.Dir) & 1, Size: fixed.Int26_6(p.Size), Face: faces[0], Script: language.Common, Language: "en"}
		sp.truncator = (&shaping.HarfbuzzShaper{}).Shape(tr)
	})
	for _, r := range sp.runs {
		a := r.Advance.Ceil()
		if a < 0 {
			a = -a
		}
		sp.total += a
	}
	return sp, panicked
}

func (c wrapCfg) config(sp *shapedPara) shaping.WrapConfig {
	wc := shaping.WrapConfig{Direction: di.Direction(c.Dir), TruncateAfterLines: c.TruncateAfterLines, TextContinues: c.TextContinues,
		BreakPolicy: shaping.LineBreakPolicy(c.BreakPolicy), DisableTrailingWhitespaceTrim: c.DisableTrim}
	if c.Truncator {
		wc.Truncator = copyOutput(sp.truncator)
	}
	return wc
}

type lineRec struct {
	got, cpy shaping.WrappedLine
}

type wrapMachine struct {
	t    ev.TB
	c    *wrapCase
	used *shaping.LineWrapper

	paras map[string]*shapedPara

	// the running Prepare/WrapNextLine iteration (nil after WrapParagraph)
	prep       *shapedPara
	prepCfg    wrapCfg
	prepWidths []int
	prepLines  []lineRec
	prepDone   bool
	extraCalls int

	prevBegin string
	prevLines int
	flags     map[string]bool
}

func newWrapMachine(t ev.TB) *wrapMachine {
	return &wrapMachine{t: t, c: &wrapCase{}, used: &shaping.LineWrapper{}, paras: map[string]*shapedPara{}, flags: map[string]bool{}}
}

func (m *wrapMachine) fail(format string, args ...any) {
	m.t.Helper()
	ev.Fail(m.t, "wrap", m.c, "step %d: "+format, append([]any{len(m.c.Ops) - 1}, args...)...)
}

// para returns the shaped paragraph (nil when the shaping pipeline itself panicked: not C13's
// business, the op is then skipped).
func (m *wrapMachine) para(p paraDef) *shapedPara {
	k := histKey("", p)
	if sp, ok := m.paras[k]; ok {
		return sp
	}
	sp, panicked := shapePara(m.t, p)
	if panicked != nil {
		sp = nil
		m.flags["shaping_pipeline_panicked"] = true
	}
	m.paras[k] = sp
	return sp
}

func (m *wrapMachine) restart() {
	m.flags["both_panic_restart"] = true
	m.used = &shaping.LineWrapper{}
	m.prep = nil
}

func (m *wrapMachine) begin(op wrapOp, sp *shapedPara) {
	key := histKey("", []any{op.Para, op.Cfg})
	if m.prevBegin != "" && m.prevBegin != key {
		m.flags["other_paragraph_or_config"] = true
		if m.prevLines >= 2 {
			m.flags["other_paragraph_after_multi_line_result"] = true
		}
	}
	if m.prep != nil && !m.prepDone {
		m.flags["abandoned_iteration"] = true
	}
	m.prevBegin = key
	m.prevLines = 0
}

// burst performs the uncompared calls of a burst op; it reports false when the op cannot go on.
func (m *wrapMachine) burst(op wrapOp) bool {
	if op.Para == nil || op.Cfg == nil || op.AltPara == nil {
		m.t.Fatalf("infrastructure: incomplete op in replayed case")
	}
	sps := [2]*shapedPara{m.para(*op.Para), m.para(*op.AltPara)}
	if sps[0] == nil || sps[1] == nil {
		return false
	}
	one := func(w *shaping.LineWrapper, sp *shapedPara) {
		if op.Kind == "burst_wrap_paragraph" {
			w.WrapParagraph(op.Cfg.config(sp), op.MaxWidth, copyRunes(sp.text), shaping.NewSliceIterator(copyRuns(sp.runs)))
		} else {
			w.Prepare(op.Cfg.config(sp), copyRunes(sp.text), shaping.NewSliceIterator(copyRuns(sp.runs)))
			w.WrapNextLine(op.MaxWidth)
		}
	}
	m.flags[burstLabel(op.Burst)] = true
	if p := try(func() {
		for i := 1; i < op.Burst; i++ {
			one(m.used, sps[(op.Burst-i)%2])
		}
	}); p != nil {
		if pf := try(func() { one(&shaping.LineWrapper{}, sps[0]); one(&shaping.LineWrapper{}, sps[1]) }); pf == nil {
			m.fail("the burst panicked on the used wrapper, a fresh one handles both paragraphs: %v", p)
		}
		m.restart()
	}
	m.prep = nil
	if op.Burst > 1 {
		m.flags["abandoned_iteration"] = m.flags["abandoned_iteration"] || op.Kind == "burst_prepare"
		m.prevBegin, m.prevLines = "burst", 2
	}
	return true
}

func (m *wrapMachine) apply(op wrapOp) {
	m.c.Ops = append(m.c.Ops, op)
	ev.Journal("wrap", m.c) // names the culprit if the process hangs or dies in this step
	switch op.Kind {
	case "burst_wrap_paragraph":
		if m.burst(op) {
			op.Kind = "wrap_paragraph"
		} else {
			return
		}
	case "burst_prepare":
		if m.burst(op) {
			op.Kind = "prepare"
		} else {
			return
		}
	}
	switch op.Kind {
	case "wrap_paragraph":
		if op.Para == nil || op.Cfg == nil {
			m.t.Fatalf("infrastructure: incomplete op in replayed case")
		}
		sp := m.para(*op.Para)
		if sp == nil {
			return
		}
		m.begin(op, sp)
		m.prep = nil
		var got, want []shaping.Line
		var gotTr, wantTr int
		textU, textF := copyRunes(sp.text), copyRunes(sp.text)
		pu := try(func() {
			got, gotTr = m.used.WrapParagraph(op.Cfg.config(sp), op.MaxWidth, textU, shaping.NewSliceIterator(copyRuns(sp.runs)))
		})
		pr := try(func() {
			want, wantTr = (&shaping.LineWrapper{}).WrapParagraph(op.Cfg.config(sp), op.MaxWidth, textF, shaping.NewSliceIterator(copyRuns(sp.runs)))
		})
		if pu != nil || pr != nil {
			if pu != nil && pr != nil {
				m.restart()
				return
			}
			m.fail("WrapParagraph: only one side panicked: used wrapper: %v; fresh wrapper: %v", pu, pr)
		}
		m.prevLines = len(got)
		if len(got) >= 2 {
			m.flags["multi_line"] = true
		}
		if !sameRunes(textU, sp.text) {
			m.fail("WrapParagraph modified the paragraph text")
		}
		if gotTr != wantTr {
			m.fail("WrapParagraph: truncated=%d on the used wrapper, %d on a fresh one", gotTr, wantTr)
		}
		if d := firstDiff(got, want); d != "" {
			m.fail("WrapParagraph: used wrapper differs from a fresh one (%d vs %d lines): %s", len(got), len(want), d)
		}
	case "prepare":
		if op.Para == nil || op.Cfg == nil {
			m.t.Fatalf("infrastructure: incomplete op in replayed case")
		}
		sp := m.para(*op.Para)
		if sp == nil {
			return
		}
		m.begin(op, sp)
		m.prep, m.prepCfg, m.prepWidths, m.prepLines, m.prepDone, m.extraCalls = sp, *op.Cfg, nil, nil, false, 0
		if p := try(func() {
			m.used.Prepare(op.Cfg.config(sp), copyRunes(sp.text), shaping.NewSliceIterator(copyRuns(sp.runs)))
		}); p != nil {
			// compare with a fresh wrapper
			if pf := try(func() {
				(&shaping.LineWrapper{}).Prepare(op.Cfg.config(sp), copyRunes(sp.text), shaping.NewSliceIterator(copyRuns(sp.runs)))
			}); pf == nil {
				m.fail("Prepare panicked on the used wrapper only: %v", p)
			}
			m.restart()
		}
	case "next_line":
		if m.prep == nil {
			m.t.Fatalf("infrastructure: next_line without a prepared paragraph in replayed case")
		}
		sp := m.prep
		m.prepWidths = append(m.prepWidths, op.MaxWidth)
		var got, want shaping.WrappedLine
		var gotDone, wantDone bool
		pu := try(func() { got, gotDone = m.used.WrapNextLine(op.MaxWidth) })
		pr := try(func() {
			var fw shaping.LineWrapper
			fw.Prepare(m.prepCfg.config(sp), copyRunes(sp.text), shaping.NewSliceIterator(copyRuns(sp.runs)))
			for _, w := range m.prepWidths {
				want, wantDone = fw.WrapNextLine(w)
			}
		})
		if pu != nil || pr != nil {
			if pu != nil && pr != nil {
				m.restart()
				return
			}
			m.fail("WrapNextLine #%d: only one side panicked: used wrapper: %v; fresh wrapper: %v", len(m.prepWidths), pu, pr)
		}
		if m.prepDone {
			m.extraCalls++
			m.flags["next_line_after_done"] = true
			if got.Line != nil || !gotDone {
				m.fail("WrapNextLine after done returned a non-nil line or done=false (documented: a nil line)")
			}
		}
		if gotDone != wantDone {
			m.fail("WrapNextLine #%d: done=%v on the used wrapper, %v on a fresh one", len(m.prepWidths), gotDone, wantDone)
		}
		if d := firstDiff(got, want); d != "" {
			m.fail("WrapNextLine #%d: used wrapper differs from a fresh one replaying the same iteration: %s", len(m.prepWidths), d)
		}
		// lines of this iteration stay valid until the next Prepare / WrapParagraph
		for i, e := range m.prepLines {
			if d := firstDiff(e.got, e.cpy); d != "" {
				m.fail("the line returned by WrapNextLine #%d was modified by WrapNextLine #%d (before any Prepare/WrapParagraph): %s", i+1, len(m.prepWidths), d)
			}
		}
		cp := got
		if got.Line != nil {
			cp.Line = shaping.Line(copyRuns(got.Line))
		}
		m.prepLines = append(m.prepLines, lineRec{got: got, cpy: cp})
		if got.Line != nil {
			m.prevLines++
		}
		if m.prevLines >= 2 {
			m.flags["multi_line"] = true
		}
		m.prepDone = m.prepDone || gotDone
	default:
		m.t.Fatalf("infrastructure: unknown op %q", op.Kind)
	}
}

func (m *wrapMachine) finish() {
	ev.JournalDone()
	nt := len(m.c.Ops) >= 3 && (m.flags["other_paragraph_after_multi_line_result"] || m.flags["abandoned_iteration"])
	labels := []string{"wrap:histories"}
	for k := range m.flags {
		labels = append(labels, "wrap:"+k)
	}
	if nt {
		labels = append(labels, "wrap:nontrivial")
	}
	ev.Case(nt, histKey("wrap", m.c), labels...)
	ev.LabelN("wrap:steps", int64(len(m.c.Ops)))
	if nt && ev.WantSample() {
		ev.Sample(map[string]any{"check": "wrap", "case": m.c})
	}
}

// ---- generators

func drawPara(t *rapid.T) paraDef {
	p := paraDef{Fonts: drawFontList(t, 2), Size: rapid.SampledFrom([]int32{10 * 64, 16 * 64, 72 * 64}).Draw(t, "size")}
	pf := mustFont(t, p.Fonts[0])
	var text []rune
	for i, n := 0, rapid.IntRange(1, ev.Scale(5, 10)).Draw(t, "words"); i < n; i++ {
		if i > 0 {
			switch rapid.IntRange(0, 9).Draw(t, "sep") {
			case 0:
				text = append(text, '\n')
			case 1:
			case 2:
				text = append(text, ' ', ' ')
			default:
				text = append(text, ' ')
			}
		}
		text = append(text, textgen.Text(t, textgen.Opts{MaxLen: 8, FontPool: pf.Runes, Scripts: pf.Scripts, Hostile: 4})...)
	}
	p.Text = text
	d := di.DirectionLTR
	if rtlScripts[scriptOf(text)] || rapid.IntRange(0, 7).Draw(t, "rtl") == 0 {
		d = di.DirectionRTL
	}
	if rapid.IntRange(0, 9).Draw(t, "vertical") == 0 {
		d = di.DirectionTTB
	}
	p.Dir = uint8(d)
	p.Lang = rapid.SampledFrom([]string{"", "en", "ar"}).Draw(t, "lang")
	return p
}

func drawWrapCfg(t *rapid.T, p paraDef) wrapCfg {
	c := wrapCfg{Dir: p.Dir}
	if rapid.IntRange(0, 5).Draw(t, "otherDir") == 0 {
		c.Dir = uint8(rapid.SampledFrom([]di.Direction{di.DirectionLTR, di.DirectionRTL}).Draw(t, "cfgDir"))
	}
	if rapid.IntRange(0, 2).Draw(t, "truncating") == 0 {
		c.TruncateAfterLines = rapid.IntRange(1, 3).Draw(t, "maxLines")
		c.Truncator = rapid.Bool().Draw(t, "truncator")
		c.TextContinues = rapid.IntRange(0, 3).Draw(t, "textContinues") == 0
	}
	c.BreakPolicy = uint8(rapid.SampledFrom([]int{0, 0, 1, 2}).Draw(t, "breakPolicy"))
	c.DisableTrim = rapid.IntRange(0, 4).Draw(t, "disableTrim") == 0
	return c
}

func drawWidth(t *rapid.T, sp *shapedPara) int {
	total := 100
	if sp != nil {
		total = sp.total
	}
	switch rapid.IntRange(0, 11).Draw(t, "widthKind") {
	case 0:
		return 0
	case 1:
		return 1 << 20
	case 2:
		return total
	case 3:
		return total + 1
	case 4, 5:
		return total/2 + 1
	case 6, 7:
		return total/3 + 1
	case 8:
		return total/5 + 1
	case 9:
		return total / 10
	default:
		return rapid.IntRange(0, total+10).Draw(t, "width")
	}
}

func TestPropWrap(t *testing.T) {
	rapid.Check(t, func(rt *rapid.T) {
		m := newWrapMachine(rt)
		// a few paragraphs revisited by the history
		var paras []paraDef
		for i, n := 0, rapid.IntRange(2, 3).Draw(rt, "nParas"); i < n; i++ {
			paras = append(paras, drawPara(rt))
		}
		drawBegin := func(rt *rapid.T, kind string) wrapOp {
			p := rapid.SampledFrom(paras).Draw(rt, "para")
			c := drawWrapCfg(rt, p)
			op := wrapOp{Kind: kind, Para: &p, Cfg: &c}
			if kind == "wrap_paragraph" {
				op.MaxWidth = drawWidth(rt, m.para(p))
			}
			return op
		}
		actions := map[string]func(*rapid.T){}
		weighted(actions, "wrap_paragraph", 3, func(rt *rapid.T) { m.apply(drawBegin(rt, "wrap_paragraph")) })
		weighted(actions, "prepare", 2, func(rt *rapid.T) { m.apply(drawBegin(rt, "prepare")) })
		weighted(actions, "next_line", 4, func(rt *rapid.T) {
			if m.prep == nil || m.extraCalls >= 2 {
				m.apply(drawBegin(rt, "prepare"))
				return
			}
			m.apply(wrapOp{Kind: "next_line", MaxWidth: drawWidth(rt, m.prep)})
		})
		weighted(actions, "burst", 1, func(rt *rapid.T) {
			// many tiny wraps in one step, then a compared call
			op := drawBegin(rt, rapid.SampledFrom([]string{"wrap_paragraph", "prepare"}).Draw(rt, "burstOf"))
			if rapid.IntRange(0, 2).Draw(rt, "doBurst") != 0 {
				m.apply(op)
				return
			}
			op.Kind = "burst_" + op.Kind
			alt := drawPara(rt)
			if len(alt.Text) > 6 {
				alt.Text = alt.Text[:6]
			}
			op.AltPara = &alt
			if op.MaxWidth == 0 {
				op.MaxWidth = drawWidth(rt, m.para(*op.Para))
			}
			op.Burst = drawBurstN(rt, false)
			if len(op.Para.Text) > 12 && op.Burst > 300 {
				op.Burst = rapid.SampledFrom(burstByte[:4]).Draw(rt, "burstN")
			}
			m.apply(op)
		})
		rt.Repeat(actions)
		m.finish()
	})
}

func replayWrap(t *testing.T, raw json.RawMessage) {
	var c wrapCase
	if err := json.Unmarshal(raw, &c); err != nil {
		t.Fatalf("infrastructure: %v", err)
	}
	m := newWrapMachine(t)
	for _, op := range c.Ops {
		if op.Kind == "next_line" && m.prep == nil {
			// the paragraph of the preceding prepare could not be shaped (pipeline panic) or the
			// wrapper was restarted after a panic on both sides: the generator would not have drawn it
			t.Logf("skipping next_line without prepared paragraph")
			continue
		}
		m.apply(op)
	}
	_ = fmt.Sprint
}
