// Package c14 decides property C14: font resolution is total, cache-transparent and follows the
// documented priority.
//
// A rapid state machine drives one fontscan.FontMap through AddFace / AddFont / SetQuery /
// SetScript / SetRuneCacheSize / ResolveFace / ResolveFaceForLang; after every lookup the answer
// is compared with (a) totality, (b) the answer of a fresh FontMap that only saw the Add* calls
// and the current query/script, rune cache disabled, and (c) an independent model of the
// documented four-step priority (model_test.go).
package c14

import (
	"bytes"
	"encoding/json"
	"fmt"
	"io"
	"log"
	"os"
	"path/filepath"
	"sort"
	"strings"
	"sync"
	"testing"

	"github.com/go-text/typesetting/font"
	"github.com/go-text/typesetting/fontscan"
	"github.com/go-text/typesetting/language"
	"pgregory.net/rapid"

	"verif/internal/corpus"
	"verif/internal/ev"
	"verif/props/c15"
)

func TestMain(m *testing.M) { ev.Main(m) }

// ---------------------------------------------------------------------------------------------
// font pool
// ---------------------------------------------------------------------------------------------

const (
	aots    = "harfbuzz/harfbuzz_reference/aots/fonts/"
	inhouse = "harfbuzz/harfbuzz_reference/in-house/fonts/"
	trt     = "harfbuzz/harfbuzz_reference/text-rendering-tests/fonts/"
)

// facePoolFiles: small single-face fonts with different coverage (AddFace).
var facePoolFiles = []string{
	aots + "gsub1_1_simple_f1.otf",                           // Latin, Common (99 runes)
	aots + "cmap0_font1.otf",                                 // Greek, Latin, Common (255)
	aots + "cmap4_font4.otf",                                 // Arabic, Cyrillic, Greek, Hangul, Latin, ... (1103)
	inhouse + "15dfc433a135a658b9f4b1a861b5cdd9658ccbb9.ttf", // Arabic, Common (14)
	inhouse + "df768b9c257e0c9c35786c47cae15c46571d56be.ttf", // Arabic, Inherited (18)
	inhouse + "43ef465752be9af900745f72fe29cb853a1401a5.ttf", // Hebrew (9)
	trt + "TestMORXForty.ttf",                                // Hebrew, Latin, Common (6)
	trt + "TestGVAROne.ttf",                                  // Han, Common (14)
	inhouse + "6991b13ce889466be6de3f66e891de2bc0f117ee.ttf", // Han, Latin, Common (5)
	inhouse + "63a539a90a371ccf028dc2dcced9b63b07163be7.ttf", // Lao, Thai, Common (33)
	inhouse + "1a5face3fcbd929d228235c2f72bbd6f8eb37424.ttf", // Devanagari, Common (41)
	inhouse + "932ad5132c2761297c74e9976fe25b08e5ffa10b.ttf", // Bengali, Greek, Latin (494)
	aots + "cmap12_font1.otf",                                // unassigned / symbols (10)
}

// resourceFiles: font files given to AddFont (the first one is a two-face collection).
var resourceFiles = []string{
	inhouse + "TTC.ttc",
	aots + "cmap0_font1.otf",
	inhouse + "43ef465752be9af900745f72fe29cb853a1401a5.ttf",
	inhouse + "15dfc433a135a658b9f4b1a861b5cdd9658ccbb9.ttf",
	trt + "TestGVAROne.ttf",
}

// coverage is what the footprint of a face records (computed by the library's own coverage
// builder through the verif hooks: coverage itself is property C11's business).
type coverage struct {
	Runes   fontscan.RuneSet
	Scripts fontscan.ScriptSet
	Langs   fontscan.LangSet
	Family  string      // family found in the file (normalised)
	Aspect  font.Aspect // aspect found in the file
	Err     error       // AddFont ignores faces whose footprint cannot be built
	Sample  []rune      // a few covered runes
}

type fontFile struct {
	rel   string
	bytes []byte
	cov   []coverage // one per face of the file

	mu     sync.Mutex
	copies [][]*font.Face // copies[k] = k-th independent parse of the file
}

var (
	filesMu sync.Mutex
	filesBy = map[string]*fontFile{}
)

func getFile(rel string) (*fontFile, error) {
	filesMu.Lock()
	defer filesMu.Unlock()
	if f, ok := filesBy[rel]; ok {
		return f, nil
	}
	b, err := corpus.Bytes(rel)
	if err != nil {
		return nil, err
	}
	f := &fontFile{rel: rel, bytes: b}
	lds, err := corpus.Loaders(rel)
	if err != nil {
		return nil, err
	}
	for _, ld := range lds {
		fp, err := fontscan.VerifFootprintFromLoader(ld, true)
		c := coverage{Runes: fp.Runes, Scripts: fp.Scripts, Langs: fp.Langs, Family: fp.Family, Aspect: fp.Aspect, Err: err}
		f.cov = append(f.cov, c)
	}
	faces, err := f.parse(0)
	if err != nil {
		return nil, err
	}
	for i := range f.cov {
		if i >= len(faces) {
			break
		}
		// AddFace computes its footprint from the parsed font
		fp := fontscan.VerifFootprintFromFont(faces[i].Font, fontscan.Location{}, font.Description{})
		if f.cov[i].Err == nil && (fp.Runes.Len() != f.cov[i].Runes.Len() || len(fp.Scripts) != len(f.cov[i].Scripts)) {
			return nil, fmt.Errorf("%s#%d: footprint from font and from loader disagree", rel, i)
		}
		var all []rune
		it := faces[i].Font.Cmap.Iter()
		for it.Next() {
			r, _ := it.Char()
			if fp.Runes.Contains(r) {
				all = append(all, r)
			}
		}
		sort.Slice(all, func(a, b int) bool { return all[a] < all[b] })
		for k := 0; k < 6 && len(all) > 0; k++ {
			f.cov[i].Sample = append(f.cov[i].Sample, all[k*(len(all)-1)/5])
		}
	}
	filesBy[rel] = f
	return f, nil
}

// parse returns the faces of the k-th independent parse of the file (distinct *font.Font
// objects, so that FontMetadata / FontLocation, keyed by *font.Font, are unambiguous).
func (f *fontFile) parse(k int) ([]*font.Face, error) {
	f.mu.Lock()
	defer f.mu.Unlock()
	for len(f.copies) <= k {
		faces, err := font.ParseTTC(bytes.NewReader(f.bytes))
		if err != nil {
			return nil, err
		}
		f.copies = append(f.copies, faces)
	}
	return f.copies[k], nil
}

// ---------------------------------------------------------------------------------------------
// name pools
// ---------------------------------------------------------------------------------------------

var (
	// made-up families no substitution rule mentions (checked once through the hook); several
	// spellings normalise to the same family, one carries the "mono" hint, two pairs collide when
	// concatenated ("zzverifa"+"bx" = "zzverifab"+"x").
	madeUp = []string{"ZZ Verif One", "zzverifone", "Zz Verif Two", "zzverif mono three", "zzverifa", "zzverifab", "bx", "x"}
	// families the substitution table knows
	realNames = []string{
		"Arial", "Helvetica", "Nimbus Sans", "Liberation Sans", "DejaVu Sans", "Times New Roman", "Liberation Serif",
		"DejaVu Serif", "Courier New", "DejaVu Sans Mono", "Noto Sans Arabic", "Noto Sans CJK JP", "Amiri", "Carlito",
		"Calibri", "Noto Color Emoji", "Symbola", "Noto Sans Hebrew", "Lohit Devanagari",
	}
	generics = []string{fontscan.Serif, fontscan.SansSerif, fontscan.Monospace, fontscan.Cursive, fontscan.Fantasy, fontscan.Math, fontscan.Emoji}

	scripts = []language.Script{
		0, language.Latin, language.Arabic, language.Hebrew, language.Han, language.Thai, language.Devanagari,
		language.Bengali, language.Greek, language.Cyrillic, language.Common, language.Unknown, language.Georgian, language.Inherited,
	}
	langs = []language.LangID{
		0, language.LangEn, language.LangFr, language.LangAr, language.LangHe, language.LangJa, language.LangKo, language.LangTh,
		language.LangHi, language.LangBn, language.LangEl, language.LangRu, language.LangKa, language.LangUnd_Zsye,
	}
	commonRunes    = []rune{' ', '0', 'a', 'A', '.', 0xA0, 0x5D0, 0x627, 0x4E00, 0x3B1, 0x915, 0xE01}
	uncoveredRunes = []rune{0x10FFFD, 0xE000, 0x1F600, 0xFFFE, 0x1, 0x10A0, 0x2FFFF}
	cacheSizes     = []int{0, 1, 3, 4096}
	fileExts       = []string{".ttf", ".otf", ".ttc", ""}
	commonAspects  = []font.Aspect{
		{Style: font.StyleNormal, Weight: 400, Stretch: 1}, {Style: font.StyleNormal, Weight: 700, Stretch: 1},
		{Style: font.StyleItalic, Weight: 400, Stretch: 1}, {Style: font.StyleNormal, Weight: 400, Stretch: 0.75},
		{Style: font.StyleNormal, Weight: 300, Stretch: 1},
	}
)

func isMadeUp(normalised string) bool {
	for _, m := range madeUp {
		if font.NormalizeFamily(m) == normalised {
			return true
		}
	}
	return false
}

var (
	namesOnce sync.Once
	namesErr  error
)

// checkNamePools verifies, through the substitution hook, that the made-up families are outside
// the substitution table: they are reached from no generic or real family, and reach nothing else
// of the pool.
func checkNamePools() error {
	namesOnce.Do(func() {
		for _, m := range madeUp {
			n := font.NormalizeFamily(m)
			s := fontscan.VerifSubstitutions([]string{m}, 0)
			if sc, ok := s[n]; !ok || !sc.Strong {
				namesErr = fmt.Errorf("made-up family %q is altered by the substitution table", m)
				return
			}
			for k := range s {
				if k != n && isMadeUp(k) {
					namesErr = fmt.Errorf("made-up family %q reaches %q", m, k)
					return
				}
			}
		}
		for _, q := range append(append([]string{""}, generics...), realNames...) {
			for _, sc := range scripts {
				for k := range fontscan.VerifSubstitutions([]string{q}, language.ScriptToLang[sc]) {
					if isMadeUp(k) {
						namesErr = fmt.Errorf("family %q reaches the made-up family %q", q, k)
						return
					}
				}
			}
		}
	})
	return namesErr
}

// ---------------------------------------------------------------------------------------------
// decoded history
// ---------------------------------------------------------------------------------------------

type aspectJ struct {
	Style   uint8   `json:"style"`
	Weight  float32 `json:"weight"`
	Stretch float32 `json:"stretch"`
}

func toJ(a font.Aspect) *aspectJ {
	return &aspectJ{uint8(a.Style), float32(a.Weight), float32(a.Stretch)}
}
func (a *aspectJ) aspect() font.Aspect {
	if a == nil {
		return font.Aspect{}
	}
	return font.Aspect{Style: font.Style(a.Style), Weight: font.Weight(a.Weight), Stretch: font.Stretch(a.Stretch)}
}

// op is one decoded step. Only the fields of its kind are meaningful.
type op struct {
	Op string `json:"op"` // AddFace AddFont SetQuery MutateQuerySlice SetScript SetRuneCacheSize ResolveFace ResolveFaceForLang

	// AddFace: face #0 of the Copy-th parse of corpus file File, added under Location{File: ID}
	// with description {Family, Aspect}. AddFont: the bytes of corpus file File, fileID ID,
	// familyName Family.
	File string `json:"file,omitempty"`
	Copy int    `json:"copy,omitempty"`
	ID   string `json:"id,omitempty"`
	// AddFace only: the other fields of the Location (same File, other Index/Instance = another
	// location; the harness must not always pass them in their trivial zero form)
	Index    uint16   `json:"index,omitempty"`
	Instance uint16   `json:"instance,omitempty"`
	Family   string   `json:"family,omitempty"`
	Aspect   *aspectJ `json:"aspect,omitempty"`

	Families []string `json:"families,omitempty"` // SetQuery (with Aspect); nil = Query without families
	// Shared: the caller re-uses an argument it owns across calls. SetQuery: the families are
	// written IN PLACE into the caller's one long-lived slice (same backing array for the whole
	// history) and that slice is passed, so the map may still hold it from an earlier SetQuery.
	// AddFont: the caller passes the one reader it keeps for that file (left wherever the previous
	// call left it) instead of a new reader.
	// MutateQuerySlice: the caller overwrites the first len(Families) elements of its long-lived
	// slice in place WITHOUT calling SetQuery.
	Shared bool   `json:"shared,omitempty"`
	Script string `json:"script,omitempty"` // SetScript: ISO 15924 tag, "" = 0
	Size   int    `json:"size,omitempty"`   // SetRuneCacheSize
	Rune   int32  `json:"rune,omitempty"`   // ResolveFace
	Lang   uint16 `json:"lang,omitempty"`   // ResolveFaceForLang
}

type history struct {
	Ops []op `json:"ops"`
}

func scriptTag(s language.Script) string {
	if s == 0 {
		return ""
	}
	return s.String()
}

func parseScript(tag string) language.Script {
	if tag == "" {
		return 0
	}
	s, err := language.ParseScript(tag)
	if err != nil {
		return 0
	}
	return s
}

// ---------------------------------------------------------------------------------------------
// the machine
// ---------------------------------------------------------------------------------------------

type machine struct {
	fm  *fontscan.FontMap
	ops []op
	db  []entry // model of the database, in insertion order (model_test.go)

	adds      []op // the Add* steps, for the fresh replay
	querySet  bool
	families  []string
	aspect    font.Aspect
	scriptSet bool
	script    language.Script

	// evidence only
	cacheSize    int
	lru          lruModel
	labels       map[string]int
	listsDiffer  bool // some lookup with >= 2 faces had different exact-family and fallback lists
	evictedAgain bool // some lookup repeated an identical earlier lookup whose cache entry had been evicted
	nextCopy     map[string]int
	seq          int
	recent       []rune
	prevFamilies []string
	prevAspect   font.Aspect
	prevScript   language.Script
	pureDB       bool // generator mode: only made-up families enter the database

	// caller-owned arguments kept across calls (argument aliasing)
	sharedBuf  []string // the caller's long-lived families slice (one backing array)
	lastShared bool     // the last SetQuery passed sharedBuf[:sharedLen], so the map may alias it
	sharedLen  int
	// dirty: the caller changed, in place, the slice it last gave to SetQuery and has not called
	// SetQuery since. Neither SetQuery ("set the families and aspect required, influencing
	// subsequent ResolveFace calls") nor Query.Families says whether the map follows or ignores
	// such a change, so no lookup is made (none is judged) in that state; the next SetQuery call,
	// with whatever slice, must make the map follow the content it is given.
	dirty   bool
	readers map[string]*bytes.Reader

	lastFaceID string // Location.File of the last AddFace

	subsCache map[string]map[string]fontscan.VerifFamilyScore
	// langMode: generator mode aimed at the language-conditioned substitution rules: faces with
	// Latin coverage registered under families the table reaches only for the language of one
	// steering script (steer) or by default, queries made of generic families and aliases,
	// script changes between lookups among the steering script and scripts no face supports
	langMode bool
	steer    steering
}

func discard() *log.Logger { return log.New(io.Discard, "", 0) }

func newMachine() *machine {
	return &machine{fm: fontscan.NewFontMap(discard()), cacheSize: 4096, labels: map[string]int{}, nextCopy: map[string]int{},
		sharedBuf: make([]string, 4), readers: map[string]*bytes.Reader{}}
}

func (m *machine) label(l string) { m.labels[l]++ }

func (m *machine) failf(t ev.TB, format string, args ...any) {
	ev.Fail(t, "history", history{Ops: m.ops}, "after %d steps (last: %s): "+format, append([]any{len(m.ops), describe(m.ops[len(m.ops)-1])}, args...)...)
}

func describe(o op) string {
	b, _ := json.Marshal(o)
	return string(b)
}

// addTo performs an Add* step on a font map and returns the model entries it creates.
// rd, when not nil, is the caller's long-lived reader for the file (AddFont only).
func addTo(fm *fontscan.FontMap, o op, rd *bytes.Reader) ([]entry, error) {
	f, err := getFile(o.File)
	if err != nil {
		return nil, err
	}
	switch o.Op {
	case "AddFace":
		faces, err := f.parse(o.Copy)
		if err != nil {
			return nil, err
		}
		loc := fontscan.Location{File: o.ID, Index: o.Index, Instance: o.Instance}
		md := font.Description{Family: o.Family, Aspect: o.Aspect.aspect()}
		fm.AddFace(faces[0], loc, md)
		c := f.cov[0]
		md.Aspect.SetDefaults() // model: unset fields of the description mean the regular values
		return []entry{{Loc: loc, Family: font.NormalizeFamily(o.Family), Aspect: md.Aspect, Runes: c.Runes, Scripts: c.Scripts, Langs: c.Langs, Face: faces[0], Sample: c.Sample}}, nil
	case "AddFont":
		if rd == nil {
			rd = bytes.NewReader(f.bytes)
		}
		if err := fm.AddFont(rd, o.ID, o.Family); err != nil {
			return nil, fmt.Errorf("AddFont: %v", err)
		}
		var out []entry
		for i, c := range f.cov {
			if c.Err != nil {
				continue
			}
			e := entry{Loc: fontscan.Location{File: o.ID, Index: uint16(i)}, Family: c.Family, Aspect: c.Aspect, Runes: c.Runes, Scripts: c.Scripts, Langs: c.Langs, Sample: c.Sample}
			if o.Family != "" {
				e.Family = font.NormalizeFamily(o.Family)
			}
			out = append(out, e)
		}
		return out, nil
	}
	return nil, fmt.Errorf("not an Add step: %s", o.Op)
}

// fresh builds a new FontMap that only saw the Add* steps (same order) and the current
// query/script, with the rune cache disabled.
func (m *machine) fresh() (*fontscan.FontMap, error) {
	fm := fontscan.NewFontMap(discard())
	fm.SetRuneCacheSize(0)
	for _, o := range m.adds {
		if _, err := addTo(fm, o, nil); err != nil {
			return nil, err
		}
	}
	if m.querySet {
		fm.SetQuery(fontscan.Query{Families: append([]string(nil), m.families...), Aspect: m.aspect})
	}
	if m.scriptSet {
		fm.SetScript(m.script)
	}
	return fm, nil
}

func (m *machine) indexOf(loc fontscan.Location) int {
	for i, e := range m.db {
		if e.Loc == loc {
			return i
		}
	}
	return -1
}

func (m *machine) currentFamilies() []string {
	if !m.querySet {
		return nil
	}
	return m.families
}

// apply executes one step on the live map and evaluates the oracles.
func (m *machine) apply(t ev.TB, o op) {
	m.ops = append(m.ops, o)
	switch o.Op {
	case "AddFace", "AddFont":
		var (
			es  []entry
			err error
		)
		var rd *bytes.Reader
		if o.Op == "AddFont" && o.Shared {
			if f, ferr := getFile(o.File); ferr == nil {
				if rd = m.readers[o.File]; rd == nil {
					rd = bytes.NewReader(f.bytes)
					m.readers[o.File] = rd
				}
				m.label("addfont_reused_reader")
			}
		}
		m.guard(t, func() { es, err = addTo(m.fm, o, rd) })
		if err != nil {
			m.failf(t, "%v", err)
		}
		m.db = append(m.db, es...)
		m.adds = append(m.adds, o)
		m.lru.clear()
		m.label("op_" + o.Op)
	case "SetQuery":
		m.prevFamilies, m.prevAspect = m.families, m.aspect
		var fams []string
		if o.Shared {
			if len(o.Families) > cap(m.sharedBuf) {
				m.sharedBuf = make([]string, len(o.Families))
			}
			fams = m.sharedBuf[:len(o.Families)]
			copy(fams, o.Families) // in place: the map may still hold this slice
			if m.lastShared {
				m.label("setquery_same_slice_again")
			}
		} else {
			fams = append([]string(nil), o.Families...)
		}
		m.guard(t, func() { m.fm.SetQuery(fontscan.Query{Families: fams, Aspect: o.Aspect.aspect()}) })
		m.lastShared, m.sharedLen, m.dirty = o.Shared && len(o.Families) > 0, len(o.Families), false
		m.querySet = true
		m.families = append([]string(nil), o.Families...)
		if len(m.families) == 0 {
			m.families = []string{""} // documented by the code of SetQuery: a query without families asks for the family ""
		}
		m.aspect = o.Aspect.aspect()
		m.label("op_SetQuery")
	case "MutateQuerySlice":
		n := len(o.Families)
		if n > cap(m.sharedBuf) {
			n = cap(m.sharedBuf)
		}
		for i := 0; i < n; i++ {
			if m.lastShared && i < m.sharedLen && m.sharedBuf[i] != o.Families[i] {
				m.dirty = true
			}
		}
		copy(m.sharedBuf[:n], o.Families)
		m.label("op_MutateQuerySlice")
	case "SetScript":
		m.prevScript = m.script
		m.script = parseScript(o.Script)
		m.scriptSet = true
		m.guard(t, func() { m.fm.SetScript(m.script) })
		m.label("op_SetScript")
	case "SetRuneCacheSize":
		m.guard(t, func() { m.fm.SetRuneCacheSize(o.Size) })
		m.cacheSize = o.Size
		m.label("op_SetRuneCacheSize")
	case "ResolveFace", "ResolveFaceForLang":
		if m.dirty {
			// unspecified state (see machine.dirty): the generator never looks up here; a
			// hand-written replay that does is not executed, so that nothing is judged
			m.label("lookup_in_unspecified_state_not_made")
			return
		}
		if o.Op == "ResolveFace" {
			m.resolveFace(t, rune(o.Rune))
		} else {
			m.resolveLang(t, language.LangID(o.Lang))
		}
	default:
		t.Fatalf("unknown op %q", o.Op)
	}
}

// guard runs calls into the code under test; a panic there becomes a failure carrying the
// history. (The oracles stay outside: ev.Fail unwinds a *rapid.T with a panic of its own.)
func (m *machine) guard(t ev.TB, f func()) {
	var p any
	func() {
		defer func() { p = recover() }()
		f()
	}()
	if p != nil {
		m.failf(t, "panic: %v", p)
	}
}

func (m *machine) resolveFace(t ev.TB, r rune) {
	m.label("op_ResolveFace")
	m.recent = append(m.recent, r)
	if len(m.recent) > 8 {
		m.recent = m.recent[1:]
	}
	var (
		face *font.Face
		loc  fontscan.Location
		fam  string
		asp  font.Aspect
	)
	m.guard(t, func() { face = m.fm.ResolveFace(r) })
	if len(m.db) == 0 {
		m.label("empty_map")
		return
	}
	// (a) totality
	if face == nil {
		m.failf(t, "(a) ResolveFace(%U) returned nil with %d faces in the map", r, len(m.db))
	}
	m.guard(t, func() {
		loc = m.fm.FontLocation(face.Font)
		fam, asp = m.fm.FontMetadata(face.Font)
	})
	idx := m.indexOf(loc)
	if idx < 0 {
		m.failf(t, "ResolveFace(%U) returned a face whose FontLocation %+v is not one of the added faces", r, loc)
	}
	if e := m.db[idx]; font.NormalizeFamily(fam) != e.Family || asp != e.Aspect {
		m.failf(t, "FontMetadata of the face at %+v = (%q, %v), added as (%q, %v)", loc, fam, asp, e.Family, e.Aspect)
	}
	if e := m.db[idx]; e.Face != nil && e.Face != face {
		m.failf(t, "ResolveFace(%U) returned another *font.Face than the one added by AddFace at %+v", r, loc)
	}

	// (b) cache transparency / history independence
	var (
		fresh *fontscan.FontMap
		err   error
		face2 *font.Face
		loc2  fontscan.Location
	)
	m.guard(t, func() {
		if fresh, err = m.fresh(); err == nil {
			if face2 = fresh.ResolveFace(r); face2 != nil {
				loc2 = fresh.FontLocation(face2.Font)
			}
		}
	})
	if err != nil {
		m.failf(t, "fresh replay: %v", err)
	}
	if face2 == nil {
		m.failf(t, "(a) ResolveFace(%U) on a fresh map with the same %d faces returned nil", r, len(m.db))
	}
	if loc2 != loc {
		m.failf(t, "(b) ResolveFace(%U) = %s, but a fresh FontMap with the same fonts, query %q %v and script %q (rune cache disabled) answers %s",
			r, m.show(idx), m.currentFamilies(), m.aspect, scriptTag(m.script), m.show(m.indexOf(loc2)))
	}

	// (c) priority model
	lists := m.model()
	want, from := lists.resolveRune(m.db, r)
	if want >= 0 && want != idx {
		m.failf(t, "(c) ResolveFace(%U) = %s; documented priority gives %s (first face covering the rune in step %d; query %q %v, script %q; exact=%v fallback=%v manual=%v script=%v)",
			r, m.show(idx), m.show(want), from, m.currentFamilies(), m.aspect, scriptTag(m.script), lists.exact, lists.fallback, lists.manual, lists.byScript)
	}

	// evidence
	m.label(fmt.Sprintf("answer_from_step_%d", from))
	if fires, reaches := m.langSteers(m.currentFamilies(), language.ScriptToLang[m.script]); fires {
		m.label("lookup_with_language_rule_fired")
		if reaches {
			m.label("lookup_with_language_rule_reaching_db_family")
			if want >= 0 && from == 2 && !m.db[want].hasScript(m.script) {
				m.label("lookup_answered_through_fallback_without_script_support")
			}
		}
	}
	if len(m.db) >= 2 && !equalInts(lists.exact, lists.fallback) {
		m.listsDiffer = true
	}
	hit, evicted := m.lru.lookup(lruKey{strings.Join(m.currentFamilies(), "\x00"), len(m.currentFamilies()), m.script, m.aspect, r}, m.cacheSize)
	if hit {
		m.label("cache_hit")
	}
	if evicted {
		m.label("repeat_after_eviction")
		if len(m.db) >= 2 {
			m.evictedAgain = true
		}
	}
}

func (m *machine) resolveLang(t ev.TB, lang language.LangID) {
	m.label("op_ResolveFaceForLang")
	var (
		face, face2 *font.Face
		loc, loc2   fontscan.Location
		err         error
	)
	m.guard(t, func() {
		if face = m.fm.ResolveFaceForLang(lang); face != nil {
			loc = m.fm.FontLocation(face.Font)
		}
		var fresh *fontscan.FontMap
		if fresh, err = m.fresh(); err == nil {
			if face2 = fresh.ResolveFaceForLang(lang); face2 != nil {
				loc2 = fresh.FontLocation(face2.Font)
			}
		}
	})
	if err != nil {
		m.failf(t, "fresh replay: %v", err)
	}
	idx, idx2 := -1, -1
	if face != nil {
		if idx = m.indexOf(loc); idx < 0 {
			m.failf(t, "ResolveFaceForLang(%d) returned a face whose FontLocation %+v is not one of the added faces", lang, loc)
		}
	}
	if face2 != nil {
		idx2 = m.indexOf(loc2)
	}
	if idx != idx2 {
		m.failf(t, "(b) ResolveFaceForLang(%d %q) = %s, but a fresh FontMap with the same fonts, query %q %v and script %q answers %s",
			lang, lang.Language(), m.show(idx), m.currentFamilies(), m.aspect, scriptTag(m.script), m.show(idx2))
	}
	lists := m.model()
	want, from := lists.resolveLang(m.db, lang)
	if want != idx {
		m.failf(t, "(c) ResolveFaceForLang(%d %q) = %s; documented priority gives %s (step %d; exact=%v fallback=%v manual=%v)",
			lang, lang.Language(), m.show(idx), m.show(want), from, lists.exact, lists.fallback, lists.manual)
	}
	m.label(fmt.Sprintf("lang_answer_from_step_%d", from))
}

func (m *machine) show(idx int) string {
	if idx < 0 {
		return "nil"
	}
	e := m.db[idx]
	return fmt.Sprintf("#%d[%s:%d:%d %q %v]", idx, e.Loc.File, e.Loc.Index, e.Loc.Instance, e.Family, e.Aspect)
}

func equalStrings(a, b []string) bool {
	if len(a) != len(b) {
		return false
	}
	for i := range a {
		if a[i] != b[i] {
			return false
		}
	}
	return true
}

func equalInts(a, b []int) bool {
	if len(a) != len(b) {
		return false
	}
	for i := range a {
		if a[i] != b[i] {
			return false
		}
	}
	return true
}

// lruModel tracks which lookups the rune cache should currently hold: only used to classify
// histories (cache hit / repeated lookup after eviction), never as an oracle.
type lruKey struct {
	families string
	n        int
	script   language.Script
	aspect   font.Aspect
	r        rune
}

type lruModel struct {
	order []lruKey // oldest first
	seen  map[lruKey]bool
}

func (l *lruModel) clear() { l.order, l.seen = nil, nil }

func (l *lruModel) lookup(k lruKey, size int) (hit, evictedBefore bool) {
	for i, o := range l.order {
		if o == k {
			l.order = append(append(l.order[:i:i], l.order[i+1:]...), k)
			return true, false
		}
	}
	evictedBefore = l.seen[k]
	if l.seen == nil {
		l.seen = map[lruKey]bool{}
	}
	l.seen[k] = true
	l.order = append(l.order, k)
	for len(l.order) > size && len(l.order) > 0 {
		l.order = l.order[1:]
	}
	return false, evictedBefore
}

// ---------------------------------------------------------------------------------------------
// generators (rapid state machine)
// ---------------------------------------------------------------------------------------------

func pick[T any](t *rapid.T, label string, xs []T) T {
	return xs[rapid.IntRange(0, len(xs)-1).Draw(t, label)]
}

func (m *machine) genFamily(t *rapid.T, forQuery bool) string {
	k := rapid.IntRange(0, 99).Draw(t, "familyKind")
	if !forQuery && m.pureDB {
		return pick(t, "madeUp", madeUp)
	}
	if m.langMode {
		switch {
		case forQuery && k < 55:
			return pick(t, "steeredQuery", m.steer.Queries) // a generic family / alias whose expansion depends on the language
		case forQuery && k < 75:
			return pick(t, "generic", generics)
		case forQuery && k < 85:
			return pick(t, "alias", vocab.Aliases)
		case forQuery:
			return pick(t, "madeUp", madeUp)
		case k < 50:
			return pick(t, "reachedUnderLanguage", m.steer.Reach)
		case k < 80:
			return pick(t, "genericDefault", vocab.Defaults)
		case k < 90:
			return pick(t, "tableFamily", vocab.Families)
		default:
			return pick(t, "madeUp", madeUp)
		}
	}
	switch {
	case forQuery && k < 45 && len(m.db) > 0:
		// a family present in the database (normalised form, or a spelling of the pool)
		return m.db[rapid.IntRange(0, len(m.db)-1).Draw(t, "dbFamily")].Family
	case k < 55 || (forQuery && k < 70):
		return pick(t, "madeUp", madeUp)
	case k < 65:
		return pick(t, "real", realNames)
	case k < 72:
		// any family named by the substitution table
		return pick(t, "tableFamily", vocab.Families)
	case k < 79:
		return pick(t, "alias", vocab.Aliases)
	case k < 85:
		// a family some language-conditioned rule adds
		r := pick(t, "langRule", vocab.LangRules)
		if len(r.Targets) == 0 {
			return r.Test
		}
		return pick(t, "langRuleTarget", r.Targets)
	case k < 95:
		return pick(t, "generic", generics)
	default:
		return ""
	}
}

func (m *machine) genFaceAspect(t *rapid.T) font.Aspect {
	k := rapid.IntRange(0, 10).Draw(t, "aspectKind")
	if k < 6 {
		return pick(t, "commonAspect", commonAspects)
	}
	a := pick(t, "gridAspect", c15.Grid())
	if k == 10 {
		// description with unset fields (e.g. only the family is given): any subset of the
		// three fields left at zero; the map is documented to treat them as the regular values
		mask := rapid.IntRange(1, 7).Draw(t, "unsetMask")
		if mask&1 != 0 {
			a.Style = 0
		}
		if mask&2 != 0 {
			a.Weight = 0
		}
		if mask&4 != 0 {
			a.Stretch = 0
		}
	}
	return a
}

func (m *machine) genQueryAspect(t *rapid.T) font.Aspect {
	switch k := rapid.IntRange(0, 9).Draw(t, "queryAspectKind"); {
	case k < 3:
		return font.Aspect{}
	case k < 6 && len(m.db) > 0:
		return m.db[rapid.IntRange(0, len(m.db)-1).Draw(t, "dbAspect")].Aspect
	default:
		return pick(t, "queryAspect", c15.Queries())
	}
}

func (m *machine) genRune(t *rapid.T) rune {
	k := rapid.IntRange(0, 99).Draw(t, "runeKind")
	switch {
	case k < 22 && len(m.recent) > 0:
		return pick(t, "recentRune", m.recent)
	case k < 25 && len(m.recent) > 0:
		// a neighbour of a recent rune (same cache-key neighbourhood, usually another answer)
		if r := pick(t, "recentRune", m.recent) ^ 1; r >= 0 && r <= 0x10FFFF {
			return r
		}
		return ' '
	case k < 75 && len(m.db) > 0:
		e := m.db[rapid.IntRange(0, len(m.db)-1).Draw(t, "runeOf")]
		if len(e.Sample) > 0 {
			return pick(t, "sampleRune", e.Sample)
		}
		return ' '
	case k < 90:
		return pick(t, "commonRune", commonRunes)
	case k < 97:
		return pick(t, "uncoveredRune", uncoveredRunes)
	default:
		return rune(rapid.IntRange(0, 0x10FFFF).Draw(t, "anyRune"))
	}
}

func (m *machine) genScript(t *rapid.T) language.Script {
	if k := rapid.IntRange(0, 9).Draw(t, "tableScriptKind"); m.langMode && k < 8 {
		switch {
		case k < 4:
			return m.steer.Script
		case k < 6:
			return pick(t, "unsupportedScript", vocab.Unsupported)
		default:
			return pick(t, "steeringScript", vocab.Steering).Script
		}
	} else if k == 9 {
		// scripts taken from the library's tables: one whose language steers the substitutions,
		// or one no face supports
		if rapid.Bool().Draw(t, "steeringOrUnsupported") {
			return pick(t, "steeringScript", vocab.Steering).Script
		}
		return pick(t, "unsupportedScript", vocab.Unsupported)
	}
	if rapid.IntRange(0, 9).Draw(t, "scriptKind") < 5 && len(m.db) > 0 {
		e := m.db[rapid.IntRange(0, len(m.db)-1).Draw(t, "scriptOf")]
		if len(e.Scripts) > 0 {
			return pick(t, "dbScript", []language.Script(e.Scripts))
		}
	}
	return pick(t, "script", scripts)
}

func (m *machine) nextID(ext string) string {
	m.seq++
	return fmt.Sprintf("mem/font%02d%s", m.seq, ext)
}

func (m *machine) actions() map[string]func(*rapid.T) {
	addFace := func(t *rapid.T) {
		file := pick(t, "faceFile", facePoolFiles)
		if m.langMode && rapid.IntRange(0, 9).Draw(t, "latinFace") < 8 {
			file = pick(t, "latinFaceFile", latinPoolFiles) // shared runes, few scripts
		}
		id := m.nextID(pick(t, "ext", fileExts))
		var index, instance uint16
		if k := rapid.IntRange(0, 9).Draw(t, "locationKind"); k < 3 && m.lastFaceID != "" {
			// the File of the previous face again: the locations differ by Index / Instance only
			id = m.lastFaceID
			if k == 0 {
				index = uint16(m.seq)
			} else {
				instance = uint16(m.seq)
			}
			m.label("addface_same_file_other_index")
		} else if k == 3 {
			index, instance = uint16(m.seq), uint16(rapid.IntRange(0, 3).Draw(t, "instance"))
		}
		m.lastFaceID = id
		o := op{Op: "AddFace", File: file, Copy: m.nextCopy[file], ID: id, Index: index, Instance: instance,
			Family: m.genFamily(t, false), Aspect: toJ(m.genFaceAspect(t))}
		m.nextCopy[file]++
		m.apply(t, o)
	}
	// clean: after an in-place change of the slice last given to SetQuery, the caller calls
	// SetQuery again with that same slice (and the same aspect) before any lookup
	clean := func(t *rapid.T) {
		if m.dirty {
			m.apply(t, op{Op: "SetQuery", Families: append([]string(nil), m.sharedBuf[:m.sharedLen]...), Aspect: toJ(m.aspect), Shared: true})
		}
	}
	resolve := func(t *rapid.T) {
		clean(t)
		m.apply(t, op{Op: "ResolveFace", Rune: int32(m.genRune(t))})
	}
	setQuery := func(t *rapid.T) {
		n := rapid.IntRange(0, 3).Draw(t, "nFamilies")
		var fams []string
		for i := 0; i < n; i++ {
			fams = append(fams, m.genFamily(t, true))
		}
		shared := rapid.IntRange(0, 9).Draw(t, "sharedSlice") < 4
		m.apply(t, op{Op: "SetQuery", Families: fams, Aspect: toJ(m.genQueryAspect(t)), Shared: shared})
	}
	// mutate: the caller overwrites one element of its long-lived slice in place
	mutate := func(t *rapid.T, family string) {
		fams := append([]string(nil), m.sharedBuf[:m.sharedLen]...)
		fams[rapid.IntRange(0, len(fams)-1).Draw(t, "mutatedIndex")] = family
		m.apply(t, op{Op: "MutateQuerySlice", Families: fams})
	}
	nonEmpty := func(f func(*rapid.T)) func(*rapid.T) {
		return func(t *rapid.T) {
			if len(m.db) == 0 {
				t.Skip("empty map") // (a skip must come before any draw, or rapid counts the step as rejected)
			}
			f(t)
		}
	}
	return map[string]func(*rapid.T){
		"AddFace":  addFace,
		"AddFace2": addFace,
		"AddFont": func(t *rapid.T) {
			file := pick(t, "resource", resourceFiles)
			fam := ""
			if m.pureDB || rapid.IntRange(0, 9).Draw(t, "overrideFamily") < 6 {
				fam = m.genFamily(t, false)
			}
			m.apply(t, op{Op: "AddFont", File: file, ID: m.nextID(pick(t, "ext", fileExts)), Family: fam, Shared: rapid.Bool().Draw(t, "sharedReader")})
		},
		"SetQuery":  setQuery,
		"SetQuery2": setQuery,
		"BackToPreviousQuery": func(t *rapid.T) {
			if !m.querySet {
				t.Skip("no previous query")
			}
			m.apply(t, op{Op: "SetQuery", Families: append([]string(nil), m.prevFamilies...), Aspect: toJ(m.prevAspect)})
		},
		// the same families with another aspect, then a lookup that was probably cached
		"ChangeAspectThenRepeat": nonEmpty(func(t *rapid.T) {
			if !m.querySet {
				t.Skip("no query yet")
			}
			m.apply(t, op{Op: "SetQuery", Families: append([]string(nil), m.families...), Aspect: toJ(m.genQueryAspect(t)), Shared: m.lastShared})
			resolve(t)
		}),
		// the caller changes its families slice in place and does NOT call SetQuery (yet)
		"MutateQuerySlice": func(t *rapid.T) {
			if !m.lastShared {
				t.Skip("the map does not hold the caller's slice")
			}
			mutate(t, m.genFamily(t, true))
		},
		// SetQuery(s); lookup; s changed in place; SetQuery(s) again with the same aspect; lookup
		"AliasedRequery": nonEmpty(func(t *rapid.T) {
			if !m.lastShared || m.dirty {
				n := rapid.IntRange(1, 3).Draw(t, "nFamilies")
				var fams []string
				for i := 0; i < n; i++ {
					fams = append(fams, m.genFamily(t, true))
				}
				m.apply(t, op{Op: "SetQuery", Families: fams, Aspect: toJ(m.genQueryAspect(t)), Shared: true})
			}
			resolve(t)
			e := m.db[rapid.IntRange(0, len(m.db)-1).Draw(t, "targetFace")]
			mutate(t, e.Family)
			clean(t)
			r := ' '
			if len(e.Sample) > 0 && rapid.IntRange(0, 3).Draw(t, "sameRune") != 0 {
				r = pick(t, "sampleRune", e.Sample)
			} else if len(m.recent) > 0 {
				r = m.recent[len(m.recent)-1]
			}
			m.apply(t, op{Op: "ResolveFace", Rune: int32(r)})
		}),
		// a new face, then a lookup that was probably cached
		"AddFaceThenRepeat": nonEmpty(func(t *rapid.T) {
			addFace(t)
			resolve(t)
		}),
		"SetScript": func(t *rapid.T) {
			m.apply(t, op{Op: "SetScript", Script: scriptTag(m.genScript(t))})
		},
		// another family list with the SAME concatenation (families merged, split elsewhere, or
		// preceded by the empty family), same aspect, then a lookup that was probably cached:
		// different lists must not share anything keyed by their concatenation
		"ResplitQueryThenRepeat": nonEmpty(func(t *rapid.T) {
			all := strings.Join(m.families, "")
			if !m.querySet || len(all) < 2 {
				t.Skip("nothing to re-split")
			}
			var fams []string
			switch k := rapid.IntRange(0, 3).Draw(t, "resplit"); {
			case k == 0 && len(m.families) > 1:
				fams = []string{all}
			case k == 1:
				fams = append([]string{""}, m.families...)
			default:
				cut := rapid.IntRange(1, len(all)-1).Draw(t, "cut")
				fams = []string{all[:cut], all[cut:]}
			}
			if equalStrings(fams, m.families) || len(fams) > 4 {
				fams = []string{all, ""}
			}
			m.apply(t, op{Op: "SetQuery", Families: fams, Aspect: toJ(m.aspect)})
			m.label("query_resplit_same_concatenation")
			resolve(t)
		}),
		// another script (no SetQuery, no Add in between), then a lookup that was probably made
		// under the previous script
		"ScriptChangeThenRepeat": nonEmpty(func(t *rapid.T) {
			m.apply(t, op{Op: "SetScript", Script: scriptTag(m.genScript(t))})
			resolve(t)
		}),
		"BackToPreviousScript": func(t *rapid.T) {
			if !m.scriptSet {
				t.Skip("no previous script")
			}
			m.apply(t, op{Op: "SetScript", Script: scriptTag(m.prevScript)})
		},
		"SetRuneCacheSize": func(t *rapid.T) {
			m.apply(t, op{Op: "SetRuneCacheSize", Size: pick(t, "size", cacheSizes)})
		},
		"ResolveFace":  resolve, // also on an empty map
		"ResolveFace2": nonEmpty(resolve),
		"ResolveFace3": nonEmpty(resolve),
		"ResolveBurst": func(t *rapid.T) {
			if len(m.db) == 0 {
				t.Skip("empty map")
			}
			n := rapid.IntRange(2, 5).Draw(t, "burst")
			for i := 0; i < n; i++ {
				resolve(t)
			}
		},
		"ResolveFaceForLang": func(t *rapid.T) {
			if len(m.db) == 0 {
				t.Skip("empty map") // (a skip must come before any draw, or rapid counts the step as rejected)
			}
			clean(t)
			m.apply(t, op{Op: "ResolveFaceForLang", Lang: uint16(pick(t, "lang", langs))})
		},
	}
}

// ---------------------------------------------------------------------------------------------
// tests
// ---------------------------------------------------------------------------------------------

func prepare(t ev.TB) {
	for _, f := range append(append([]string(nil), facePoolFiles...), resourceFiles...) {
		if _, err := getFile(f); err != nil {
			t.Fatalf("font pool: %s: %v", f, err)
		}
	}
	if err := checkNamePools(); err != nil {
		t.Fatalf("name pools: %v", err)
	}
	v, err := loadVocabulary()
	if err != nil {
		t.Fatalf("%v", err)
	}
	for _, f := range v.Families {
		if isMadeUp(font.NormalizeFamily(f)) {
			t.Fatalf("name pools: the made-up family %q is named by the substitution table", f)
		}
	}
	noteOnce.Do(func() {
		var tags []string
		for _, st := range v.Steering {
			tags = append(tags, st.Script.String())
		}
		ev.Note("vocabulary from %s: %d families, %d aliases, %d language-conditioned rules; %d scripts steer the substitutions (%s); %d scripts without any face",
			v.Source, len(v.Families), len(v.Aliases), len(v.LangRules), len(v.Steering), strings.Join(tags, " "), len(v.Unsupported))
	})
}

var noteOnce sync.Once

// latinPoolFiles: the faces of the pool that cover Latin and few other scripts.
var latinPoolFiles = []string{facePoolFiles[0], facePoolFiles[1], facePoolFiles[6], facePoolFiles[8], facePoolFiles[11]}

// TestPropFontMapMachine is the rapid state machine.
func TestPropFontMapMachine(t *testing.T) {
	prepare(t)
	rapid.Check(t, func(t *rapid.T) {
		m := newMachine()
		switch k := rapid.IntRange(0, 9).Draw(t, "pureDB"); {
		case k < 3:
			m.pureDB = true
		case k < 6:
			m.langMode = true
			m.steer = pick(t, "steer", vocab.Steering)
		}
		m.apply(t, op{Op: "SetRuneCacheSize", Size: pick(t, "initialCacheSize", cacheSizes)})
		t.Repeat(m.actions())
		m.finish()
	})
}

// finish records the history as one case.
func (m *machine) finish() {
	nontrivial := len(m.db) >= 2 && (m.listsDiffer || m.evictedAgain)
	var labels []string
	pure := len(m.db) > 0
	for _, e := range m.db {
		if !isMadeUp(e.Family) {
			pure = false
		}
	}
	if pure {
		labels = append(labels, "db_families_outside_substitution_table")
	} else if len(m.db) > 0 {
		labels = append(labels, "db_has_substitutable_or_file_families")
	}
	if m.langMode {
		labels = append(labels, "history_language_mode")
	}
	if m.labels["lookup_with_language_rule_reaching_db_family"] > 0 {
		labels = append(labels, "history_with_language_rule_reaching_db_family")
	}
	if m.evictedAgain {
		labels = append(labels, "history_with_repeat_after_eviction")
	}
	if m.listsDiffer {
		labels = append(labels, "history_with_exact_ne_fallback")
	}
	switch n := len(m.db); {
	case n == 0:
		labels = append(labels, "faces_0")
	case n == 1:
		labels = append(labels, "faces_1")
	case n <= 4:
		labels = append(labels, "faces_2_4")
	default:
		labels = append(labels, "faces_5_plus")
	}
	ev.Case(nontrivial, history{Ops: m.ops}, labels...)
	keys := make([]string, 0, len(m.labels))
	for k := range m.labels {
		keys = append(keys, k)
	}
	sort.Strings(keys)
	for _, k := range keys {
		ev.LabelN(k, int64(m.labels[k]))
	}
	if ev.WantSample() {
		ev.Sample(history{Ops: m.ops})
	}
}

func runHistory(t ev.TB, h history) {
	prepare(t)
	m := newMachine()
	for _, o := range h.Ops {
		m.apply(t, o)
	}
}

func replayFile(t *testing.T, path string) {
	check, raw, err := ev.LoadReplay(path)
	if err != nil {
		t.Fatalf("replay %s: %v", path, err)
	}
	switch check {
	case "history":
		var h history
		if err := json.Unmarshal(raw, &h); err != nil {
			t.Fatalf("replay %s: %v", path, err)
		}
		runHistory(t, h)
	default:
		t.Fatalf("replay %s: unknown check %q", path, check)
	}
}

func TestReplay(t *testing.T) {
	if p := ev.ReplayPath(); p != "" {
		replayFile(t, p)
		return
	}
	dir := os.Getenv("VERIF_REPLAY_DIR")
	if dir == "" {
		return
	}
	files, _ := filepath.Glob(filepath.Join(dir, "*.json"))
	sort.Strings(files)
	for _, f := range files {
		replayFile(t, f)
	}
}
