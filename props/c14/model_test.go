package c14

// The priority model: an independent reference for the candidate lists of FontMap.ResolveFace,
// written from the doc comments, not from the code:
//
//   - ResolveFace: "Fonts are tried with the following steps: 1 - Only fonts matching exacly one
//     of the Query.Families are considered; the list is prunned to keep the best match with
//     Query.Aspect. 2 - Fallback fonts are considered, that is fonts with similar families and
//     fonts supporting the current script; the list is also prunned according to Query.Aspect.
//     3 - Fonts added manually by AddFont and AddFace (prunned according to Query.Aspect), will
//     be searched, in the order in which they were added. 4 - All fonts matching the current
//     script (set by SetScript) are tried, ignoring Query.Aspect. If no fonts match after these
//     steps, an arbitrary face will be returned."
//   - candidates.withoutFallback: "footprints with exact match: for each queried family, at most
//     one footprint is selected" (buildCandidates: "with no system fallback, the CSS spec says
//     that only one font among the candidates must be tried").
//   - selectByFamilyExact: "all the fonts matching the given family, with the best matches coming
//     first. The match is performed without substituting family names, expect for the generic
//     families, which are always expanded to concrete families [...] restrict the result to the
//     first (best) family. If two fonts have the same family, user provided are returned first."
//   - scoredFootprints.Less: "'strong' replacements come before 'weak' ones; among 'strong'
//     families, only the score matters; among 'weak' families, the footprints compatible with the
//     given script come first; if two footprints have the same score (meaning they have the same
//     family), user provided ones come first, then "regular" over "mono" then TTF before CFF."
//     Script-only matches are added "with a score worse than any family match".
//   - AddFont/AddFace: "The order of calls to AddFont and AddFace determines relative priority of
//     manually loaded fonts."
//   - SetScript: "influencing the choice of fallback fonts"; selectByFamilyWithSubs: the query is
//     "expanded with family substitutions" for the language of the script.
//
// The expansion of a family list by the 4 000-line substitution table is not re-modelled: it is
// read through the verif hook VerifSubstitutions (position and strength of every reached family).
// Pruning by aspect is the C15 reference matcher.

import (
	"math"
	"path/filepath"
	"sort"
	"strings"

	"github.com/go-text/typesetting/font"
	"github.com/go-text/typesetting/fontscan"
	"github.com/go-text/typesetting/language"

	"verif/props/c15"
)

// entry is one face of the database, as described by the Add* call that created it.
type entry struct {
	Loc     fontscan.Location
	Family  string // normalised
	Aspect  font.Aspect
	Runes   fontscan.RuneSet
	Scripts fontscan.ScriptSet
	Langs   fontscan.LangSet
	Face    *font.Face // AddFace only
	Sample  []rune     // generator hint
}

func (e entry) hasScript(s language.Script) bool {
	for _, x := range e.Scripts {
		if x == s {
			return true
		}
	}
	return false
}

func (e entry) mono() bool { return strings.Contains(e.Family, "mono") }

func (e entry) truetype() bool {
	switch strings.ToLower(filepath.Ext(e.Loc.File)) {
	case ".ttf", ".ttc":
		return true
	}
	return false
}

type lists struct {
	exact, fallback, manual, byScript []int
}

type scored struct {
	idx    int
	score  int
	strong bool
}

// order sorts matches as scoredFootprints.Less documents; ties keep the insertion order.
func order(db []entry, ms []scored, script language.Script) []int {
	sort.SliceStable(ms, func(i, j int) bool {
		a, b := ms[i], ms[j]
		if a.strong != b.strong {
			return a.strong
		}
		ea, eb := db[a.idx], db[b.idx]
		if !a.strong {
			if sa, sb := ea.hasScript(script), eb.hasScript(script); sa != sb {
				return sa
			}
		}
		if a.score != b.score {
			return a.score < b.score
		}
		// all faces of this model are user provided
		if ma, mb := ea.mono(), eb.mono(); ma != mb {
			return !ma
		}
		if ta, tb := ea.truetype(), eb.truetype(); ta != tb {
			return ta
		}
		return false
	})
	out := make([]int, len(ms))
	for i, m := range ms {
		out[i] = m.idx
	}
	return out
}

// prune keeps the faces of list whose aspect is the one CSS Fonts 5.2 selects (order preserved).
func prune(db []entry, list []int, query font.Aspect) []int {
	if len(list) == 0 {
		return nil
	}
	aspects := make([]font.Aspect, len(list))
	for i, idx := range list {
		aspects[i] = db[idx].Aspect
	}
	var out []int
	for _, k := range c15.Narrow(aspects, query) {
		out = append(out, list[k])
	}
	return out
}

func isGeneric(family string) bool {
	switch family {
	case fontscan.Serif, fontscan.SansSerif, fontscan.Monospace, fontscan.Cursive, fontscan.Fantasy, fontscan.Math, fontscan.Emoji:
		return true
	}
	return false
}

func (m *machine) model() lists {
	db, script, aspect := m.db, m.script, m.aspect
	families := m.currentFamilies()
	var l lists

	// step 1: per queried family, the best face of exactly that family
	for _, f := range families {
		var ms []scored
		if isGeneric(f) {
			crible := m.subs([]string{f}, 0)
			for i, e := range db {
				if s, ok := crible[e.Family]; ok {
					ms = append(ms, scored{i, s.Score, s.Strong})
				}
			}
			sorted := order(db, ms, 0)
			// "restrict the result to the first (best) family"
			n := 0
			for n < len(sorted) && db[sorted[n]].Family == db[sorted[0]].Family {
				n++
			}
			if best := prune(db, sorted[:n], aspect); len(best) > 0 {
				l.exact = append(l.exact, best[0])
			}
			continue
		}
		nf := font.NormalizeFamily(f)
		for i, e := range db {
			if e.Family == nf {
				ms = append(ms, scored{i, 0, true})
			}
		}
		if best := prune(db, order(db, ms, 0), aspect); len(best) > 0 {
			l.exact = append(l.exact, best[0])
		}
	}

	// step 2: similar families (substitutions) and faces supporting the script, pruned together
	{
		crible := m.subs(families, language.ScriptToLang[script])
		var ms []scored
		for i, e := range db {
			if s, ok := crible[e.Family]; ok {
				ms = append(ms, scored{i, s.Score, s.Strong})
			} else if script != 0 && e.hasScript(script) {
				ms = append(ms, scored{i, math.MaxInt, false})
			}
		}
		l.fallback = prune(db, order(db, ms, script), aspect)
	}

	// step 3: manually added faces, in the order in which they were added, pruned
	all := make([]int, len(db))
	for i := range db {
		all[i] = i
	}
	l.manual = prune(db, all, aspect)

	// step 4: all faces matching the current script, ignoring the aspect
	for i, e := range db {
		if e.hasScript(script) {
			l.byScript = append(l.byScript, i)
		}
	}
	return l
}

// resolveRune returns the first face, in the documented order, whose coverage contains r and the
// step that supplied it; (-1, 5) when no list covers r ("an arbitrary face will be returned").
func (l lists) resolveRune(db []entry, r rune) (int, int) {
	for step, list := range [][]int{l.exact, l.fallback, l.manual, l.byScript} {
		for _, idx := range list {
			if db[idx].Runes.Contains(r) {
				return idx, step + 1
			}
		}
	}
	return -1, 5
}

// resolveLang: "returns the first face supporting the given language (for the actual query), or
// nil if no one is found. The matching logic is similar to the one used by ResolveFace."
func (l lists) resolveLang(db []entry, lang language.LangID) (int, int) {
	for step, list := range [][]int{l.exact, l.fallback, l.manual} {
		for _, idx := range list {
			if db[idx].Langs.Contains(lang) {
				return idx, step + 1
			}
		}
	}
	return -1, 5
}
