package c14

// The machine's vocabulary comes from the library's own tables, so that rarely used rules are
// steered too: every family named by a rule of fontscan/substitutions_table.go (tests and
// targets, read from the source of the tree under test), the language-conditioned rules
// (langAndFamilyEqual / langEqualsAndNoFamily) with their languages, and - by probing the
// substitution hook - the scripts whose language (language.ScriptToLang) changes the expansion of
// a generic family or alias, together with the families reached only under that language.

import (
	"fmt"
	"os"
	"path/filepath"
	"regexp"
	"sort"
	"strings"
	"sync"

	"github.com/go-text/typesetting/font"
	"github.com/go-text/typesetting/fontscan"
	"github.com/go-text/typesetting/language"
)

type langRule struct {
	Tag     string // language tag of the rule
	Lang    language.LangID
	Test    string   // family tested by the rule
	Targets []string // families the rule adds
}

type steering struct {
	Script language.Script
	Lang   language.LangID
	// Reach: families (normalised) reached from a generic family or alias ONLY under this
	// language; Queries: the generic families / aliases whose expansion changes.
	Reach   []string
	Queries []string
}

type vocabulary struct {
	Source    string
	Families  []string // every family named by the table (as spelled there)
	Aliases   []string // families tested by familyEquals rules
	LangRules []langRule
	Steering  []steering
	// Defaults: the best families the generic sans-serif/serif/monospace expand to without language
	Defaults []string
	// Unsupported: scripts that no face of the pool supports
	Unsupported []language.Script
}

var (
	vocabOnce sync.Once
	vocab     vocabulary
	vocabErr  error
)

var (
	reQuoted    = regexp.MustCompile(`"((?:[^"\\]|\\.)*)"`)
	reEquals    = regexp.MustCompile(`familyEquals\("((?:[^"\\]|\\.)*)"\)`)
	reContains  = regexp.MustCompile(`familyContains\("((?:[^"\\]|\\.)*)"\)`)
	reFamilyFld = regexp.MustCompile(`family:\s*"((?:[^"\\]|\\.)*)"`)
	reTargets   = regexp.MustCompile(`additionalFamilies:\s*\[\]string\{([^}]*)\}`)
	reLangRule  = regexp.MustCompile(`test:\s*lang\w+\{lang:\s*language\.(\w+),\s*family:\s*"([^"]*)"\},\s*additionalFamilies:\s*\[\]string\{([^}]*)\}`)
)

func repoDir() string {
	if d := os.Getenv("VERIF_REPO"); d != "" {
		return d
	}
	return "/repo"
}

func uniqueSorted(xs []string) []string {
	sort.Strings(xs)
	out := xs[:0]
	for i, x := range xs {
		if i == 0 || x != xs[i-1] {
			out = append(out, x)
		}
	}
	return out
}

func quoted(list string) []string {
	var out []string
	for _, m := range reQuoted.FindAllStringSubmatch(list, -1) {
		out = append(out, m[1])
	}
	return out
}

func loadVocabulary() (vocabulary, error) {
	vocabOnce.Do(func() {
		v := &vocab
		// 1. the source of the table
		path := filepath.Join(repoDir(), "fontscan", "substitutions_table.go")
		if b, err := os.ReadFile(path); err == nil {
			src := string(b)
			v.Source = path
			for _, m := range reEquals.FindAllStringSubmatch(src, -1) {
				v.Aliases = append(v.Aliases, m[1])
				v.Families = append(v.Families, m[1])
			}
			for _, m := range reContains.FindAllStringSubmatch(src, -1) {
				v.Families = append(v.Families, m[1])
			}
			for _, m := range reFamilyFld.FindAllStringSubmatch(src, -1) {
				v.Families = append(v.Families, m[1])
			}
			for _, m := range reTargets.FindAllStringSubmatch(src, -1) {
				v.Families = append(v.Families, quoted(m[1])...)
			}
			for _, m := range reLangRule.FindAllStringSubmatch(src, -1) {
				tag := strings.ReplaceAll(strings.ToLower(strings.TrimPrefix(m[1], "Lang")), "_", "-")
				id, _ := language.NewLangID(language.NewLanguage(tag))
				v.LangRules = append(v.LangRules, langRule{Tag: tag, Lang: id, Test: m[2], Targets: quoted(m[3])})
			}
			v.Aliases = uniqueSorted(v.Aliases)
			v.Families = uniqueSorted(v.Families)
		} else {
			v.Source = "substitution table source not readable (" + err.Error() + "): hook probing and built-in names only"
			v.Aliases = append([]string(nil), realNames...)
			v.Families = append([]string(nil), realNames...)
		}
		if len(v.Families) < 10 {
			vocabErr = fmt.Errorf("vocabulary: only %d families found in %s", len(v.Families), path)
			return
		}

		// 2. scripts that steer the substitutions: probe the hook with the generic families and a
		// few aliases, with and without the language of the script
		probes := append(append([]string(nil), generics...), "Arial", "Helvetica", "Times New Roman", "Courier New")
		type sl struct {
			s language.Script
			l language.LangID
		}
		var sls []sl
		for s, l := range language.ScriptToLang {
			if l != 0 {
				sls = append(sls, sl{s, l})
			}
		}
		sort.Slice(sls, func(i, j int) bool { return sls[i].s < sls[j].s })
		base := map[string]map[string]fontscan.VerifFamilyScore{}
		for _, q := range probes {
			base[q] = fontscan.VerifSubstitutions([]string{q}, 0)
		}
		for _, x := range sls {
			st := steering{Script: x.s, Lang: x.l}
			for _, q := range probes {
				changed := false
				for k, sc := range fontscan.VerifSubstitutions([]string{q}, x.l) {
					if o, ok := base[q][k]; !ok || o.Strong != sc.Strong {
						st.Reach = append(st.Reach, k)
						changed = true
					}
				}
				if changed {
					st.Queries = append(st.Queries, q)
				}
			}
			if len(st.Reach) > 0 {
				st.Reach = uniqueSorted(st.Reach)
				v.Steering = append(v.Steering, st)
			}
		}
		if len(v.Steering) == 0 {
			vocabErr = fmt.Errorf("vocabulary: no script steers the substitution table")
			return
		}

		// 3. what the generic families expand to without language (best first)
		for _, q := range []string{fontscan.SansSerif, fontscan.Serif, fontscan.Monospace} {
			type fs struct {
				f string
				s int
			}
			var all []fs
			for k, sc := range base[q] {
				if k != q {
					all = append(all, fs{k, sc.Score})
				}
			}
			sort.Slice(all, func(i, j int) bool {
				if all[i].s != all[j].s {
					return all[i].s < all[j].s
				}
				return all[i].f < all[j].f
			})
			for i := 0; i < len(all) && i < 8; i++ {
				v.Defaults = append(v.Defaults, all[i].f)
			}
		}

		// 4. scripts no face of the pool supports
		supported := map[language.Script]bool{}
		for _, rel := range append(append([]string(nil), facePoolFiles...), resourceFiles...) {
			f, err := getFile(rel)
			if err != nil {
				vocabErr = err
				return
			}
			for _, c := range f.cov {
				for _, s := range c.Scripts {
					supported[s] = true
				}
			}
		}
		for _, x := range sls {
			if !supported[x.s] {
				v.Unsupported = append(v.Unsupported, x.s)
			}
		}
	})
	return vocab, vocabErr
}

// langSteers tells whether the language changes the expansion of the family list, and whether a
// family reached only under the language is the family of a face of the database.
func (m *machine) langSteers(families []string, lang language.LangID) (fires, reachesDB bool) {
	if lang == 0 {
		return false, false
	}
	with := m.subs(families, lang)
	without := m.subs(families, 0)
	for k, s := range with {
		if o, ok := without[k]; !ok || o != s {
			fires = true
			if !ok {
				for _, e := range m.db {
					if e.Family == k {
						reachesDB = true
					}
				}
			}
		}
	}
	return fires || len(with) != len(without), reachesDB
}

// subs memoises the substitution hook (a pure function of its arguments).
func (m *machine) subs(families []string, lang language.LangID) map[string]fontscan.VerifFamilyScore {
	key := fmt.Sprintf("%d\x00%d\x00%s", lang, len(families), strings.Join(families, "\x00"))
	if s, ok := m.subsCache[key]; ok {
		return s
	}
	if m.subsCache == nil {
		m.subsCache = map[string]map[string]fontscan.VerifFamilyScore{}
	}
	s := fontscan.VerifSubstitutions(families, lang)
	m.subsCache[key] = s
	return s
}

var _ = font.NormalizeFamily
