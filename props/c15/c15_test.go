package c15

import (
	"bytes"
	"encoding/json"
	"fmt"
	"io"
	"log"
	"os"
	"path/filepath"
	"sort"
	"sync"
	"testing"

	"github.com/go-text/typesetting/font"
	"github.com/go-text/typesetting/fontscan"
	"github.com/go-text/typesetting/language"
	"pgregory.net/rapid"

	"verif/internal/corpus"
	"verif/internal/ev"
)

func TestMain(m *testing.M) { ev.Main(m) }

// ---- decoded case ----

type aspectJ struct {
	Style   uint8   `json:"style"` // 0 unset, 1 normal, 2 italic
	Weight  float32 `json:"weight"`
	Stretch float32 `json:"stretch"`
}

func toJ(a font.Aspect) aspectJ {
	return aspectJ{uint8(a.Style), float32(a.Weight), float32(a.Stretch)}
}
func (a aspectJ) aspect() font.Aspect {
	return font.Aspect{Style: font.Style(a.Style), Weight: font.Weight(a.Weight), Stretch: font.Stretch(a.Stretch)}
}

// narrowCase is the replayable form of one evaluation.
type narrowCase struct {
	// Candidates: the aspects handed to the matcher (hook path: they are the whole font set, the
	// candidate list is the identity). Empty for an embedded case.
	Candidates []aspectJ `json:"candidates,omitempty"`
	Query      aspectJ   `json:"query"`
	// Path: "hook" (fontSet.retainsBestMatches through the verif hook) or one of the public paths
	// AddFace -> SetQuery -> ResolveFace -> FontMetadata: "public-exact" (the query names the
	// family of the candidate faces: step 1 of ResolveFace), "public-script" (unknown family,
	// script set: step 2), "public-manual" (unknown family, no script: step 3).
	Path string `json:"path"`
	// Embedded form (public paths): Set is the WHOLE font set in insertion order, Roles[i] tells
	// what face i is: -1 = decoy, a face the selection of the path must not hand to the matcher
	// (another family / no coverage of the script / a system font), else candidate of priority
	// class 0..3 (class&1: file extension .otf instead of .ttf; class&2: "mono" in the family; the
	// classes each path honours order the candidate list, see embeddedOrder). The candidate list
	// the matcher receives is therefore an arbitrary subset of the set's indices in an arbitrary
	// order.
	Set   []aspectJ `json:"set,omitempty"`
	Roles []int     `json:"roles,omitempty"`
}

func mkCase(cands []font.Aspect, q font.Aspect, path string) narrowCase {
	c := narrowCase{Query: toJ(q), Path: path}
	for _, a := range cands {
		c.Candidates = append(c.Candidates, toJ(a))
	}
	return c
}

func mkEmbedded(set []font.Aspect, roles []int, q font.Aspect, path string) narrowCase {
	c := narrowCase{Query: toJ(q), Path: path, Roles: append([]int(nil), roles...)}
	for _, a := range set {
		c.Set = append(c.Set, toJ(a))
	}
	return c
}

// ---- the property ----

// checkHook evaluates retainsBestMatches on (cands, q) against the reference.
func checkHook(t ev.TB, cands []font.Aspect, q font.Aspect) (want font.Aspect) {
	var got []int
	func() {
		defer func() {
			if r := recover(); r != nil {
				ev.Fail(t, "narrow", mkCase(cands, q, "hook"), "retainsBestMatches panicked: %v", r)
			}
		}()
		got = fontscan.VerifRetainsBestMatches(cands, q)
	}()
	fail := func(format string, args ...any) {
		ev.Fail(t, "narrow", mkCase(cands, q, "hook"), "candidates=%v query=%v result=%v: "+format, append([]any{cands, q, got}, args...)...)
	}
	if len(got) == 0 {
		fail("empty result for a non-empty candidate set")
	}
	for k, idx := range got {
		if idx < 0 || idx >= len(cands) {
			fail("index %d is not a candidate", idx)
		}
		if k > 0 && idx <= got[k-1] {
			fail("result is not an order-preserving subset of the candidates")
		}
		if cands[idx] != cands[got[0]] {
			fail("members do not share one stretch/style/weight: %v vs %v", cands[got[0]], cands[idx])
		}
	}
	want = Best(cands, q)
	if have := cands[got[0]]; have != want {
		fail("selected %v, CSS Fonts 5.2 selects %v", have, want)
	}
	n := 0
	for _, a := range cands {
		if a == want {
			n++
		}
	}
	if n != len(got) {
		fail("%d candidates carry the selected aspect but %d were retained", n, len(got))
	}
	return want
}

// ---- public path ----

const (
	poolFont  = "harfbuzz/harfbuzz_reference/aots/fonts/gsub1_1_simple_f1.otf"                            // 99 runes, Latin
	decoyFont = "harfbuzz/harfbuzz_reference/in-house/fonts/43ef465752be9af900745f72fe29cb853a1401a5.ttf" // 9 runes, Hebrew only
	poolSize  = 20
)

var (
	poolOnce    sync.Once
	pool        []*font.Face // distinct *font.Font objects with the same (Latin) coverage
	hebrewPool  []*font.Face // distinct *font.Font objects without Latin coverage
	systemDecoy fontscan.Footprint
	poolErr     error
)

func parseCopies(rel string) ([]*font.Face, error) {
	b, err := corpus.Bytes(rel)
	if err != nil {
		return nil, err
	}
	var out []*font.Face
	for i := 0; i < poolSize; i++ {
		fs, err := font.ParseTTC(bytes.NewReader(b))
		if err != nil || len(fs) == 0 {
			return nil, fmt.Errorf("parsing %s: %v", rel, err)
		}
		out = append(out, fs[0])
	}
	return out, nil
}

func facePool() error {
	poolOnce.Do(func() {
		if pool, poolErr = parseCopies(poolFont); poolErr != nil {
			return
		}
		if hebrewPool, poolErr = parseCopies(decoyFont); poolErr != nil {
			return
		}
		// a footprint as the system index would hold it (not user provided, loadable from disk)
		systemDecoy = fontscan.VerifFootprintFromFont(pool[0].Font, fontscan.Location{File: corpus.Abs(poolFont)}, font.Description{Family: "c15 decoy"})
		fontscan.VerifSetUserProvided(&systemDecoy, false)
	})
	return poolErr
}

var publicPaths = []string{"public-exact", "public-script", "public-manual"}

// embeddedOrder returns the indices of the candidates of an embedded case in the order in which
// the path hands them to the matcher, as documented: exact family and script fallback lists are
// sorted ("user provided ones come first, then "regular" over "mono" then TTF before CFF", ties in
// insertion order; all faces of one family share the mono hint), manually added fonts are
// "searched in the order in which they were added".
func embeddedOrder(roles []int, path string) []int {
	key := func(role int) int {
		switch path {
		case "public-exact":
			return role & 1
		case "public-script":
			return role & 3
		}
		return 0
	}
	var out []int
	for i, r := range roles {
		if r >= 0 {
			out = append(out, i)
		}
	}
	sort.SliceStable(out, func(a, b int) bool { return key(roles[out[a]]) < key(roles[out[b]]) })
	return out
}

func faceFile(i, role int) string {
	if role >= 0 && role&1 != 0 {
		return fmt.Sprintf("c15/face%02d.otf", i)
	}
	return fmt.Sprintf("c15/face%02d.ttf", i)
}

// checkEmbedded drives one case through AddFace -> SetQuery -> ResolveFace -> FontMetadata. The
// font set holds the candidates (same family / covering the script / manually added, depending on
// the path) among decoys that the selection of the path excludes, so the matcher receives a
// candidate list that is a subset of the set's indices, in the order given by the classes. All
// candidates cover the rune, so the face returned must carry the aspect CSS Fonts 5.2 selects
// among the CANDIDATES only, and be the first of the candidate list with that aspect.
func checkEmbedded(t ev.TB, set []font.Aspect, roles []int, q font.Aspect, path string) {
	if err := facePool(); err != nil || len(set) > poolSize || len(set) != len(roles) {
		t.Fatalf("face pool / case shape: %v (%d faces, %d roles)", err, len(set), len(roles))
	}
	c := mkEmbedded(set, roles, q, path)
	order := embeddedOrder(roles, path)
	if len(order) == 0 {
		return
	}
	cands := make([]font.Aspect, len(order))
	for k, i := range order {
		cands[k] = set[i]
	}
	var (
		family string
		aspect font.Aspect
		loc    fontscan.Location
	)
	func() {
		defer func() {
			if r := recover(); r != nil {
				ev.Fail(t, "narrow", c, "%s: set=%v roles=%v query=%v: panic: %v", path, set, roles, q, r)
			}
		}()
		fm := fontscan.NewFontMap(log.New(io.Discard, "", 0))
		for i, a := range set {
			role := roles[i]
			location := fontscan.Location{File: faceFile(i, role)}
			switch {
			case role >= 0:
				fam := "C15 Family"
				if path == "public-script" && role&2 != 0 {
					fam = "C15 mono Family"
				}
				fm.AddFace(pool[i], location, font.Description{Family: fam, Aspect: a})
			case path == "public-script":
				// decoy without coverage of the script
				fm.AddFace(hebrewPool[i], location, font.Description{Family: "c15 decoy", Aspect: a})
			case path == "public-manual":
				// decoy that is not a manually added font
				fp := systemDecoy
				fp.Aspect = a
				fp.Location.Index = uint16(i) // (never loaded: kept distinct)
				fm.VerifAppendFootprints(fp)
			default:
				// decoy of another family
				fm.AddFace(pool[i], location, font.Description{Family: "c15 decoy", Aspect: a})
			}
		}
		switch path {
		case "public-exact":
			fm.SetQuery(fontscan.Query{Families: []string{"C15 Family"}, Aspect: q})
		case "public-script":
			fm.SetQuery(fontscan.Query{Families: []string{"c15 unknown"}, Aspect: q})
			fm.SetScript(language.Latin)
		default:
			fm.SetQuery(fontscan.Query{Families: []string{"c15 unknown"}, Aspect: q})
		}
		face := fm.ResolveFace('a')
		if face == nil {
			ev.Fail(t, "narrow", c, "ResolveFace returned nil with %d faces added", len(set))
		}
		family, aspect = fm.FontMetadata(face.Font)
		loc = fm.FontLocation(face.Font)
	}()
	want := Best(cands, q)
	first := order[Narrow(cands, q)[0]]
	wantLoc := faceFile(first, roles[first])
	if loc.File != wantLoc || aspect != want {
		ev.Fail(t, "narrow", c, "%s: font set=%v roles=%v (candidate list %v) query=%v: resolved %s (%q %v); CSS Fonts 5.2 selects %v among the candidates, first carried by %s",
			path, set, roles, order, q, loc.File, family, aspect, want, wantLoc)
	}
	if family != "c15family" && family != "c15monofamily" {
		ev.Fail(t, "narrow", c, "%s: FontMetadata family %q", path, family)
	}
}

// checkPublic: the candidates are the whole font set (trivial embedding).
func checkPublic(t ev.TB, cands []font.Aspect, q font.Aspect, path string) {
	checkEmbedded(t, cands, make([]int, len(cands)), q, path)
}

// adversarialDecoys returns n aspects for the non-candidate slots, chosen against the candidates:
// the exact request (the CSS-best aspect of the whole set), then aspects that would win or divert
// one of the three steps if a step looked at them.
func adversarialDecoys(cands []font.Aspect, q font.Aspect, n int) []font.Aspect {
	d := Defaults(q)
	best := Best(cands, q)
	other := font.StyleNormal
	if best.Style == font.StyleNormal {
		other = font.StyleItalic
	}
	farStretch := font.StretchUltraCondensed
	if best.Stretch <= font.StretchNormal {
		farStretch = font.StretchUltraExpanded
	}
	all := []font.Aspect{
		d, // the exact request
		{Style: best.Style, Weight: best.Weight, Stretch: d.Stretch}, // the selected face, at the requested stretch
		{Style: other, Weight: d.Weight, Stretch: best.Stretch},      // the selected stretch, other style, requested weight
		{Style: best.Style, Weight: d.Weight, Stretch: best.Stretch}, // the selected stretch and style, requested weight
		{Style: d.Style, Weight: d.Weight, Stretch: farStretch},      // far on the other side
	}
	out := make([]font.Aspect, n)
	for i := range out {
		out[i] = all[i%len(all)]
	}
	return out
}

// embed places the candidates at the given slots of a font set of size n (slots[k] = position of
// candidate k, class classes[k]) and fills the other slots with adversarial decoys.
func embed(cands []font.Aspect, slots, classes []int, n int, q font.Aspect) (set []font.Aspect, roles []int) {
	set = make([]font.Aspect, n)
	roles = make([]int, n)
	for i := range roles {
		roles[i] = -1
	}
	for k, p := range slots {
		set[p], roles[p] = cands[k], classes[k]
	}
	decoys := adversarialDecoys(cands, q, n)
	k := 0
	for i := range set {
		if roles[i] < 0 {
			set[i] = decoys[k]
			k++
		}
	}
	return set, roles
}

func runCase(t ev.TB, c narrowCase) {
	if len(c.Set) > 0 {
		set := make([]font.Aspect, len(c.Set))
		for i, a := range c.Set {
			set[i] = a.aspect()
		}
		checkEmbedded(t, set, c.Roles, c.Query.aspect(), c.Path)
		return
	}
	cands := make([]font.Aspect, len(c.Candidates))
	for i, a := range c.Candidates {
		cands[i] = a.aspect()
	}
	if len(cands) == 0 {
		return
	}
	if c.Path == "" || c.Path == "hook" {
		checkHook(t, cands, c.Query.aspect())
	} else {
		checkPublic(t, cands, c.Query.aspect(), c.Path)
	}
}

// ---- classification ----

type tally struct {
	total, nontrivial, public int64
	labels                    map[string]int64
}

func newTally() *tally { return &tally{labels: map[string]int64{}} }

func classify(cands []font.Aspect, query, best font.Aspect) (nontrivial bool, labels []string) {
	q := Defaults(query)
	var st, sl, w bool
	for _, a := range cands {
		st = st || a.Stretch == q.Stretch
		sl = sl || a.Style == q.Style
		w = w || a.Weight == q.Weight
	}
	if !st {
		if q.Stretch <= 1 {
			labels = append(labels, "stretch_inexact_query_le_normal")
		} else {
			labels = append(labels, "stretch_inexact_query_gt_normal")
		}
	}
	if !sl {
		labels = append(labels, "style_inexact")
	}
	if !w {
		switch {
		case q.Weight < 400:
			labels = append(labels, "weight_inexact_query_lt_400")
		case q.Weight <= 500:
			labels = append(labels, "weight_inexact_query_400_500")
		default:
			labels = append(labels, "weight_inexact_query_gt_500")
		}
	}
	if query.Stretch == 0 || query.Style == 0 || query.Weight == 0 {
		labels = append(labels, "query_has_unset_field")
	}
	// did a step have to choose between two or more inexact values?
	if !st && distinct(cands, func(a font.Aspect) float64 { return float64(a.Stretch) }) > 1 {
		labels = append(labels, "stretch_inexact_with_choice")
	}
	if !w {
		rest := keep(append([]font.Aspect(nil), cands...), func(a font.Aspect) bool { return a.Stretch == best.Stretch && a.Style == best.Style })
		if distinct(rest, func(a font.Aspect) float64 { return float64(a.Weight) }) > 1 {
			labels = append(labels, "weight_inexact_with_choice")
		}
	}
	return !(st && sl && w), labels
}

func distinct(cands []font.Aspect, f func(font.Aspect) float64) int {
	var seen []float64
outer:
	for _, a := range cands {
		v := f(a)
		for _, s := range seen {
			if s == v {
				continue outer
			}
		}
		seen = append(seen, v)
	}
	return len(seen)
}

func (ta *tally) add(cands []font.Aspect, q, best font.Aspect) {
	nt, ls := classify(cands, q, best)
	ta.total++
	if nt {
		ta.nontrivial++
	}
	for _, l := range ls {
		ta.labels[l]++
	}
}

func (ta *tally) flush() {
	ev.CaseEnum(ta.total, ta.nontrivial)
	keys := make([]string, 0, len(ta.labels))
	for k := range ta.labels {
		keys = append(keys, k)
	}
	sort.Strings(keys)
	for _, k := range keys {
		ev.LabelN(k, ta.labels[k])
	}
	ev.LabelN("public_path", ta.public)
}

// hashedSlots derives k distinct slots of 0..n-1 (in arbitrary order) and k classes from h.
func hashedSlots(h uint64, k, n int) (slots, classes []int) {
	free := make([]int, n)
	for i := range free {
		free[i] = i
	}
	for i := 0; i < k; i++ {
		h = mix(h + uint64(i) + 1)
		j := int(h % uint64(len(free)))
		slots = append(slots, free[j])
		free = append(free[:j], free[j+1:]...)
		classes = append(classes, int(h>>20)&3)
	}
	return slots, classes
}

func mix(x uint64) uint64 {
	x ^= x >> 33
	x *= 0xff51afd7ed558ccd
	x ^= x >> 33
	x *= 0xc4ceb9fe1a85ec53
	x ^= x >> 33
	return x
}

// ---- exhaustive enumeration ----

// TestPropEnumerate evaluates every candidate multiset of size <= 2 (quick) or <= 3 (thorough) of
// the 216-aspect grid against every one of the 390 requested aspects (grid + unset fields) through
// the hook, and a ~2 % deterministic sample (chosen by VERIF_SEED) through the public path.
func TestPropEnumerate(t *testing.T) {
	shard, nshards := ev.Shard()
	grid := Grid()
	queries := Queries()
	maxSize := ev.Scale(2, 3)
	seed := uint64(ev.Seed())
	ta := newTally()
	var counter uint64

	eval := func(cands []font.Aspect) {
		for _, q := range queries {
			best := checkHook(t, cands, q)
			ta.add(cands, q, best)
			counter++
			if h := mix(counter ^ seed<<32 ^ uint64(shard)<<56); h%50 == 0 {
				// the candidates sit at hash-chosen slots, with hash-chosen priority classes, of a
				// font set holding three adversarial decoys
				path := publicPaths[(h/50)%3]
				n := len(cands) + 3
				slots, classes := hashedSlots(h/150, len(cands), n)
				set, roles := embed(cands, slots, classes, n, q)
				checkEmbedded(t, set, roles, q, path)
				ta.public++
				ev.Label(path)
				if ev.WantSample() {
					ev.Sample(mkEmbedded(set, roles, q, path))
				}
			}
		}
	}

	buf := make([]font.Aspect, 0, 3)
	for i := range grid {
		if i%nshards != shard {
			continue
		}
		eval(append(buf[:0], grid[i]))
		if maxSize < 2 {
			continue
		}
		for j := i; j < len(grid); j++ {
			eval(append(buf[:0], grid[i], grid[j]))
			if maxSize < 3 {
				continue
			}
			for k := j; k < len(grid); k++ {
				eval(append(buf[:0], grid[i], grid[j], grid[k]))
			}
		}
	}
	ev.LabelN(fmt.Sprintf("multiset_size_le_%d", maxSize), ta.total)
	ta.flush()
}

// ---- random larger sets ----

func genAspect(grid []font.Aspect) *rapid.Generator[font.Aspect] {
	return rapid.Custom(func(t *rapid.T) font.Aspect {
		return grid[rapid.IntRange(0, len(grid)-1).Draw(t, "aspect")]
	})
}

// TestPropRandomSets: random candidate lists of size 3-12 (arbitrary order, duplicates allowed,
// optionally concentrated on few stretches/styles so that the later steps have a choice) against a
// random requested aspect, through the hook and (one case in eight) through the public path.
func TestPropRandomSets(t *testing.T) {
	grid := Grid()
	queries := Queries()
	rapid.Check(t, func(t *rapid.T) {
		n := rapid.IntRange(3, 12).Draw(t, "n")
		cands := make([]font.Aspect, n)
		// concentrate: number of distinct stretches / whether style is fixed
		nst := rapid.IntRange(1, 9).Draw(t, "nStretches")
		sts := make([]font.Stretch, nst)
		for i := range sts {
			sts[i] = Stretches[rapid.IntRange(0, 8).Draw(t, "stretch")]
		}
		fixStyle := rapid.IntRange(0, 2).Draw(t, "fixStyle") // 0 free, 1 all normal, 2 all italic
		for i := range cands {
			a := genAspect(grid).Draw(t, "cand")
			a.Stretch = sts[rapid.IntRange(0, nst-1).Draw(t, "st")]
			if fixStyle != 0 {
				a.Style = font.Style(fixStyle)
			}
			cands[i] = a
		}
		q := queries[rapid.IntRange(0, len(queries)-1).Draw(t, "query")]
		path := "hook"
		if p := rapid.IntRange(0, 8).Draw(t, "path"); p < 3 {
			path = publicPaths[p]
		}
		c := mkCase(cands, q, path)
		// public paths: the candidates are embedded, at arbitrary slots and with arbitrary priority
		// classes, in a larger font set whose other slots hold decoys (the exact request, aspects
		// chosen against the candidates, random ones)
		var (
			set   []font.Aspect
			roles []int
		)
		if path != "hook" {
			nd := rapid.IntRange(0, poolSize-n).Draw(t, "nDecoys")
			adv := adversarialDecoys(cands, q, nd)
			perm := rapid.Permutation(seq(n+nd)).Draw(t, "slots")
			set, roles = make([]font.Aspect, n+nd), make([]int, n+nd)
			for k, pos := range perm {
				if k < n {
					set[pos], roles[pos] = cands[k], rapid.IntRange(0, 3).Draw(t, "class")
				} else {
					set[pos], roles[pos] = adv[k-n], -1
					if rapid.IntRange(0, 2).Draw(t, "randomDecoy") == 0 {
						set[pos] = genAspect(grid).Draw(t, "decoy")
					}
				}
			}
			c = mkEmbedded(set, roles, q, path)
		}
		if ev.WantSample() {
			ev.Sample(c)
		}
		best := checkHook(t, cands, q)
		nt, labels := classify(cands, q, best)
		ev.Case(nt, c, append(labels, "random_"+path)...)
		if path != "hook" {
			checkEmbedded(t, set, roles, q, path)
			if !equalInts(embeddedOrder(roles, path), seq(len(set))) {
				ev.Label("random_candidates_not_identity")
			}
		}
	})
}

func seq(n int) []int {
	out := make([]int, n)
	for i := range out {
		out[i] = i
	}
	return out
}

func equalInts(a, b []int) bool {
	if len(a) != len(b) {
		return false
	}
	for i := range a {
		if a[i] != b[i] {
			return false
		}
	}
	return true
}

// ---- exhaustive embeddings ----

// TestPropEmbeddings: small-scope exhaustive enumeration of the ARGUMENT SHAPE of the matcher:
// every candidate multiset of size 1-3 of a 2 x 2 x 2 aspect grid, placed at every ordered choice
// of slots of a font set of 5 (every subset of positions, every order of the candidate list), the
// other slots holding decoys chosen against the candidates, against 18 requests, through the
// public path that can produce that order (any order: script fallback; two interleaved increasing
// runs: exact family; increasing: all three, rotated).
func TestPropEmbeddings(t *testing.T) {
	shard, nshards := ev.Shard()
	var tiny []font.Aspect
	for _, st := range []font.Stretch{font.StretchCondensed, font.StretchExpanded} {
		for _, sl := range Styles {
			for _, w := range []font.Weight{300, 700} {
				tiny = append(tiny, font.Aspect{Style: sl, Weight: w, Stretch: st})
			}
		}
	}
	var queries []font.Aspect
	for _, st := range []font.Stretch{0, font.StretchCondensed, font.StretchExtraExpanded} {
		for _, sl := range []font.Style{0, font.StyleItalic} {
			for _, w := range []font.Weight{0, 300, 800} {
				queries = append(queries, font.Aspect{Style: sl, Weight: w, Stretch: st})
			}
		}
	}
	const n = 5
	maxK := 3
	var total, nt, nonIdentity, counter int64
	// ordered choices of k distinct slots
	var arrangements func(k int, used int, cur []int, f func([]int))
	arrangements = func(k int, used int, cur []int, f func([]int)) {
		if len(cur) == k {
			f(cur)
			return
		}
		for p := 0; p < n; p++ {
			if used&(1<<p) == 0 {
				arrangements(k, used|1<<p, append(cur, p), f)
			}
		}
	}
	eval := func(cands []font.Aspect) {
		counter++
		if int(counter)%nshards != shard {
			return
		}
		arrangements(len(cands), 0, nil, func(slots []int) {
			// classes that make the path hand over the candidates in exactly this order
			classes := make([]int, len(slots))
			runs := 0
			for k := 1; k < len(slots); k++ {
				if slots[k] < slots[k-1] {
					runs++
				}
				classes[k] = runs
			}
			var paths []string
			switch runs {
			case 0:
				paths = publicPaths
			case 1:
				paths = publicPaths[:2]
			default:
				paths = publicPaths[1:2]
			}
			for qi, q := range queries {
				path := paths[(qi+int(total))%len(paths)]
				set, roles := embed(cands, slots, classes, n, q)
				if got := embeddedOrder(roles, path); !equalInts(got, slots) {
					t.Fatalf("embedding: wanted candidate order %v, the classes give %v", slots, got)
				}
				checkEmbedded(t, set, roles, q, path)
				total++
				if !ExactOnAllAxes(cands, q) {
					nt++
				}
				if !equalInts(slots, seq(len(slots))) {
					nonIdentity++
				}
				if total%9973 == 0 && ev.WantSample() {
					ev.Sample(mkEmbedded(set, roles, q, path))
				}
			}
		})
	}
	buf := make([]font.Aspect, 0, 3)
	for i := range tiny {
		eval(append(buf[:0], tiny[i]))
		for j := i; j < len(tiny) && maxK >= 2; j++ {
			eval(append(buf[:0], tiny[i], tiny[j]))
			for k := j; k < len(tiny) && maxK >= 3; k++ {
				eval(append(buf[:0], tiny[i], tiny[j], tiny[k]))
			}
		}
	}
	ev.CaseEnum(total, nt)
	ev.LabelN("embedded_in_set_of_5", total)
	ev.LabelN("embedded_candidates_not_identity", nonIdentity)
}

// ---- replay ----

func replayFile(t *testing.T, path string) {
	check, raw, err := ev.LoadReplay(path)
	if err != nil {
		t.Fatalf("replay %s: %v", path, err)
	}
	switch check {
	case "narrow":
		var c narrowCase
		if err := json.Unmarshal(raw, &c); err != nil {
			t.Fatalf("replay %s: %v", path, err)
		}
		runCase(t, c)
	default:
		t.Fatalf("replay %s: unknown check %q", path, check)
	}
}

func TestReplay(t *testing.T) {
	if p := ev.ReplayPath(); p != "" {
		replayFile(t, p)
		return
	}
	dir := os.Getenv("VERIF_REPLAY_DIR")
	if dir == "" {
		return
	}
	files, _ := filepath.Glob(filepath.Join(dir, "*.json"))
	sort.Strings(files)
	for _, f := range files {
		replayFile(t, f)
	}
}
