package c15

import (
	"bytes"
	"encoding/json"
	"fmt"
	"io"
	"log"
	"os"
	"path/filepath"
	"sort"
	"sync"
	"testing"

	"github.com/go-text/typesetting/font"
	"github.com/go-text/typesetting/fontscan"
	"github.com/go-text/typesetting/language"
	"pgregory.net/rapid"

	"verif/internal/corpus"
	"verif/internal/ev"
)

func TestMain(m *testing.M) { ev.Main(m) }

// ---- decoded case ----

type aspectJ struct {
	Style   uint8   `json:"style"` // 0 unset, 1 normal, 2 italic
	Weight  float32 `json:"weight"`
	Stretch float32 `json:"stretch"`
}

func toJ(a font.Aspect) aspectJ {
	return aspectJ{uint8(a.Style), float32(a.Weight), float32(a.Stretch)}
}
func (a aspectJ) aspect() font.Aspect {
	return font.Aspect{Style: font.Style(a.Style), Weight: font.Weight(a.Weight), Stretch: font.Stretch(a.Stretch)}
}

// narrowCase is the replayable form of one evaluation.
type narrowCase struct {
	Candidates []aspectJ `json:"candidates"`
	Query      aspectJ   `json:"query"`
	// Path: "hook" (fontSet.retainsBestMatches through the verif hook) or one of the public paths
	// AddFace -> SetQuery -> ResolveFace -> FontMetadata: "public-exact" (the query names the
	// family of the faces: step 1 of ResolveFace), "public-script" (unknown family, script set:
	// step 2), "public-manual" (unknown family, no script: step 3).
	Path string `json:"path"`
}

func mkCase(cands []font.Aspect, q font.Aspect, path string) narrowCase {
	c := narrowCase{Query: toJ(q), Path: path}
	for _, a := range cands {
		c.Candidates = append(c.Candidates, toJ(a))
	}
	return c
}

// ---- the property ----

// checkHook evaluates retainsBestMatches on (cands, q) against the reference.
func checkHook(t ev.TB, cands []font.Aspect, q font.Aspect) (want font.Aspect) {
	var got []int
	func() {
		defer func() {
			if r := recover(); r != nil {
				ev.Fail(t, "narrow", mkCase(cands, q, "hook"), "retainsBestMatches panicked: %v", r)
			}
		}()
		got = fontscan.VerifRetainsBestMatches(cands, q)
	}()
	fail := func(format string, args ...any) {
		ev.Fail(t, "narrow", mkCase(cands, q, "hook"), "candidates=%v query=%v result=%v: "+format, append([]any{cands, q, got}, args...)...)
	}
	if len(got) == 0 {
		fail("empty result for a non-empty candidate set")
	}
	for k, idx := range got {
		if idx < 0 || idx >= len(cands) {
			fail("index %d is not a candidate", idx)
		}
		if k > 0 && idx <= got[k-1] {
			fail("result is not an order-preserving subset of the candidates")
		}
		if cands[idx] != cands[got[0]] {
			fail("members do not share one stretch/style/weight: %v vs %v", cands[got[0]], cands[idx])
		}
	}
	want = Best(cands, q)
	if have := cands[got[0]]; have != want {
		fail("selected %v, CSS Fonts 5.2 selects %v", have, want)
	}
	n := 0
	for _, a := range cands {
		if a == want {
			n++
		}
	}
	if n != len(got) {
		fail("%d candidates carry the selected aspect but %d were retained", n, len(got))
	}
	return want
}

// ---- public path ----

const poolFont = "harfbuzz/harfbuzz_reference/aots/fonts/gsub1_1_simple_f1.otf" // 99 runes, Latin

var (
	poolOnce sync.Once
	pool     []*font.Face // distinct *font.Font objects with the same coverage
	poolErr  error
)

func facePool() ([]*font.Face, error) {
	poolOnce.Do(func() {
		b, err := corpus.Bytes(poolFont)
		if err != nil {
			poolErr = err
			return
		}
		for i := 0; i < 12; i++ {
			fs, err := font.ParseTTC(bytes.NewReader(b))
			if err != nil || len(fs) == 0 {
				poolErr = fmt.Errorf("parsing %s: %v", poolFont, err)
				return
			}
			pool = append(pool, fs[0])
		}
	})
	return pool, poolErr
}

var publicPaths = []string{"public-exact", "public-script", "public-manual"}

// checkPublic runs the same case through AddFace -> SetQuery -> ResolveFace -> FontMetadata. All
// faces share family and coverage, so the face returned for a covered rune must carry the aspect
// the specification selects; as the relative priority of manually added faces is their insertion
// order (doc of AddFace), it must be the first added face with that aspect.
func checkPublic(t ev.TB, cands []font.Aspect, q font.Aspect, path string) {
	faces, err := facePool()
	if err != nil || len(cands) > len(faces) {
		t.Fatalf("face pool: %v", err)
	}
	c := mkCase(cands, q, path)
	var (
		family string
		aspect font.Aspect
		loc    fontscan.Location
	)
	func() {
		defer func() {
			if r := recover(); r != nil {
				ev.Fail(t, "narrow", c, "public path panicked: %v", r)
			}
		}()
		fm := fontscan.NewFontMap(log.New(io.Discard, "", 0))
		for i, a := range cands {
			fm.AddFace(faces[i], fontscan.Location{File: fmt.Sprintf("c15/face%02d.otf", i)}, font.Description{Family: "C15 Family", Aspect: a})
		}
		switch path {
		case "public-exact":
			fm.SetQuery(fontscan.Query{Families: []string{"C15 Family"}, Aspect: q})
		case "public-script":
			fm.SetQuery(fontscan.Query{Families: []string{"c15 unknown"}, Aspect: q})
			fm.SetScript(language.Latin)
		default:
			fm.SetQuery(fontscan.Query{Families: []string{"c15 unknown"}, Aspect: q})
		}
		face := fm.ResolveFace('a')
		if face == nil {
			ev.Fail(t, "narrow", c, "ResolveFace returned nil with %d faces added", len(cands))
		}
		family, aspect = fm.FontMetadata(face.Font)
		loc = fm.FontLocation(face.Font)
	}()
	want := Best(cands, q)
	if family != "c15family" {
		ev.Fail(t, "narrow", c, "%s: FontMetadata family %q", path, family)
	}
	if aspect != want {
		ev.Fail(t, "narrow", c, "%s: candidates=%v query=%v: resolved face has aspect %v, CSS Fonts 5.2 selects %v", path, cands, q, aspect, want)
	}
	first := Narrow(cands, q)[0]
	if wantLoc := fmt.Sprintf("c15/face%02d.otf", first); loc.File != wantLoc {
		ev.Fail(t, "narrow", c, "%s: candidates=%v query=%v: resolved %s, the first added face with the selected aspect is %s", path, cands, q, loc.File, wantLoc)
	}
}

func runCase(t ev.TB, c narrowCase) {
	cands := make([]font.Aspect, len(c.Candidates))
	for i, a := range c.Candidates {
		cands[i] = a.aspect()
	}
	if len(cands) == 0 {
		return
	}
	if c.Path == "" || c.Path == "hook" {
		checkHook(t, cands, c.Query.aspect())
	} else {
		checkPublic(t, cands, c.Query.aspect(), c.Path)
	}
}

// ---- classification ----

type tally struct {
	total, nontrivial, public int64
	labels                    map[string]int64
}

func newTally() *tally { return &tally{labels: map[string]int64{}} }

func classify(cands []font.Aspect, query, best font.Aspect) (nontrivial bool, labels []string) {
	q := Defaults(query)
	var st, sl, w bool
	for _, a := range cands {
		st = st || a.Stretch == q.Stretch
		sl = sl || a.Style == q.Style
		w = w || a.Weight == q.Weight
	}
	if !st {
		if q.Stretch <= 1 {
			labels = append(labels, "stretch_inexact_query_le_normal")
		} else {
			labels = append(labels, "stretch_inexact_query_gt_normal")
		}
	}
	if !sl {
		labels = append(labels, "style_inexact")
	}
	if !w {
		switch {
		case q.Weight < 400:
			labels = append(labels, "weight_inexact_query_lt_400")
		case q.Weight <= 500:
			labels = append(labels, "weight_inexact_query_400_500")
		default:
			labels = append(labels, "weight_inexact_query_gt_500")
		}
	}
	if query.Stretch == 0 || query.Style == 0 || query.Weight == 0 {
		labels = append(labels, "query_has_unset_field")
	}
	// did a step have to choose between two or more inexact values?
	if !st && distinct(cands, func(a font.Aspect) float64 { return float64(a.Stretch) }) > 1 {
		labels = append(labels, "stretch_inexact_with_choice")
	}
	if !w {
		rest := keep(append([]font.Aspect(nil), cands...), func(a font.Aspect) bool { return a.Stretch == best.Stretch && a.Style == best.Style })
		if distinct(rest, func(a font.Aspect) float64 { return float64(a.Weight) }) > 1 {
			labels = append(labels, "weight_inexact_with_choice")
		}
	}
	return !(st && sl && w), labels
}

func distinct(cands []font.Aspect, f func(font.Aspect) float64) int {
	var seen []float64
outer:
	for _, a := range cands {
		v := f(a)
		for _, s := range seen {
			if s == v {
				continue outer
			}
		}
		seen = append(seen, v)
	}
	return len(seen)
}

func (ta *tally) add(cands []font.Aspect, q, best font.Aspect) {
	nt, ls := classify(cands, q, best)
	ta.total++
	if nt {
		ta.nontrivial++
	}
	for _, l := range ls {
		ta.labels[l]++
	}
}

func (ta *tally) flush() {
	ev.CaseEnum(ta.total, ta.nontrivial)
	keys := make([]string, 0, len(ta.labels))
	for k := range ta.labels {
		keys = append(keys, k)
	}
	sort.Strings(keys)
	for _, k := range keys {
		ev.LabelN(k, ta.labels[k])
	}
	ev.LabelN("public_path", ta.public)
}

func mix(x uint64) uint64 {
	x ^= x >> 33
	x *= 0xff51afd7ed558ccd
	x ^= x >> 33
	x *= 0xc4ceb9fe1a85ec53
	x ^= x >> 33
	return x
}

// ---- exhaustive enumeration ----

// TestPropEnumerate evaluates every candidate multiset of size <= 2 (quick) or <= 3 (thorough) of
// the 216-aspect grid against every one of the 390 requested aspects (grid + unset fields) through
// the hook, and a ~2 % deterministic sample (chosen by VERIF_SEED) through the public path.
func TestPropEnumerate(t *testing.T) {
	shard, nshards := ev.Shard()
	grid := Grid()
	queries := Queries()
	maxSize := ev.Scale(2, 3)
	seed := uint64(ev.Seed())
	ta := newTally()
	var counter uint64

	eval := func(cands []font.Aspect) {
		for _, q := range queries {
			best := checkHook(t, cands, q)
			ta.add(cands, q, best)
			counter++
			if h := mix(counter ^ seed<<32 ^ uint64(shard)<<56); h%50 == 0 {
				path := publicPaths[(h/50)%3]
				checkPublic(t, cands, q, path)
				ta.public++
				ev.Label(path)
				if ev.WantSample() {
					ev.Sample(mkCase(cands, q, path))
				}
			}
		}
	}

	buf := make([]font.Aspect, 0, 3)
	for i := range grid {
		if i%nshards != shard {
			continue
		}
		eval(append(buf[:0], grid[i]))
		if maxSize < 2 {
			continue
		}
		for j := i; j < len(grid); j++ {
			eval(append(buf[:0], grid[i], grid[j]))
			if maxSize < 3 {
				continue
			}
			for k := j; k < len(grid); k++ {
				eval(append(buf[:0], grid[i], grid[j], grid[k]))
			}
		}
	}
	ev.LabelN(fmt.Sprintf("multiset_size_le_%d", maxSize), ta.total)
	ta.flush()
}

// ---- random larger sets ----

func genAspect(grid []font.Aspect) *rapid.Generator[font.Aspect] {
	return rapid.Custom(func(t *rapid.T) font.Aspect {
		return grid[rapid.IntRange(0, len(grid)-1).Draw(t, "aspect")]
	})
}

// TestPropRandomSets: random candidate lists of size 3-12 (arbitrary order, duplicates allowed,
// optionally concentrated on few stretches/styles so that the later steps have a choice) against a
// random requested aspect, through the hook and (one case in eight) through the public path.
func TestPropRandomSets(t *testing.T) {
	grid := Grid()
	queries := Queries()
	rapid.Check(t, func(t *rapid.T) {
		n := rapid.IntRange(3, 12).Draw(t, "n")
		cands := make([]font.Aspect, n)
		// concentrate: number of distinct stretches / whether style is fixed
		nst := rapid.IntRange(1, 9).Draw(t, "nStretches")
		sts := make([]font.Stretch, nst)
		for i := range sts {
			sts[i] = Stretches[rapid.IntRange(0, 8).Draw(t, "stretch")]
		}
		fixStyle := rapid.IntRange(0, 2).Draw(t, "fixStyle") // 0 free, 1 all normal, 2 all italic
		for i := range cands {
			a := genAspect(grid).Draw(t, "cand")
			a.Stretch = sts[rapid.IntRange(0, nst-1).Draw(t, "st")]
			if fixStyle != 0 {
				a.Style = font.Style(fixStyle)
			}
			cands[i] = a
		}
		q := queries[rapid.IntRange(0, len(queries)-1).Draw(t, "query")]
		path := "hook"
		if p := rapid.IntRange(0, 23).Draw(t, "path"); p < 3 {
			path = publicPaths[p]
		}
		c := mkCase(cands, q, path)
		if ev.WantSample() {
			ev.Sample(c)
		}
		best := checkHook(t, cands, q)
		nt, labels := classify(cands, q, best)
		ev.Case(nt, c, append(labels, "random_"+path)...)
		if path != "hook" {
			checkPublic(t, cands, q, path)
		}
	})
}

// ---- replay ----

func replayFile(t *testing.T, path string) {
	check, raw, err := ev.LoadReplay(path)
	if err != nil {
		t.Fatalf("replay %s: %v", path, err)
	}
	switch check {
	case "narrow":
		var c narrowCase
		if err := json.Unmarshal(raw, &c); err != nil {
			t.Fatalf("replay %s: %v", path, err)
		}
		runCase(t, c)
	default:
		t.Fatalf("replay %s: unknown check %q", path, check)
	}
}

func TestReplay(t *testing.T) {
	if p := ev.ReplayPath(); p != "" {
		replayFile(t, p)
		return
	}
	dir := os.Getenv("VERIF_REPLAY_DIR")
	if dir == "" {
		return
	}
	files, _ := filepath.Glob(filepath.Join(dir, "*.json"))
	sort.Strings(files)
	for _, f := range files {
		replayFile(t, f)
	}
}
