// Package c15 decides property C15: style matching follows the CSS font matching algorithm.
//
// This file is the reference: a direct transcription of CSS Fonts Level 4 §5.2 ("font style
// matching", steps 4.1 font-stretch, 4.2 font-style, 4.3 font-weight), written as "order the
// values that are present by the preference the specification prescribes for the desired value and
// take the first", independently of the library's nearest-narrower / nearest-wider bookkeeping.
// It is a non-test file because the C14 priority model narrows its candidate lists with it.
package c15

import (
	"github.com/go-text/typesetting/font"
)

// The grid of the property statement.
var (
	Stretches = []font.Stretch{
		font.StretchUltraCondensed, font.StretchExtraCondensed, font.StretchCondensed, font.StretchSemiCondensed,
		font.StretchNormal, font.StretchSemiExpanded, font.StretchExpanded, font.StretchExtraExpanded, font.StretchUltraExpanded,
	}
	// font.Style has two values only: the library groups italic and oblique ("map Oblique to Italic").
	Styles  = []font.Style{font.StyleNormal, font.StyleItalic}
	Weights = []font.Weight{100, 200, 300, 350, 400, 450, 500, 600, 700, 800, 900, 950}
)

// Grid returns the 9 x 2 x 12 aspects of the grid, in a fixed order.
func Grid() []font.Aspect {
	out := make([]font.Aspect, 0, len(Stretches)*len(Styles)*len(Weights))
	for _, st := range Stretches {
		for _, sl := range Styles {
			for _, w := range Weights {
				out = append(out, font.Aspect{Style: sl, Weight: w, Stretch: st})
			}
		}
	}
	return out
}

// Queries returns the grid extended with unset (zero) fields: 10 x 3 x 13 requested aspects.
func Queries() []font.Aspect {
	var out []font.Aspect
	for _, st := range append([]font.Stretch{0}, Stretches...) {
		for _, sl := range append([]font.Style{0}, Styles...) {
			for _, w := range append([]font.Weight{0}, Weights...) {
				out = append(out, font.Aspect{Style: sl, Weight: w, Stretch: st})
			}
		}
	}
	return out
}

// Defaults implements the documented meaning of unset fields ("SetDefaults replace unspecified
// values by the default values: StyleNormal, WeightNormal, StretchNormal").
func Defaults(q font.Aspect) font.Aspect {
	if q.Style == 0 {
		q.Style = font.StyleNormal
	}
	if q.Weight == 0 {
		q.Weight = 400
	}
	if q.Stretch == 0 {
		q.Stretch = 1
	}
	return q
}

// pref is a position in the search order of the specification: values are tried by increasing
// group, and inside a group by increasing distance to the desired value.
type pref struct {
	group int
	dist  float64
}

func (a pref) before(b pref) bool {
	if a.group != b.group {
		return a.group < b.group
	}
	return a.dist < b.dist
}

// stretchPref: "font-stretch is tried first. If the matching set contains faces with width values
// matching the desired value, faces with other values are removed. Otherwise, if the desired
// value is less than or equal to 100%, values below the desired value are checked in descending
// order followed by values above it in ascending order until a match is found; otherwise values
// above the desired value are checked in ascending order followed by values below it in
// descending order."
func stretchPref(desired, v font.Stretch) pref {
	switch {
	case v == desired:
		return pref{0, 0}
	case desired <= font.StretchNormal:
		if v < desired {
			return pref{1, float64(desired - v)}
		}
		return pref{2, float64(v - desired)}
	default:
		if v > desired {
			return pref{1, float64(v - desired)}
		}
		return pref{2, float64(desired - v)}
	}
}

// stylePref: "italic: italic, then oblique, then normal; oblique: oblique, then italic, then
// normal; normal: normal, then oblique, then italic". The library has one value for italic and
// oblique, so the three-element lists are written with oblique = StyleItalic.
func stylePref(desired, v font.Style) pref {
	const oblique = font.StyleItalic
	var order [3]font.Style
	switch desired {
	case font.StyleItalic: // also covers "oblique"
		order = [3]font.Style{font.StyleItalic, oblique, font.StyleNormal}
	default:
		order = [3]font.Style{font.StyleNormal, oblique, font.StyleItalic}
	}
	for i, s := range order {
		if s == v {
			return pref{i, 0}
		}
	}
	return pref{len(order), 0}
}

// weightPref: "If the desired weight is inclusively between 400 and 500, weights greater than or
// equal to the target weight are checked in ascending order until 500 is hit and checked,
// followed by weights less than the target weight in descending order, followed by weights
// greater than 500, until a match is found. If the desired weight is less than 400, weights less
// than or equal to the desired weight are checked in descending order followed by weights above
// the desired weight in ascending order. If the desired weight is greater than 500, weights
// greater than or equal to the desired weight are checked in ascending order followed by weights
// below the desired weight in descending order."
func weightPref(desired, v font.Weight) pref {
	switch {
	case v == desired:
		return pref{0, 0}
	case desired >= 400 && desired <= 500:
		switch {
		case v > desired && v <= 500:
			return pref{1, float64(v - desired)}
		case v < desired:
			return pref{2, float64(desired - v)}
		default: // v > 500
			return pref{3, float64(v - desired)}
		}
	case desired < 400:
		if v < desired {
			return pref{1, float64(desired - v)}
		}
		return pref{2, float64(v - desired)}
	default: // desired > 500
		if v > desired {
			return pref{1, float64(v - desired)}
		}
		return pref{2, float64(desired - v)}
	}
}

// Best returns the (stretch, style, weight) the specification selects among cands for the
// requested aspect: candidates are sorted by the preference of the stretch step and only those
// sharing the best stretch are kept, then likewise for style, then weight. cands must not be empty.
func Best(cands []font.Aspect, query font.Aspect) font.Aspect {
	q := Defaults(query)
	var buf [16]font.Aspect
	set := append(buf[:0], cands...)

	sortBy(set, func(a, b font.Aspect) bool {
		return stretchPref(q.Stretch, a.Stretch).before(stretchPref(q.Stretch, b.Stretch))
	})
	best := set[0].Stretch
	set = keep(set, func(a font.Aspect) bool { return a.Stretch == best })

	sortBy(set, func(a, b font.Aspect) bool {
		return stylePref(q.Style, a.Style).before(stylePref(q.Style, b.Style))
	})
	bestStyle := set[0].Style
	set = keep(set, func(a font.Aspect) bool { return a.Style == bestStyle })

	sortBy(set, func(a, b font.Aspect) bool {
		return weightPref(q.Weight, a.Weight).before(weightPref(q.Weight, b.Weight))
	})
	return set[0]
}

// sortBy is a stable insertion sort (the sets are small; sort.SliceStable allocates).
func sortBy(set []font.Aspect, before func(a, b font.Aspect) bool) {
	for i := 1; i < len(set); i++ {
		for j := i; j > 0 && before(set[j], set[j-1]); j-- {
			set[j], set[j-1] = set[j-1], set[j]
		}
	}
}

// keep filters set in place.
func keep(set []font.Aspect, ok func(font.Aspect) bool) []font.Aspect {
	out := set[:0]
	for _, a := range set {
		if ok(a) {
			out = append(out, a)
		}
	}
	return out
}

// Narrow returns the indices (increasing) of the candidates the specification retains.
func Narrow(cands []font.Aspect, query font.Aspect) []int {
	if len(cands) == 0 {
		return nil
	}
	best := Best(cands, query)
	var out []int
	for i, a := range cands {
		if a == best {
			out = append(out, i)
		}
	}
	return out
}

// ExactOnAllAxes tells whether, on every axis, some candidate carries exactly the (defaulted)
// requested value; a case is non-trivial when this is false.
func ExactOnAllAxes(cands []font.Aspect, query font.Aspect) bool {
	q := Defaults(query)
	var st, sl, w bool
	for _, a := range cands {
		st = st || a.Stretch == q.Stretch
		sl = sl || a.Style == q.Style
		w = w || a.Weight == q.Weight
	}
	return st && sl && w
}
