package c16

import (
	"bytes"
	"encoding/binary"
	"fmt"
	"sort"
	"testing"

	"github.com/go-text/typesetting/font"
	"github.com/go-text/typesetting/fontscan"
	"github.com/go-text/typesetting/language"

	"verif/internal/ev"
)

// Round trip of BIG indexes with the alignment of every kind of field swept across the boundaries
// of the chunks the layers below work with: the 32 KiB window of compress/flate (a Read of the gzip
// reader stops there), 4 KiB buffers, the 64 KiB limit of the string length fields.
//
// An index of several such chunks is built directly (synthetic footprints); the length of the path
// of its FIRST entry is the padding: changing it by one byte shifts every later field by one byte.
// For every boundary B, every kind of field and every delta in [-D, +D] the padding is chosen so
// that a field of that kind starts exactly at B+delta. Oracle: deserialize(serialize(x)) ≡ x.

type alignedCase struct {
	Shape    string `json:"shape"`     // small: hundreds of small entries; big: few entries with maximal strings / wide rune sets
	Seed     int64  `json:"seed"`      // content of the index
	MinBytes int    `json:"min_bytes"` // the serialised (uncompressed) index is at least this long
	FirstLen int    `json:"first_path_len"`
	Boundary int    `json:"boundary"` // target: a field of kind Kind starts at Boundary+Delta of the uncompressed stream
	Kind     string `json:"kind"`
	Delta    int    `json:"delta"`
}

func patString(rnd *ev.Rand, n int) string {
	b := make([]byte, n)
	x := rnd.Uint64()
	for i := range b {
		if i%8 == 0 {
			x = x*6364136223846793005 + 1442695040888963407
		}
		b[i] = "abcdefghijklmnopqrstuvwxyz0123456789-_/."[(x>>(8*uint(i%8)))%40]
	}
	return string(b)
}

func synthFootprint(rnd *ev.Rand, fileLen, familyLen, pages, scripts int) fontscan.Footprint {
	var fp fontscan.Footprint
	fp.Location.File = patString(rnd, fileLen)
	fp.Location.Index = uint16(rnd.Intn(4))
	fp.Location.Instance = uint16(rnd.Intn(3))
	fp.Family = patString(rnd, familyLen)
	start := rnd.Intn(0x1000)
	for p := 0; p < pages; p++ {
		pg := (start + p*3) % 0x1100
		fp.Runes.Add(rune(pg<<8 | rnd.Intn(256)))
		fp.Runes.Add(rune(pg<<8 | rnd.Intn(256)))
	}
	s0 := uint32(rnd.Intn(1 << 20))
	for i := 0; i < scripts; i++ {
		fp.Scripts = append(fp.Scripts, language.Script(s0+uint32(i)*977))
	}
	for i := range fp.Langs {
		fp.Langs[i] = rnd.Uint64()
	}
	fp.Aspect = font.Aspect{Style: font.Style(rnd.Intn(3)), Weight: font.Weight(100 * (1 + rnd.Intn(9))), Stretch: font.Stretch(0.5 + float32(rnd.Intn(16))/8)}
	return fp
}

func footprintBytes(fp fontscan.Footprint) int {
	return 2 + len(fp.Location.File) + 4 + 2 + len(fp.Family) + 2 + 34*len(fp.Runes) + 1 + 4*len(fp.Scripts) + 64 + 9
}

// alignedIndex builds the index of a case without its first entry's path (entry 0 is rebuilt per
// case by withFirstPath).
func alignedIndex(shape string, seed int64, minBytes int) fontscan.VerifIndex {
	rnd := ev.NewRand(uint64(seed)*0x51ED + 0xC16)
	var idx fontscan.VerifIndex
	idx = append(idx, fontscan.VerifNewFileFootprints("", 1_000_000_000_000_000_001, []fontscan.Footprint{synthFootprint(rnd, 20, 8, 1, 1)}))
	total := 6 + 4 + 2 + 8 + footprintBytes(synthFootprint(ev.NewRand(1), 20, 8, 1, 1))
	for n := int(uint64(seed) % 5); total < minBytes; n++ {
		var (
			pathLen int
			fps     []fontscan.Footprint
		)
		if shape == "big" {
			pathLen = []int{300, 65535, 12, 40000, 65534}[n%5]
			k := 1 + n%2
			for j := 0; j < k; j++ {
				fps = append(fps, synthFootprint(rnd, []int{17, 65535, 32768, 65534}[(n+j)%4], []int{65535, 9, 4096, 32767}[(n+j)%4], []int{40, 2, 700}[(n+j)%3], []int{255, 0, 7}[(n+j)%3]))
			}
		} else {
			pathLen = 5 + rnd.Intn(56)
			k := rnd.Intn(4)
			for j := 0; j < k; j++ {
				fps = append(fps, synthFootprint(rnd, pathLen, 3+rnd.Intn(20), rnd.Intn(4), rnd.Intn(6)))
			}
		}
		idx = append(idx, fontscan.VerifNewFileFootprints(patString(rnd, pathLen), int64(1_000_000_000_000_000_000+rnd.Intn(1<<30)), fps))
		total += 4 + 2 + pathLen + 8
		for _, fp := range fps {
			total += footprintBytes(fp)
		}
	}
	return idx
}

func withFirstPath(idx fontscan.VerifIndex, n int) fontscan.VerifIndex {
	out := append(fontscan.VerifIndex(nil), idx...)
	_, m, fps := fontscan.VerifFileFootprintsParts(idx[0])
	b := bytes.Repeat([]byte("first/"), n/6+1)[:n]
	out[0] = fontscan.VerifNewFileFootprints(string(b), m, fps)
	return out
}

// fieldStarts walks a VALID plaintext and returns the start offsets of every field, by kind.
func fieldStarts(p []byte) map[string][]int {
	out := map[string][]int{}
	defer func() { recover() }()
	add := func(kind string, off int) { out[kind] = append(out[kind], off) }
	n := int(binary.BigEndian.Uint32(p[2:]))
	off := 6
	str := func(kind string) {
		add(kind, off)
		off += 2 + int(binary.BigEndian.Uint16(p[off:]))
	}
	for i := 0; i < n; i++ {
		add("entry_size", off)
		end := off + 4 + int(binary.BigEndian.Uint32(p[off:]))
		off += 4
		str("path_len")
		add("mod_time", off)
		off += 8
		for off < end {
			str("file_len")
			add("location", off)
			off += 4
			str("family_len")
			add("rune_pages", off)
			off += 2 + 34*int(binary.BigEndian.Uint16(p[off:]))
			add("scripts", off)
			off += 1 + 4*int(p[off])
			add("langs", off)
			off += 64
			add("aspect", off)
			off += 9
		}
	}
	add("end", off)
	return out
}

var alignedKinds = []string{"entry_size", "path_len", "mod_time", "file_len", "location", "family_len", "rune_pages", "scripts", "langs", "aspect", "end"}

func checkAligned(t ev.TB, c alignedCase, base fontscan.VerifIndex, verify bool) {
	fail := func(format string, args ...interface{}) { ev.Fail(t, "roundtrip-aligned", c, format, args...) }
	if base == nil {
		base = alignedIndex(c.Shape, c.Seed, c.MinBytes)
	}
	if c.FirstLen < 0 || c.FirstLen > 65535 {
		t.Fatalf("bad first path length %d", c.FirstLen)
	}
	idx := withFirstPath(base, c.FirstLen)
	var (
		buf bytes.Buffer
		got fontscan.VerifIndex
		err error
	)
	if p, st := call(func() { err = fontscan.VerifSerializeIndex(idx, &buf) }); p != nil {
		fail("serializeTo panicked: %v\n%s", p, st)
	}
	if err != nil {
		fail("serializeTo: %v", err)
	}
	if verify {
		// the harness' own arithmetic: the targeted field really starts at Boundary+Delta
		plain, gerr := gunzip(buf.Bytes())
		if gerr != nil {
			fail("the output of serializeTo is not a gzip stream: %v", gerr)
		}
		ok := false
		for _, o := range fieldStarts(plain)[c.Kind] {
			if o == c.Boundary+c.Delta {
				ok = true
			}
		}
		if !ok {
			t.Fatalf("harness: no %s field at %d+%d (first path %d, %d bytes)", c.Kind, c.Boundary, c.Delta, c.FirstLen, len(plain))
		}
	}
	if p, st := call(func() { got, err = fontscan.VerifDeserializeIndex(bytes.NewReader(buf.Bytes())) }); p != nil {
		fail("deserializeIndex panicked on the output of serializeTo: %v\n%s", p, st)
	}
	if err != nil {
		fail("deserializeIndex rejects the output of serializeTo (a %s field starts at %d%+d of the uncompressed stream): %v", c.Kind, c.Boundary, c.Delta, err)
	}
	if d := diffIndex(idx, got); d != "" {
		fail("deserialize(serialize(x)) != x (a %s field starts at %d%+d of the uncompressed stream): %s", c.Kind, c.Boundary, c.Delta, d)
	}
}

type alignedPlan struct {
	shape      string
	minBytes   int
	boundaries []int
	kinds      []string
	delta      int
}

var (
	alignedBases = map[string]fontscan.VerifIndex{}
)

func alignedBase(shape string, seed int64, minBytes int) fontscan.VerifIndex {
	k := fmt.Sprintf("%s/%d/%d", shape, seed, minBytes)
	if b, ok := alignedBases[k]; ok {
		return b
	}
	b := alignedIndex(shape, seed, minBytes)
	alignedBases[k] = b
	return b
}

// alignedCases computes the first-path lengths that put a field of every kind at every offset in
// [B-delta, B+delta] of every boundary B. When the padding (a path of 0…65 535 bytes) cannot bring
// any field of a kind to a boundary in the index of content `seed` (entries of the big shape are
// larger than 64 KiB), the contents seed+1 … seed+5 (the big shape starts its cycle of sizes
// elsewhere) are tried.
func alignedCases(t *testing.T, pl alignedPlan, seed int64) []alignedCase {
	const p0 = 2000
	type target struct {
		kind string
		b    int
	}
	var out []alignedCase
	covered := map[target]bool{}
	var wanted []target
	tries := 1
	if pl.shape == "big" {
		tries = 6
	}
	for try := 0; try < tries; try++ {
		sd := seed + int64(try)
		base := alignedBase(pl.shape, sd, pl.minBytes)
		var buf bytes.Buffer
		if err := fontscan.VerifSerializeIndex(withFirstPath(base, p0), &buf); err != nil {
			t.Fatalf("serialising: %v", err)
		}
		plain, err := gunzip(buf.Bytes())
		if err != nil {
			t.Fatalf("gunzip: %v", err)
		}
		starts := fieldStarts(plain)
		firstEnd := 6 + 4 + 2 + p0 // fields up to here do not move with the padding
		next := func(o, m int) int { return (o/m + 1) * m }
		var targets []target
		if try == 0 {
			for _, kind := range pl.kinds {
				bs := pl.boundaries
				if kind == "end" {
					// the end of the stream is a single offset: the boundaries are those just above it
					o := starts["end"][0]
					bs = []int{next(o, 4096), next(o, 32768), next(o+4096, 4096)}
					if next(o, 65536)-o < 60000 {
						bs = append(bs, next(o, 65536))
					}
				}
				for _, b := range bs {
					targets = append(targets, target{kind, b})
				}
			}
			wanted = targets
		} else {
			for _, tg := range wanted {
				if !covered[tg] && tg.kind != "end" {
					targets = append(targets, tg)
				}
			}
		}
		for _, tg := range targets {
			// the field of that kind closest to the boundary that the padding can bring to B±delta
			best, bestDist := -1, 1<<62
			for _, o := range starts[tg.kind] {
				if o < firstEnd {
					continue
				}
				lo, hi := p0+(tg.b-pl.delta-o), p0+(tg.b+pl.delta-o)
				if lo < 0 || hi > 65535 {
					continue
				}
				d := o - tg.b
				if d < 0 {
					d = -d
				}
				if d < bestDist {
					best, bestDist = o, d
				}
			}
			if best < 0 {
				continue
			}
			covered[tg] = true
			for d := -pl.delta; d <= pl.delta; d++ {
				out = append(out, alignedCase{Shape: pl.shape, Seed: sd, MinBytes: pl.minBytes, FirstLen: p0 + (tg.b + d - best), Boundary: tg.b, Kind: tg.kind, Delta: d})
			}
		}
	}
	for _, tg := range wanted {
		if !covered[tg] {
			ev.Note("aligned round trip: no %s field of the %s shape can be brought to %d", tg.kind, pl.shape, tg.b)
		}
	}
	return out
}

func mult(step, from, to int) []int {
	var out []int
	for k := from; k <= to; k++ {
		out = append(out, step*k)
	}
	return out
}

// TestPropRoundTripAligned: big synthetic indexes, field alignment swept across chunk boundaries.
func TestPropRoundTripAligned(t *testing.T) {
	var plans []alignedPlan
	strKinds := []string{"entry_size", "path_len", "file_len", "family_len", "rune_pages", "end"}
	if ev.Thorough() {
		b := append(append(mult(32768, 1, 6), mult(4096, 1, 7)...), 4096*9, 4096*15, 4096*17, 4096*31, 4096*33)
		sort.Ints(b)
		plans = []alignedPlan{
			{"small", 7*32768 + 2000, b, alignedKinds, 40},
			{"big", 9 * 65536, append(mult(65536, 1, 8), 32768*3, 32768*5, 4096*17), alignedKinds, 12},
		}
	} else {
		plans = []alignedPlan{
			{"small", 3*32768 + 2000, []int{4096, 8192, 32768, 65536, 98304}, alignedKinds, 8},
			{"big", 6 * 65536, []int{65536, 131072, 196608}, strKinds, 8},
		}
	}
	shard, nshards := ev.Shard()
	var total int64
	n := 0
	for pi, pl := range plans {
		seeds := []int64{ev.Seed()}
		if ev.Thorough() && pl.shape == "small" {
			seeds = append(seeds, ev.Seed()+1000)
		}
		for _, seed := range seeds {
			cases := alignedCases(t, pl, seed+100*int64(pi))
			ev.Note("aligned round trip: shape %s, %d entries, at least %d uncompressed bytes, %d boundaries x %d kinds x %d offsets = %d cases",
				pl.shape, len(alignedBase(pl.shape, seed+100*int64(pi), pl.minBytes)), pl.minBytes, len(pl.boundaries), len(pl.kinds), 2*pl.delta+1, len(cases))
			for _, c := range cases {
				n++
				if (n-1)%nshards != shard {
					continue
				}
				checkAligned(t, c, alignedBase(c.Shape, c.Seed, c.MinBytes), true)
				total++
				ev.Label("aligned_" + c.Shape + "_" + c.Kind)
				if ev.WantSample() {
					ev.Sample(map[string]interface{}{"check": "roundtrip-aligned", "case": c})
				}
			}
		}
	}
	ev.CaseEnum(total, total)
}
