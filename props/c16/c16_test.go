// Package c16 decides property C16: the system font index survives persistence, corruption and
// incremental refresh.
//
//	roundtrip_test.go  deserialize(serialize(x)) ≡ x for synthetic and scanned indexes (rapid)
//	faults_test.go     every prefix / every single-byte corruption of small serialised indexes, on the
//	                   gzip bytes and on the re-compressed plaintext (enum), plus rapid multi-byte garbling
//	history_test.go    refresh histories on a temp tree (rapid state machine), refreshSystemFontsIndex
//	                   with missing / truncated / corrupted cache files (enum)
//
// This file: the temp-tree "world" whose clock is owned by the harness, comparison helpers, the
// fixed corpus sample, TestReplay.
package c16

import (
	"bytes"
	"encoding/json"
	"fmt"
	"io/fs"
	"math"
	"os"
	"path/filepath"
	"reflect"
	"runtime/debug"
	"sort"
	"strings"
	"sync"
	"testing"
	"time"

	ot "github.com/go-text/typesetting/font/opentype"
	"github.com/go-text/typesetting/fontscan"

	"verif/internal/corpus"
	"verif/internal/ev"
)

func TestMain(m *testing.M) { ev.Main(m) }

// ---------------------------------------------------------------------------------------------
// calling the code under test

type nopLogger struct{}

func (nopLogger) Printf(string, ...interface{}) {}

// call runs f and reports a panic of the code under test (nil when none).
func call(f func()) (pan interface{}, stack string) {
	defer func() {
		if r := recover(); r != nil {
			pan = r
			stack = string(debug.Stack())
			if len(stack) > 3000 {
				stack = stack[:3000]
			}
		}
	}()
	f()
	return nil, ""
}

type scanResult struct {
	index fontscan.VerifIndex
	err   error
	pan   interface{}
	stack string
}

func scan(prev fontscan.VerifIndex, roots []string) (r scanResult) {
	r.pan, r.stack = call(func() { r.index, r.err = fontscan.VerifScan(nopLogger{}, prev, roots...) })
	return r
}

// ---------------------------------------------------------------------------------------------
// equality (nil ≡ empty lists; floats by bit pattern so that a garbled NaN is equal to itself;
// isUserProvided is documented as not serialised and is not compared)

func diffFootprint(a, b fontscan.Footprint) string {
	switch {
	case a.Location.File != b.Location.File:
		return fmt.Sprintf("Location.File %s != %s", short(a.Location.File), short(b.Location.File))
	case a.Location.Index != b.Location.Index || a.Location.Instance != b.Location.Instance:
		return fmt.Sprintf("Location index/instance %d/%d != %d/%d", a.Location.Index, a.Location.Instance, b.Location.Index, b.Location.Instance)
	case a.Family != b.Family:
		return fmt.Sprintf("Family %s != %s", short(a.Family), short(b.Family))
	case len(a.Runes) != len(b.Runes):
		return fmt.Sprintf("Runes: %d pages != %d pages", len(a.Runes), len(b.Runes))
	case len(a.Runes) > 0 && !reflect.DeepEqual(a.Runes, b.Runes):
		return "Runes differ"
	case len(a.Scripts) != len(b.Scripts):
		return fmt.Sprintf("Scripts: %d != %d entries", len(a.Scripts), len(b.Scripts))
	case a.Langs != b.Langs:
		return fmt.Sprintf("Langs %x != %x", [8]uint64(a.Langs), [8]uint64(b.Langs))
	case a.Aspect.Style != b.Aspect.Style:
		return fmt.Sprintf("Aspect.Style %d != %d", a.Aspect.Style, b.Aspect.Style)
	case math.Float32bits(float32(a.Aspect.Weight)) != math.Float32bits(float32(b.Aspect.Weight)):
		return fmt.Sprintf("Aspect.Weight %v != %v", a.Aspect.Weight, b.Aspect.Weight)
	case math.Float32bits(float32(a.Aspect.Stretch)) != math.Float32bits(float32(b.Aspect.Stretch)):
		return fmt.Sprintf("Aspect.Stretch %v != %v", a.Aspect.Stretch, b.Aspect.Stretch)
	}
	for i := range a.Scripts {
		if a.Scripts[i] != b.Scripts[i] {
			return fmt.Sprintf("Scripts[%d] %d != %d", i, a.Scripts[i], b.Scripts[i])
		}
	}
	return ""
}

func short(s string) string {
	if len(s) > 48 {
		return fmt.Sprintf("%q…(%d bytes)", s[:48], len(s))
	}
	return fmt.Sprintf("%q", s)
}

func diffEntry(a, b fontscan.VerifFileFootprints) string {
	ap, am, af := fontscan.VerifFileFootprintsParts(a)
	bp, bm, bf := fontscan.VerifFileFootprintsParts(b)
	switch {
	case ap != bp:
		return fmt.Sprintf("path %s != %s", short(ap), short(bp))
	case am != bm:
		return fmt.Sprintf("%s: modTime %d != %d", short(ap), am, bm)
	case len(af) != len(bf):
		return fmt.Sprintf("%s: %d footprints != %d footprints", short(ap), len(af), len(bf))
	}
	for i := range af {
		if d := diffFootprint(af[i], bf[i]); d != "" {
			return fmt.Sprintf("%s: footprint %d: %s", short(ap), i, d)
		}
	}
	return ""
}

func diffIndex(a, b fontscan.VerifIndex) string {
	if len(a) != len(b) {
		return fmt.Sprintf("%d entries != %d entries (%v vs %v)", len(a), len(b), paths(a), paths(b))
	}
	for i := range a {
		if d := diffEntry(a[i], b[i]); d != "" {
			return fmt.Sprintf("entry %d: %s", i, d)
		}
	}
	return ""
}

func paths(x fontscan.VerifIndex) []string {
	out := make([]string, 0, len(x))
	for _, e := range x {
		p, _, _ := fontscan.VerifFileFootprintsParts(e)
		out = append(out, short(p))
		if len(out) == 40 {
			break
		}
	}
	return out
}

type pathTime struct {
	path string
	mod  int64
}

func keysOf(x fontscan.VerifIndex) map[pathTime]bool {
	out := make(map[pathTime]bool, len(x))
	for _, e := range x {
		p, m, _ := fontscan.VerifFileFootprintsParts(e)
		out[pathTime{p, m}] = true
	}
	return out
}

// ---------------------------------------------------------------------------------------------
// the corpus sample: small font files only (scanning cost is what dominates the check)

var (
	smallOnce sync.Once
	small     []string
	wide      []string
)

const (
	smallLimit = 6 << 10
	smallPages = 16
)

// smallFonts returns the sorted corpus-relative paths of the font files of at most 6 KiB whose
// footprints have at most 16 rune pages in total (so that a serialised index stays small), and
// that the footprint scanner handles without panicking (panics of the font loader on corpus
// files are C09's business).
func smallFonts() []string {
	smallOnce.Do(loadSmall)
	return small
}

// wideFonts: small files with a large rune coverage (thousands of pages).
func wideFonts() []string {
	smallOnce.Do(loadSmall)
	return wide
}

func loadSmall() {
	for _, rel := range corpus.Files() {
		switch strings.ToLower(filepath.Ext(rel)) {
		case ".ttf", ".otf", ".ttc", ".dfont":
		default:
			continue
		}
		st, err := os.Stat(corpus.Abs(rel))
		if err != nil || st.Size() == 0 || st.Size() > smallLimit {
			continue
		}
		pages := 0
		if p, _ := call(func() {
			b, err := corpus.Bytes(rel)
			if err != nil {
				panic(err)
			}
			lds, err := ot.NewLoaders(bytes.NewReader(b))
			if err != nil {
				return
			}
			for _, ld := range lds {
				if fp, err := fontscan.VerifFootprintFromLoader(ld, false); err == nil {
					pages += len(fp.Runes)
				}
			}
		}); p != nil {
			continue
		}
		if pages <= smallPages {
			small = append(small, rel)
		} else {
			wide = append(wide, rel)
		}
	}
	sort.Strings(small)
	sort.Strings(wide)
}

const ttcFont = "harfbuzz/harfbuzz_reference/in-house/fonts/TTC.ttc"

// ---------------------------------------------------------------------------------------------
// the world: a temp directory that is the working directory of the process while it exists, so
// that every path handed to the scanner is relative and the serialised bytes of an index are
// identical in every process. Every mutation stamps mtimes from a logical counter.

// op is one decoded mutation of the tree (JSON form used in fail files and replays).
type op struct {
	Op   string `json:"op"`             // mkdir add junk remove touch rename symlink
	Path string `json:"path"`           // relative to the world
	To   string `json:"to,omitempty"`   // rename: destination; symlink: target (relative to the world)
	Font string `json:"font,omitempty"` // add: corpus-relative font file whose bytes are written
	Junk string `json:"junk,omitempty"` // junk: kind of non-font content
	// Tick, when not 0, is the logical time stamped on the file written by add/junk instead of a fresh
	// one: only used to reinstall a file at a path whose removal a refresh has already seen, with the
	// mtime the removed file had (restoring a backup, re-installing the same package).
	Tick int64 `json:"tick,omitempty"`
}

type world struct {
	dir  string
	old  string
	tick int64
	// fileTick is the logical time of the last file written by add/junk
	fileTick int64
}

func newWorld() (*world, error) {
	old, err := os.Getwd()
	if err != nil {
		return nil, err
	}
	dir, err := os.MkdirTemp("", "c16-")
	if err != nil {
		return nil, err
	}
	if err := os.Chdir(dir); err != nil {
		os.RemoveAll(dir)
		return nil, err
	}
	return &world{dir: dir, old: old}, nil
}

func (w *world) close() {
	os.Chdir(w.old)
	os.RemoveAll(w.dir)
}

func tickTime(k int64) time.Time { return time.Unix(1_000_000_000+k, (k*7919)%1_000_000_000) }

func (w *world) stamp(path string) {
	w.tick++
	t := tickTime(w.tick)
	os.Chtimes(path, t, t)
}

func (w *world) stampParent(path string) {
	d := filepath.Dir(path)
	if st, err := os.Lstat(d); err == nil && st.IsDir() {
		w.stamp(d)
	}
}

func okPath(p string) bool {
	if p == "" || filepath.IsAbs(p) {
		return false
	}
	c := filepath.Clean(p)
	return c == p && c != "." && c != ".." && !strings.HasPrefix(c, "../")
}

var junkContent = map[string][]byte{
	"empty": {},
	"text":  []byte("this is not a font\n"),
	"noise": {0x13, 0x37, 0xC0, 0xDE, 0x00, 0x00, 0xFF, 0xFE, 0x80, 0x7F, 0x01, 0x02, 0x03, 0x04, 0x05, 0x06, 0x07, 0x08, 0x09},
	"xml":   []byte("<?xml version=\"1.0\"?><fontconfig><dir>/nowhere</dir></fontconfig>"),
}

// apply performs one mutation. Operating-system errors (renaming a directory into itself, …) leave
// the tree as the OS left it: the oracle only ever compares two scans of the actual tree.
func (w *world) apply(o op) error {
	if !okPath(o.Path) {
		return fmt.Errorf("bad path %q", o.Path)
	}
	switch o.Op {
	case "mkdir":
		os.MkdirAll(o.Path, 0o755)
		w.stamp(o.Path)
		w.stampParent(o.Path)
	case "add", "junk":
		var data []byte
		if o.Op == "add" {
			b, err := corpus.Bytes(o.Font)
			if err != nil {
				return err
			}
			data = b
		} else {
			b, ok := junkContent[o.Junk]
			if !ok {
				return fmt.Errorf("bad junk kind %q", o.Junk)
			}
			data = b
		}
		os.MkdirAll(filepath.Dir(o.Path), 0o755)
		if os.WriteFile(o.Path, data, 0o644) == nil {
			if o.Tick != 0 {
				tm := tickTime(o.Tick)
				os.Chtimes(o.Path, tm, tm)
				w.fileTick = o.Tick
			} else {
				w.stamp(o.Path) // a write always gets a fresh, unique mtime
				w.fileTick = w.tick
			}
		}
		w.stampParent(o.Path)
	case "remove":
		os.RemoveAll(o.Path)
		w.stampParent(o.Path)
	case "touch":
		w.stamp(o.Path)
	case "rename":
		if !okPath(o.To) {
			return fmt.Errorf("bad path %q", o.To)
		}
		os.Rename(o.Path, o.To) // keeps the mtime of the file, as rename(2) does
		w.stampParent(o.Path)
		w.stampParent(o.To)
	case "symlink":
		// o.To is relative to the world (may name something that does not exist, or "." / "..")
		if filepath.IsAbs(o.To) || strings.HasPrefix(filepath.Clean(o.To), "../") {
			return fmt.Errorf("bad link target %q", o.To)
		}
		// The link target is ABSOLUTE (world directory + o.To): a relative link that is later renamed
		// to another depth (directly or with its directory) would resolve somewhere else, possibly
		// outside the world — e.g. the temp directory containing it, whose mtime follows the real
		// clock and other processes — and the harness owns the clock only inside the world. (A
		// thorough run raised exactly that once: entry "r1/b.otf", a renamed link, had two
		// different real-clock mtimes in the two scans; it did not reproduce.)
		cwd, err := os.Getwd()
		if err != nil {
			return err
		}
		target := filepath.Join(cwd, o.To)
		os.MkdirAll(filepath.Dir(o.Path), 0o755)
		os.Symlink(target, o.Path)
		w.stampParent(o.Path)
	default:
		return fmt.Errorf("bad op %q", o.Op)
	}
	return nil
}

type node struct {
	path string
	kind byte // 'd' directory, 'f' regular file, 'l' symlink
}

// list returns the nodes of the tree in lexical walk order (symlinks are not followed).
func (w *world) list() []node {
	var out []node
	filepath.WalkDir(".", func(p string, d fs.DirEntry, err error) error {
		if err != nil || p == "." {
			return nil
		}
		switch {
		case d.IsDir():
			out = append(out, node{p, 'd'})
		case d.Type()&fs.ModeSymlink != 0:
			out = append(out, node{p, 'l'})
		default:
			out = append(out, node{p, 'f'})
		}
		return nil
	})
	return out
}

// ---------------------------------------------------------------------------------------------
// replay

func TestReplay(t *testing.T) {
	var files []string
	if p := ev.ReplayPath(); p != "" {
		files = []string{p}
	} else if d := os.Getenv("VERIF_REPLAY_DIR"); d != "" {
		files, _ = filepath.Glob(filepath.Join(d, "*.json"))
		sort.Strings(files)
	}
	for _, f := range files {
		check, raw, err := ev.LoadReplay(f)
		if err != nil {
			t.Fatalf("replay %s: %v", f, err)
		}
		dec := func(v interface{}) {
			if err := json.Unmarshal(raw, v); err != nil {
				t.Fatalf("replay %s: %v", f, err)
			}
		}
		switch check {
		case "roundtrip":
			var c indexSpec
			dec(&c)
			checkRoundTrip(t, c)
		case "roundtrip-aligned":
			var c alignedCase
			dec(&c)
			checkAligned(t, c, nil, true)
		case "roundtrip-scan":
			var c scanRTCase
			dec(&c)
			checkScanRoundTrip(t, c)
		case "fault":
			var c faultCase
			dec(&c)
			replayFault(t, c)
		case "history":
			var c histCase
			dec(&c)
			replayHistory(t, c)
		case "refresh":
			var c refreshCase
			dec(&c)
			runRefreshCase(t, c)
		case "refresh-history":
			var c refreshHistCase
			dec(&c)
			runRefreshHistory(t, c)
		default:
			t.Fatalf("replay %s: unknown check %q", f, check)
		}
	}
}
