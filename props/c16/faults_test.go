package c16

import (
	"bytes"
	"compress/gzip"
	"encoding/binary"
	"encoding/hex"
	"fmt"
	"io"
	"runtime"
	"testing"

	"github.com/go-text/typesetting/fontscan"
	"github.com/go-text/typesetting/language"
	"pgregory.net/rapid"

	"verif/internal/ev"
)

// ---------------------------------------------------------------------------------------------
// the small indexes whose serialised form is faulted

type treeSpec struct {
	Name  string   `json:"name"`
	Ops   []op     `json:"ops"`
	Roots []string `json:"roots"`
}

type faultTree struct {
	spec    treeSpec
	base    fontscan.VerifIndex // from-scratch scan of the tree
	gz      []byte              // serializeTo(base)
	plain   []byte              // gunzip(gz)
	flds    []field             // length / count fields of plain
	entries []entryLayout       // where the entries of plain are
}

// faultTrees describes the (three) small trees. The first is fixed, the others are sampled from
// the small corpus fonts with VERIF_SEED.
func faultTrees() []treeSpec {
	fonts := smallFonts()
	rnd := ev.NewRand(uint64(ev.Seed())*0x9E37 + 16)
	pick := func() string { return fonts[rnd.Intn(len(fonts))] }
	t0 := treeSpec{Name: "t0", Roots: []string{"t0/r"}, Ops: []op{
		{Op: "add", Path: "t0/r/a.ttc", Font: ttcFont},
		{Op: "add", Path: "t0/r/d/b.ttf", Font: fonts[0]},
		{Op: "add", Path: "t0/r/d/c.otf", Font: fonts[len(fonts)/2]},
		{Op: "add", Path: "t0/r/d/d.ttf", Font: fonts[len(fonts)/3]},
		{Op: "add", Path: "t0/r/e.ttf", Font: fonts[len(fonts)-1]},
		{Op: "junk", Path: "t0/r/n.txt", Junk: "text"},
	}}
	t1 := treeSpec{Name: "t1", Roots: []string{"t1/r"}}
	for i, p := range []string{"t1/r/0.ttf", "t1/r/1.otf", "t1/r/d/2.ttf", "t1/r/d/3.ttf", "t1/r/d/e/4.ttf", "t1/r/f/5.ttf", "t1/r/6.ttf", "t1/r/7.otf"} {
		_ = i
		t1.Ops = append(t1.Ops, op{Op: "add", Path: p, Font: pick()})
	}
	t2 := treeSpec{Name: "t2", Roots: []string{"t2/r", "t2/r/d"}, Ops: []op{
		{Op: "add", Path: "t2/r/d/0.ttf", Font: pick()},
		{Op: "add", Path: "t2/r/d/1.ttf", Font: pick()},
		{Op: "junk", Path: "t2/r/e", Junk: "empty"},
		{Op: "add", Path: "t2/r/x.ttf", Font: pick()},
		{Op: "add", Path: "t2/r/y.ttf", Font: pick()},
		{Op: "add", Path: "t2/r/z.otf", Font: pick()},
		{Op: "symlink", Path: "t2/r/l.ttf", To: "t2/r/z.otf"},
		{Op: "symlink", Path: "t2/r/ld", To: "t2/r/d"},
	}}
	out := []treeSpec{t0, t1, t2}
	// thorough tier: more sampled trees
	for k := 3; k < ev.Scale(3, 12); k++ {
		name := fmt.Sprintf("t%d", k)
		tr := treeSpec{Name: name, Roots: []string{name + "/r"}}
		for i := 0; i < 3+k%5; i++ {
			tr.Ops = append(tr.Ops, op{Op: "add", Path: fmt.Sprintf("%s/r/%d/%d.ttf", name, i%2, i), Font: pick()})
		}
		out = append(out, tr)
	}
	return out
}

func gunzip(b []byte) ([]byte, error) {
	r, err := gzip.NewReader(bytes.NewReader(b))
	if err != nil {
		return nil, err
	}
	return io.ReadAll(r)
}

func gzipOf(b []byte) []byte {
	var buf bytes.Buffer
	w := gzip.NewWriter(&buf)
	w.Write(b)
	w.Close()
	return buf.Bytes()
}

// buildFaultTree builds the tree in the world (logical clock restarted so that a tree has the
// same mtimes whether it is built alone, in a replay, or after others) and serialises its index.
func buildFaultTree(t ev.TB, w *world, spec treeSpec) *faultTree {
	w.tick = 0
	for _, o := range spec.Ops {
		if err := w.apply(o); err != nil {
			t.Fatalf("building tree %s: %v", spec.Name, err)
		}
	}
	r := scan(nil, spec.Roots)
	if r.pan != nil || r.err != nil {
		t.Fatalf("scanning tree %s: panic %v, err %v\n%s", spec.Name, r.pan, r.err, r.stack)
	}
	var buf bytes.Buffer
	if err := fontscan.VerifSerializeIndex(r.index, &buf); err != nil {
		t.Fatalf("serialising tree %s: %v", spec.Name, err)
	}
	plain, err := gunzip(buf.Bytes())
	if err != nil {
		t.Fatalf("gunzip of serialised tree %s: %v", spec.Name, err)
	}
	ft := &faultTree{spec: spec, base: r.index, gz: buf.Bytes(), plain: plain}
	ft.flds, ft.entries = layout(plain)
	if len(ft.entries) != len(r.index) || (len(ft.entries) > 0 && ft.entries[len(ft.entries)-1].End != len(plain)) {
		t.Fatalf("tree %s: the format walker of the harness disagrees with the serialiser (%d entries of %d, %d bytes)", spec.Name, len(ft.entries), len(r.index), len(plain))
	}
	return ft
}

// field is a length or count field of the plaintext format.
type field struct {
	Off, Width int
	Name       string
}

// entryLayout locates one file entry of the plaintext: [Start, End) is the whole segment including
// its 4-byte size field; Cuts are the offsets strictly inside the entry after which the rest of
// the entry is a whole number of footprints (after path+modTime, and after every footprint but the
// last): cutting or splicing there leaves bytes that still decode as an entry with fewer faces.
type entryLayout struct {
	Start, PathLen, Path, ModTime, End int
	FpStart                            []int // start offset of every footprint
	Cuts                               []int
}

// layout walks a VALID plaintext (format of serialize.go, version 6) and returns where its length
// and count fields and its entries are. It returns what it found so far when the bytes stop
// making sense.
func layout(p []byte) (out []field, entries []entryLayout) {
	defer func() { recover() }()
	out = append(out, field{0, 2, "version"}, field{2, 4, "entries"})
	n := int(binary.BigEndian.Uint32(p[2:]))
	off := 6
	str := func(name string) {
		out = append(out, field{off, 2, name})
		off += 2 + int(binary.BigEndian.Uint16(p[off:]))
	}
	for i := 0; i < n; i++ {
		e := entryLayout{Start: off}
		out = append(out, field{off, 4, "entry_size"})
		end := off + 4 + int(binary.BigEndian.Uint32(p[off:]))
		off += 4
		e.PathLen, e.Path = off, off+2
		str("path_len")
		e.ModTime = off
		off += 8
		for off < end {
			e.FpStart = append(e.FpStart, off)
			str("file_len")
			off += 4
			str("family_len")
			out = append(out, field{off, 2, "rune_pages"})
			off += 2 + 34*int(binary.BigEndian.Uint16(p[off:]))
			out = append(out, field{off, 1, "scripts"})
			off += 1 + 4*int(p[off])
			off += 64 + 9
		}
		e.End = end
		for _, f := range e.FpStart {
			if f < end {
				e.Cuts = append(e.Cuts, f)
			}
		}
		entries = append(entries, e)
	}
	return out, entries
}

func lengthFields(p []byte) []field { f, _ := layout(p); return f }

// insideEntry tells whether logical offset pos of the plaintext lies strictly inside an entry
// (a stream cut there leaves a partial entry behind).
func insideEntry(entries []entryLayout, pos int) bool {
	for _, e := range entries {
		if pos > e.Start && pos < e.End {
			return true
		}
	}
	return false
}

// gunzipPartial returns how many bytes of the logical stream can be recovered from data, and
// whether data is a complete valid gzip stream when read to its end.
func gunzipPartial(data []byte) (n int, complete bool) {
	r, err := gzip.NewReader(bytes.NewReader(data))
	if err != nil {
		return 0, false
	}
	m, err := io.Copy(io.Discard, r)
	return int(m), err == nil
}

// ---------------------------------------------------------------------------------------------
// a fault case

type edit struct {
	Kind  string `json:"kind"` // set ins del trunc dup
	Pos   int    `json:"pos"`
	N     int    `json:"n,omitempty"`
	Bytes string `json:"bytes_hex,omitempty"`
}

type faultCase struct {
	Tree      treeSpec `json:"tree"`
	Layer     string   `json:"layer"`           // gzip: the fault is on the file bytes; plain: on the decompressed payload, re-compressed
	Kind      string   `json:"kind"`            // prefix xor field multi struct
	Edit      string   `json:"edit,omitempty"`  // struct: name of the structure-aware edit
	Entry     int      `json:"entry,omitempty"` // struct: entry the edit applies to
	A         int      `json:"a,omitempty"`     // struct: first footprint / count
	B         int      `json:"b,omitempty"`     // struct: end footprint (exclusive)
	Pos       int      `json:"pos"`             // prefix: length kept; xor: byte offset; field: offset of the field
	Mask      int      `json:"mask,omitempty"`
	Field     string   `json:"field,omitempty"`
	Value     uint64   `json:"value,omitempty"`
	Edits     []edit   `json:"edits,omitempty"`
	InPayload bool     `json:"in_payload"`
	DataHex   string   `json:"data_hex,omitempty"` // the bytes handed to deserializeIndex (authoritative in a replay)
}

const (
	gzHeader  = 10
	gzTrailer = 8
)

func applyEdits(b []byte, edits []edit) []byte {
	b = append([]byte(nil), b...)
	clamp := func(p int) int {
		if p < 0 {
			return 0
		}
		if p > len(b) {
			return len(b)
		}
		return p
	}
	for _, e := range edits {
		p := clamp(e.Pos)
		v, _ := hex.DecodeString(e.Bytes)
		switch e.Kind {
		case "set":
			copy(b[p:], v)
		case "ins":
			b = append(b[:p:p], append(v, b[p:]...)...)
		case "del":
			q := clamp(p + e.N)
			b = append(b[:p:p], b[q:]...)
		case "trunc":
			b = b[:p]
		case "dup":
			b = append(b, b...)
		}
	}
	return b
}

// faultedBytes computes the bytes handed to the reader for a case described by layer/kind/….
func faultedBytes(ft *faultTree, fc *faultCase) []byte {
	src := ft.gz
	if fc.Layer == "plain" {
		src = ft.plain
	}
	var b []byte
	switch fc.Kind {
	case "prefix":
		n := fc.Pos
		if n > len(src) {
			n = len(src)
		}
		b = append([]byte(nil), src[:n]...)
	case "xor":
		b = append([]byte(nil), src...)
		if fc.Pos < len(b) {
			b[fc.Pos] ^= byte(fc.Mask)
		}
	case "field":
		b = append([]byte(nil), src...)
		for _, f := range ft.flds {
			if f.Off == fc.Pos {
				putField(b, f, fc.Value)
			}
		}
	case "multi":
		b = applyEdits(src, fc.Edits)
	case "struct":
		b = structEdit(ft, fc)
	}
	if fc.Layer == "plain" {
		return gzipOf(b)
	}
	return b
}

// ---- structure-aware edits of the payload (always re-compressed: the file is a valid gzip stream)
//
// strict edits leave every entry either intact or with a changed identity (path / modTime), or
// damage the framing without repairing it: the refresh contract then promises that a refresh from
// the accepted index equals a from-scratch scan. "valid lies" re-encode an entry with fewer faces
// under an intact path+modTime and correct framing: no reader can tell them from an honest index,
// so only the operational well-formedness is demanded for them.
var structEdits = []struct {
	name   string
	strict bool
}{
	{"dup_entry", true}, {"swap_with_next", true}, {"drop_entry", true}, {"reverse_entries", true},
	{"mtime_plus1", true}, {"mtime_zero", true}, {"path_changed", true}, {"bogus_entry", true},
	{"same_path_other_mtime_after", true}, {"count_minus1", true}, {"count_plus1", true}, {"tail_garbage", true},
	{"cut_footprints_raw", true},
	{"drop_last_k_fixup", false}, {"drop_first_fixup", false},
}

func structStrict(name string) bool {
	for _, e := range structEdits {
		if e.name == name {
			return e.strict
		}
	}
	return false
}

// withSize returns body framed as a segment (4-byte size + body).
func withSize(body []byte) []byte {
	out := make([]byte, 4, 4+len(body))
	binary.BigEndian.PutUint32(out, uint32(len(body)))
	return append(out, body...)
}

func structEdit(ft *faultTree, fc *faultCase) []byte {
	p := ft.plain
	var segs [][]byte
	for _, e := range ft.entries {
		segs = append(segs, append([]byte(nil), p[e.Start:e.End]...))
	}
	i := fc.Entry
	if i < 0 || i >= len(segs) {
		i = 0
	}
	if len(segs) == 0 {
		return append([]byte(nil), p...)
	}
	e := ft.entries[i]
	count := len(segs)
	rel := func(off int) int { return off - e.Start }
	var tail []byte
	switch fc.Edit {
	case "dup_entry":
		segs = append(segs[:i+1:i+1], append([][]byte{segs[i]}, segs[i+1:]...)...)
		count++
	case "swap_with_next":
		j := (i + 1) % len(segs)
		segs[i], segs[j] = segs[j], segs[i]
	case "drop_entry":
		segs = append(segs[:i:i], segs[i+1:]...)
		count--
	case "reverse_entries":
		for a, b := 0, len(segs)-1; a < b; a, b = a+1, b-1 {
			segs[a], segs[b] = segs[b], segs[a]
		}
	case "mtime_plus1":
		m := binary.BigEndian.Uint64(segs[i][rel(e.ModTime):])
		binary.BigEndian.PutUint64(segs[i][rel(e.ModTime):], m+1)
	case "mtime_zero":
		binary.BigEndian.PutUint64(segs[i][rel(e.ModTime):], 0)
	case "path_changed":
		if e.ModTime > e.Path {
			segs[i][rel(e.ModTime)-1] ^= 0x01
		}
	case "bogus_entry":
		body := append([]byte(nil), serializeStr("nowhere/x.ttf")...)
		body = append(body, p[e.ModTime:e.End]...)
		segs = append(segs, withSize(body))
		count++
	case "same_path_other_mtime_after":
		c := append([]byte(nil), segs[i]...)
		m := binary.BigEndian.Uint64(c[rel(e.ModTime):])
		binary.BigEndian.PutUint64(c[rel(e.ModTime):], m-1)
		segs = append(segs, c)
		count++
	case "count_minus1":
		count--
	case "count_plus1":
		count++
	case "tail_garbage":
		tail = []byte{0, 0, 0, 10, 0, 0, 1, 2, 3, 4, 5, 6, 7, 8}
	case "cut_footprints_raw":
		// footprints [A, B) of the entry are removed, the size field is left alone
		bounds := append(append([]int(nil), e.FpStart...), e.End)
		a, b := fc.A, fc.B
		if a >= 0 && a < b && b < len(bounds) {
			s := segs[i]
			segs[i] = append(s[:rel(bounds[a]):rel(bounds[a])], s[rel(bounds[b]):]...)
		}
	case "drop_last_k_fixup":
		// the last A footprints are removed and the size field repaired (A = all: path+modTime only)
		bounds := append(append([]int(nil), e.FpStart...), e.End)
		k := len(bounds) - 1 - fc.A
		if k >= 0 && k < len(bounds) {
			segs[i] = withSize(p[e.Start+4 : bounds[k]])
		}
	case "drop_first_fixup":
		if len(e.FpStart) >= 2 {
			body := append([]byte(nil), p[e.Start+4:e.FpStart[0]]...)
			body = append(body, p[e.FpStart[1]:e.End]...)
			segs[i] = withSize(body)
		}
	}
	out := append([]byte(nil), p[:6]...)
	if count < 0 {
		count = 0
	}
	binary.BigEndian.PutUint32(out[2:], uint32(count))
	for _, sg := range segs {
		out = append(out, sg...)
	}
	return append(out, tail...)
}

func serializeStr(s string) []byte {
	out := make([]byte, 2, 2+len(s))
	binary.BigEndian.PutUint16(out, uint16(len(s)))
	return append(out, s...)
}

func putField(b []byte, f field, v uint64) {
	switch f.Width {
	case 1:
		b[f.Off] = byte(v)
	case 2:
		binary.BigEndian.PutUint16(b[f.Off:], uint16(v))
	case 4:
		binary.BigEndian.PutUint32(b[f.Off:], uint32(v))
	}
}

func getField(b []byte, f field) uint64 {
	switch f.Width {
	case 1:
		return uint64(b[f.Off])
	case 2:
		return uint64(binary.BigEndian.Uint16(b[f.Off:]))
	}
	return uint64(binary.BigEndian.Uint32(b[f.Off:]))
}

// ---------------------------------------------------------------------------------------------
// the oracle

var probeRunes = []rune{0, 'a', 0x7F, 0xFF, 0x100, 0x3B1, 0x5D0, 0x627, 0x4E00, 0xFFFD, 0xFFFF, 0x10000, 0x1F600, 0x10FFFF}

const (
	allocBase   = 64 << 20
	allocFactor = 64
)

// checkFaulted hands data to deserializeIndex and checks: no panic, bounded allocation, and either
// an error or an operationally well-formed index. It returns whether the bytes were accepted.
func checkFaulted(t ev.TB, ft *faultTree, fc *faultCase, data []byte) (accepted bool, outcome string) {
	fc.DataHex = hex.EncodeToString(data)
	fail := func(format string, args ...interface{}) { ev.Fail(t, "fault", fc, format, args...) }
	ev.Journal("fault", fc)
	defer ev.JournalDone()

	var (
		idx      fontscan.VerifIndex
		err      error
		ms0, ms1 runtime.MemStats
	)
	runtime.ReadMemStats(&ms0)
	p, st := call(func() { idx, err = fontscan.VerifDeserializeIndex(bytes.NewReader(data)) })
	runtime.ReadMemStats(&ms1)
	if p != nil {
		fail("deserializeIndex panicked: %v\n%s", p, st)
	}
	if alloc, limit := ms1.TotalAlloc-ms0.TotalAlloc, uint64(allocBase+allocFactor*len(data)); alloc > limit {
		fail("deserializeIndex allocated %d bytes for an input of %d bytes (limit %d)", alloc, len(data), limit)
	}
	if err != nil {
		return false, "error"
	}
	outcome = "accepted_garbled"
	if diffIndex(ft.base, idx) == "" {
		outcome = "accepted_equal_to_original"
	}
	if fc.Kind == "prefix" && fc.Layer == "gzip" && fc.Pos >= len(ft.gz) && outcome != "accepted_equal_to_original" {
		fail("the unfaulted bytes do not read back to the index: %s", diffIndex(ft.base, idx))
	}

	// (a) re-serialises and re-reads to itself
	var (
		buf  bytes.Buffer
		idx2 fontscan.VerifIndex
	)
	if p, st := call(func() {
		if err = fontscan.VerifSerializeIndex(idx, &buf); err == nil {
			idx2, err = fontscan.VerifDeserializeIndex(bytes.NewReader(buf.Bytes()))
		}
	}); p != nil {
		fail("re-serialising the accepted index panicked: %v\n%s", p, st)
	}
	if err != nil {
		fail("the accepted index does not re-serialise and re-read: %v", err)
	}
	if d := diffIndex(idx, idx2); d != "" {
		fail("the accepted index does not re-read to itself: %s", d)
	}

	// (b) its footprints answer queries
	if p, st := call(func() {
		fps := fontscan.VerifFlatten(idx)
		for _, fp := range fps {
			for _, r := range probeRunes {
				fp.Runes.Contains(r)
			}
			fp.Runes.Len()
			fontscan.VerifRuneSetIncludes(fp.Runes, fp.Runes)
			for _, b := range ft.base {
				_, _, bf := fontscan.VerifFileFootprintsParts(b)
				for _, o := range bf {
					fontscan.VerifRuneSetIncludes(fp.Runes, o.Runes)
					fontscan.VerifRuneSetIncludes(o.Runes, fp.Runes)
				}
			}
			n := 0
			for _, s := range fp.Scripts {
				if s == language.Latin {
					n++
				}
			}
			for l := 0; l < 1024; l++ {
				fp.Langs.Contains(fontscan.LangID(l))
			}
		}
		fm := fontscan.NewFontMap(nopLogger{})
		fm.VerifAppendFootprints(fps...) // builds the script map from the (possibly garbled) script sets
	}); p != nil {
		fail("a query on the accepted index panicked: %v\n%s", p, st)
	}

	// (c) it can be the previous index of a scan. What the scan must yield depends on the kind of
	// damage:
	//  strict — truncation at any byte (what a crash while writing leaves behind; on the payload
	//    too: entries are size-prefixed, so a partial entry must never be taken for a whole one),
	//    any damage to the FILE bytes, and structure-aware edits that keep every entry intact or
	//    change its identity: the refresh from the accepted index equals a from-scratch scan;
	//  weak — payload edits re-compressed into a valid file whose entries keep path+modTime but
	//    carry other content (no reader can tell): from-scratch result for every file whose
	//    (path, mtime) matches no entry, previous entry or from-scratch entry for the others.
	strict := fc.Kind == "prefix" || fc.Layer == "gzip" || (fc.Kind == "struct" && structStrict(fc.Edit))
	r := scan(idx, ft.spec.Roots)
	if r.pan != nil {
		fail("scan with the accepted index as previous index panicked: %v\n%s", r.pan, r.stack)
	}
	if r.err != nil {
		fail("scan with the accepted index as previous index failed: %v (from scratch: nil)", r.err)
	}
	if len(r.index) != len(ft.base) {
		fail("scan with the accepted index as previous index: %d entries, from scratch %d (%v vs %v)", len(r.index), len(ft.base), paths(r.index), paths(ft.base))
	}
	matched := keysOf(idx)
	excluded := false
	for i := range ft.base {
		bp, bm, _ := fontscan.VerifFileFootprintsParts(ft.base[i])
		d := diffEntry(ft.base[i], r.index[i])
		if d == "" {
			continue
		}
		if strict && !excluded {
			// Known finding: deserializeIndex stops reading after the last entry, so the gzip
			// checksum is never verified and damaged file bytes can be accepted. The matcher is the
			// defect itself: the file is NOT a valid gzip stream when read to its end.
			_, complete := gunzipPartial(data)
			if fc.Layer == "gzip" && fc.Kind != "prefix" && !complete && ev.Known(findingChecksum) {
				ev.Excluded(findingChecksum)
				excluded = true
			} else {
				fail("%s-layer %s damage was accepted without error, but the refresh from the accepted index differs from a from-scratch scan: %s (accepted index vs original: %s)",
					fc.Layer, fc.Kind+fc.Edit, d, diffIndex(idx, ft.base))
			}
		}
		if !matched[pathTime{bp, bm}] {
			fail("scan with the accepted index as previous index differs from a from-scratch scan for a file that matches no entry: %s", d)
		}
		reused := false
		for _, e := range idx {
			if ep, _, _ := fontscan.VerifFileFootprintsParts(e); ep == bp && diffEntry(e, r.index[i]) == "" {
				reused = true
			}
		}
		if !reused {
			fail("scan with the accepted index as previous index: entry %s is neither the from-scratch one (%s) nor an entry of the previous index", short(bp), d)
		}
		// tolerated for this kind of damage (path and mtime match), but worth counting: the
		// garbled footprint is trusted by the next refresh
		outcome = "accepted_garbled_entry_survives_refresh"
	}
	return true, outcome
}

const findingChecksum = "C16-cache-checksum-unverified"

// ---------------------------------------------------------------------------------------------
// exhaustive enumeration

func fieldValues(old uint64, width int) []uint64 {
	max := uint64(1)<<(8*uint(width)) - 1
	vs := []uint64{0, 1, old - 1, old + 1, old / 2, old * 2, old + 34, max, max - 1, max / 2, max/2 + 1, 0x100, 0x10000, 0x1000000}
	var out []uint64
	seen := map[uint64]bool{old: true}
	for _, v := range vs {
		v &= max
		if !seen[v] {
			seen[v] = true
			out = append(out, v)
		}
	}
	return out
}

// TestPropFaults enumerates, for each small index: every prefix length and every single-byte
// corruption (XOR 0x01, 0x80, 0xFF) of the file bytes and of the decompressed payload
// (re-compressed), and a set of values for every length/count field of the payload.
func TestPropFaults(t *testing.T) {
	if len(smallFonts()) < 10 {
		t.Fatalf("corpus sample too small: %d", len(smallFonts()))
	}
	w, err := newWorld()
	if err != nil {
		t.Fatal(err)
	}
	defer w.close()
	shard, nshards := ev.Shard()
	var total, nt, counter int64
	mine := func() bool {
		counter++
		return int((counter-1)%int64(nshards)) == shard
	}
	run := func(ft *faultTree, fc faultCase) {
		if !mine() {
			return
		}
		data := faultedBytes(ft, &fc)
		_, outcome := checkFaulted(t, ft, &fc, data)
		total++
		if fc.InPayload {
			nt++
		}
		ev.Label(fc.Layer + "_" + fc.Kind + "_" + outcome)
		if fc.Kind == "struct" {
			ev.Label("struct_" + fc.Edit + "_" + outcome)
		}
		if fc.Kind == "prefix" {
			if outcome == "error" {
				ev.Label(fc.Layer + "_prefixes_rejected")
			} else {
				ev.Label(fc.Layer + "_prefixes_accepted")
				pos := fc.Pos // offset in the logical stream after which bytes are missing
				if fc.Layer == "gzip" {
					pos, _ = gunzipPartial(data)
				}
				if insideEntry(ft.entries, pos) {
					ev.Label(fc.Layer + "_prefixes_accepted_ending_inside_an_entry")
				}
			}
		}
		if outcome != "error" && fc.InPayload && ev.WantSample() {
			fc.DataHex = ""
			fc.Tree.Ops = nil
			ev.Sample(map[string]interface{}{"check": "fault", "case": fc, "outcome": outcome})
		}
	}
	for _, spec := range faultTrees() {
		ft := buildFaultTree(t, w, spec)
		ev.Note("tree %s: %d entries, %d footprints, %d file bytes, %d payload bytes, %d length fields", spec.Name, len(ft.base),
			len(fontscan.VerifFlatten(ft.base)), len(ft.gz), len(ft.plain), len(ft.flds))
		for _, layer := range []string{"gzip", "plain"} {
			src := ft.gz
			if layer == "plain" {
				src = ft.plain
			}
			in := func(pos int) bool {
				return layer == "plain" || (pos >= gzHeader && pos < len(src)-gzTrailer)
			}
			for n := 0; n <= len(src); n++ {
				// a cut is inside the payload when the first missing byte is
				run(ft, faultCase{Tree: spec, Layer: layer, Kind: "prefix", Pos: n, InPayload: n < len(src) && in(n)})
			}
			for pos := 0; pos < len(src); pos++ {
				for _, m := range []int{0x01, 0x80, 0xFF} {
					run(ft, faultCase{Tree: spec, Layer: layer, Kind: "xor", Pos: pos, Mask: m, InPayload: in(pos)})
				}
			}
		}
		for _, f := range ft.flds {
			for _, v := range fieldValues(getField(ft.plain, f), f.Width) {
				run(ft, faultCase{Tree: spec, Layer: "plain", Kind: "field", Pos: f.Off, Field: f.Name, Value: v, InPayload: true})
			}
		}
		// structure-aware edits at every entry and every footprint boundary
		for i, e := range ft.entries {
			for _, ed := range structEdits {
				sc := faultCase{Tree: spec, Layer: "plain", Kind: "struct", Edit: ed.name, Entry: i, InPayload: true}
				switch ed.name {
				case "cut_footprints_raw":
					for a := 0; a < len(e.FpStart); a++ {
						for b := a + 1; b <= len(e.FpStart); b++ {
							sc.A, sc.B = a, b
							run(ft, sc)
						}
					}
				case "drop_last_k_fixup":
					for k := 1; k <= len(e.FpStart); k++ {
						sc.A = k
						run(ft, sc)
					}
				case "drop_first_fixup":
					if len(e.FpStart) >= 2 {
						run(ft, sc)
					}
				case "reverse_entries", "count_minus1", "count_plus1", "tail_garbage":
					if i == 0 {
						run(ft, sc)
					}
				default:
					run(ft, sc)
				}
			}
		}
	}
	ev.CaseEnum(total, nt)
}

// ---------------------------------------------------------------------------------------------
// random multi-byte corruption (both layers)

var interesting = [][]byte{
	{0}, {0xFF}, {0x80}, {0, 0}, {0xFF, 0xFF}, {0x7F, 0xFF}, {0x80, 0x00}, {0, 1},
	{0, 0, 0, 0}, {0xFF, 0xFF, 0xFF, 0xFF}, {0x7F, 0xFF, 0xFF, 0xFF}, {0x80, 0, 0, 0}, {0, 0, 0, 1}, {0, 0, 1, 0}, {0, 1, 0, 0}, {0x10, 0, 0, 0},
	{0, 6}, {0, 5}, {0, 7}, {0x1f, 0x8b},
}

func genEdits(t *rapid.T, ft *faultTree, layer string) []edit {
	src := ft.gz
	if layer == "plain" {
		src = ft.plain
	}
	pos := func() int {
		switch rapid.IntRange(0, 3).Draw(t, "pos_kind") {
		case 0:
			return rapid.IntRange(0, 24).Draw(t, "pos")
		case 1:
			if layer == "plain" && len(ft.flds) > 0 {
				return ft.flds[rapid.IntRange(0, len(ft.flds)-1).Draw(t, "field")].Off
			}
		}
		return rapid.IntRange(0, len(src)).Draw(t, "pos")
	}
	val := func() string {
		if rapid.Bool().Draw(t, "val_kind") {
			return hex.EncodeToString(rapid.SampledFrom(interesting).Draw(t, "val"))
		}
		return hex.EncodeToString(rapid.SliceOfN(rapid.Byte(), 1, 6).Draw(t, "val"))
	}
	n := rapid.IntRange(2, 4).Draw(t, "edits")
	var out []edit
	for i := 0; i < n; i++ {
		switch k := rapid.IntRange(0, 11).Draw(t, "edit_kind"); {
		case k <= 6:
			out = append(out, edit{Kind: "set", Pos: pos(), Bytes: val()})
		case k <= 8:
			out = append(out, edit{Kind: "ins", Pos: pos(), Bytes: val()})
		case k == 9:
			out = append(out, edit{Kind: "del", Pos: pos(), N: rapid.IntRange(1, 40).Draw(t, "del")})
		case k == 10:
			out = append(out, edit{Kind: "trunc", Pos: pos()})
		default:
			out = append(out, edit{Kind: "dup"})
		}
	}
	return out
}

// TestPropGarble: rapid multi-byte corruption of the file bytes, and gzip-valid-but-garbled
// payloads (decompress, mutate, re-compress).
func TestPropGarble(t *testing.T) {
	w, err := newWorld()
	if err != nil {
		t.Fatal(err)
	}
	defer w.close()
	var trees []*faultTree
	for _, spec := range faultTrees() {
		trees = append(trees, buildFaultTree(t, w, spec))
	}
	rapid.Check(t, func(t *rapid.T) {
		ft := trees[rapid.IntRange(0, len(trees)-1).Draw(t, "tree")]
		layer := "plain"
		if rapid.IntRange(0, 3).Draw(t, "layer") == 0 {
			layer = "gzip"
		}
		fc := faultCase{Tree: ft.spec, Layer: layer, Kind: "multi", Edits: genEdits(t, ft, layer)}
		fc.InPayload = layer == "plain"
		for _, e := range fc.Edits {
			if layer == "gzip" && e.Pos >= gzHeader && e.Pos < len(ft.gz)-gzTrailer {
				fc.InPayload = true
			}
		}
		data := faultedBytes(ft, &fc)
		_, outcome := checkFaulted(t, ft, &fc, data)
		ev.Case(fc.InPayload, data, layer+"_multi_"+outcome)
		if outcome != "error" && ev.WantSample() {
			ev.Sample(map[string]interface{}{"check": "fault", "tree": ft.spec.Name, "layer": layer, "edits": fc.Edits, "outcome": outcome})
		}
	})
}

func replayFault(t *testing.T, fc faultCase) {
	w, err := newWorld()
	if err != nil {
		t.Fatal(err)
	}
	defer w.close()
	ft := buildFaultTree(t, w, fc.Tree)
	var data []byte
	if fc.DataHex != "" {
		if data, err = hex.DecodeString(fc.DataHex); err != nil {
			t.Fatalf("data_hex: %v", err)
		}
	} else {
		data = faultedBytes(ft, &fc)
	}
	accepted, outcome := checkFaulted(t, ft, &fc, data)
	t.Logf("fault replay: accepted=%v outcome=%s", accepted, outcome)
}
