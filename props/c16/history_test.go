package c16

import (
	"bytes"
	"fmt"
	"os"
	"path/filepath"
	"sort"
	"strings"
	"testing"

	"github.com/go-text/typesetting/fontscan"
	"pgregory.net/rapid"

	"verif/internal/corpus"
	"verif/internal/ev"
)

// ---------------------------------------------------------------------------------------------
// refresh histories

type histCase struct {
	Roots   []string `json:"roots"`   // directories handed to the scanner, in this order (may overlap, may not exist)
	Persist string   `json:"persist"` // how index k-1 reaches refresh k: none (in memory), stream, file
	Ops     []op     `json:"ops"`     // one refresh is checked after each
	// Crashes[k] describes the crash while the cache was written before refresh k (refresh 0 is the one
	// before the first mutation): the cache file holds only a prefix. Layer "" = no crash.
	Crashes []crash `json:"crashes,omitempty"`
}

// crash: the cache file read by a refresh is cut. Layer "plain": the logical stream is cut after
// Cut bytes (and the file is a valid gzip stream of that prefix); "gzip": the file is cut after Cut
// bytes.
type crash struct {
	Layer string `json:"layer,omitempty"`
	Cut   int    `json:"cut,omitempty"`
}

// crashSel is how a crash is chosen before the bytes exist: mode none / boundary (a field, entry or
// footprint boundary of the logical stream) / plain / gzip (any byte) / resolved (replay).
type crashSel struct {
	mode string
	k    int
	at   crash
}

type hist struct {
	t    ev.TB
	c    *histCase
	w    *world
	prev fontscan.VerifIndex

	steps, mixed, scanErrors, reused, rescanned int
	crashAccepted, crashRejected, crashInside   int
	tags                                        map[string]bool
}

const histCache = "cache/font_index.cache"

func newHist(t ev.TB, c *histCase) (*hist, error) {
	w, err := newWorld()
	if err != nil {
		return nil, err
	}
	h := &hist{t: t, c: c, w: w, tags: map[string]bool{}}
	for _, d := range []string{"r1", "r2", "ext"} {
		w.apply(op{Op: "mkdir", Path: d})
	}
	return h, nil
}

func (h *hist) fail(format string, args ...interface{}) {
	ev.Fail(h.t, "history", h.c, format, args...)
}

// persisted sends the previous index through the persistence layer, as a real refresh does.
func (h *hist) persisted() fontscan.VerifIndex {
	var (
		out fontscan.VerifIndex
		err error
		buf bytes.Buffer
	)
	switch h.c.Persist {
	case "stream":
		if p, st := call(func() {
			if err = fontscan.VerifSerializeIndex(h.prev, &buf); err == nil {
				out, err = fontscan.VerifDeserializeIndex(bytes.NewReader(buf.Bytes()))
			}
		}); p != nil {
			h.fail("persisting the index panicked: %v\n%s", p, st)
		}
	case "file":
		if p, st := call(func() {
			if err = fontscan.VerifSerializeIndexFile(h.prev, histCache); err == nil {
				out, err = fontscan.VerifDeserializeIndexFile(histCache)
			}
		}); p != nil {
			h.fail("persisting the index panicked: %v\n%s", p, st)
		}
	default:
		return h.prev
	}
	if err != nil {
		h.fail("persisting the index failed: %v", err)
	}
	if d := diffIndex(h.prev, out); d != "" {
		h.fail("the persisted index differs from the index written: %s", d)
	}
	return out
}

// crashed returns the index a refresh reads when the writer of the cache crashed: the cache file
// holds a prefix. An unreadable cache means "no previous index", as in refreshSystemFontsIndex.
func (h *hist) crashed(sel crashSel) (fontscan.VerifIndex, crash) {
	var buf bytes.Buffer
	if err := fontscan.VerifSerializeIndex(h.prev, &buf); err != nil {
		h.fail("serialising the index failed: %v", err)
	}
	gz := buf.Bytes()
	plain, err := gunzip(gz)
	if err != nil {
		h.fail("the serialised index is not a gzip stream: %v", err)
	}
	flds, entries := layout(plain)
	cr := sel.at
	switch sel.mode {
	case "boundary":
		set := map[int]bool{0: true, len(plain): true}
		for _, f := range flds {
			set[f.Off], set[f.Off+f.Width] = true, true
		}
		for _, e := range entries {
			set[e.Start], set[e.ModTime], set[e.End] = true, true, true
			for _, c := range e.Cuts {
				set[c] = true
			}
		}
		var cands []int
		for c := range set {
			if c <= len(plain) {
				cands = append(cands, c)
			}
		}
		sort.Ints(cands)
		cr = crash{Layer: "plain", Cut: cands[sel.k%len(cands)]}
	case "footprint_boundary":
		var cands []int
		for _, e := range entries {
			cands = append(cands, e.Cuts...)
		}
		if len(cands) == 0 {
			cands = []int{len(plain)}
		}
		cr = crash{Layer: "plain", Cut: cands[sel.k%len(cands)]}
	case "plain":
		cr = crash{Layer: "plain", Cut: sel.k % (len(plain) + 1)}
	case "gzip":
		cr = crash{Layer: "gzip", Cut: sel.k % (len(gz) + 1)}
	}
	var data []byte
	if cr.Layer == "gzip" {
		if cr.Cut > len(gz) {
			cr.Cut = len(gz)
		}
		data = gz[:cr.Cut]
	} else {
		cr.Layer = "plain"
		if cr.Cut > len(plain) {
			cr.Cut = len(plain)
		}
		data = gzipOf(plain[:cr.Cut])
	}
	os.MkdirAll(filepath.Dir(histCache), 0o755)
	if err := os.WriteFile(histCache, data, 0o644); err != nil {
		h.t.Fatalf("writing the cut cache: %v", err)
	}
	var out fontscan.VerifIndex
	if p, st := call(func() { out, err = fontscan.VerifDeserializeIndexFile(histCache) }); p != nil {
		h.c.Crashes = append(h.c.Crashes, cr)
		h.fail("reading the cut cache file panicked: %v\n%s", p, st)
	}
	if err != nil {
		h.crashRejected++
		return nil, cr
	}
	h.crashAccepted++
	pos := cr.Cut
	if cr.Layer == "gzip" {
		pos, _ = gunzipPartial(data)
	}
	if insideEntry(entries, pos) {
		h.crashInside++
	}
	return out, cr
}

// refresh is the oracle of one step: scan(prev = index k-1) ≡ scan(prev = nil).
func (h *hist) refresh(sel crashSel) {
	h.steps++
	scratch := scan(nil, h.c.Roots)
	if scratch.pan != nil {
		h.fail("from-scratch scan panicked: %v\n%s", scratch.pan, scratch.stack)
	}
	prev := h.persisted()
	var cr crash
	if sel.mode != "" && sel.mode != "none" {
		prev, cr = h.crashed(sel)
	}
	for len(h.c.Crashes) < h.steps-1 {
		h.c.Crashes = append(h.c.Crashes, crash{})
	}
	h.c.Crashes = append(h.c.Crashes, cr)
	incr := scan(prev, h.c.Roots)
	if incr.pan != nil {
		h.fail("incremental scan panicked: %v\n%s", incr.pan, incr.stack)
	}
	if (scratch.err == nil) != (incr.err == nil) {
		h.fail("error status differs: from scratch %v, incremental %v", scratch.err, incr.err)
	}
	if scratch.err != nil {
		// the traversal failed (dangling link, …) for both; the previous index stays, as the cache
		// file of a real refresh would
		h.scanErrors++
		return
	}
	if d := diffIndex(scratch.index, incr.index); d != "" {
		h.fail("after %d mutations the refreshed index differs from a from-scratch scan (scratch vs refreshed): %s", len(h.c.Ops), d)
	}
	// scanFontFootprints keeps a visited set "to avoid double inclusions": no path twice
	seen := map[string]bool{}
	for _, e := range scratch.index {
		p, _, _ := fontscan.VerifFileFootprintsParts(e)
		if seen[p] {
			h.fail("path %q is included twice in the index (roots %v)", p, h.c.Roots)
		}
		seen[p] = true
	}
	keys := keysOf(prev)
	re, sc := 0, 0
	for _, e := range incr.index {
		p, m, _ := fontscan.VerifFileFootprintsParts(e)
		if keys[pathTime{p, m}] {
			re++
		} else {
			sc++
		}
	}
	h.reused += re
	h.rescanned += sc
	if re > 0 && sc > 0 {
		h.mixed++
	}
	h.prev = incr.index
}

func (h *hist) do(o op) {
	h.c.Ops = append(h.c.Ops, o)
	if err := h.w.apply(o); err != nil {
		h.t.Fatalf("applying %+v: %v", o, err)
	}
}

func replayHistory(t *testing.T, c histCase) {
	ops, crashes := c.Ops, c.Crashes
	c.Ops, c.Crashes = nil, nil
	h, err := newHist(t, &c)
	if err != nil {
		t.Fatal(err)
	}
	defer h.w.close()
	sel := func(k int) crashSel {
		if k < len(crashes) && crashes[k].Layer != "" {
			return crashSel{mode: "resolved", at: crashes[k]}
		}
		return crashSel{}
	}
	h.refresh(sel(0))
	for i, o := range ops {
		h.do(o)
		h.refresh(sel(i + 1))
	}
	t.Logf("history replay: %d refreshes, %d mixed, %d scan errors", h.steps, h.mixed, h.scanErrors)
}

// ---- generation: every action draws its arguments from the tree as it is on disk

var (
	fileNames = []string{"a.ttf", "b.otf", "c.ttc", "n.txt", ".h.ttf", "x.pfb", "e", "Z.TTF"}
	dirNames  = []string{"d0", "d1", ".hd"}
	linkNames = []string{"l0", "l1.ttf", "d1"}
	rootSets  = [][]string{
		{"r1"}, {"r1", "r2"}, {"r2", "r1"}, {"r1", "r1/d0"}, {"r1/d0", "r1"}, {"r1", "r1"}, {"r1", "r2", "r1/d0", "r2/d1"},
	}
)

func (h *hist) nodes(kinds string, withTop bool) []node {
	var out []node
	for _, n := range h.w.list() {
		if n.path == "cache" || strings.HasPrefix(n.path, "cache/") {
			continue
		}
		if !withTop && !strings.Contains(n.path, "/") {
			continue
		}
		if strings.IndexByte(kinds, n.kind) >= 0 {
			out = append(out, n)
		}
	}
	return out
}

func (h *hist) dirs() []string {
	out := []string{"r1", "r2", "ext", "r1", "r2"}
	for _, n := range h.nodes("d", false) {
		out = append(out, n.path)
	}
	return out
}

func pickNode(t *rapid.T, ns []node, label string) node {
	if len(ns) == 0 {
		t.Skip("no such node")
	}
	return ns[rapid.IntRange(0, len(ns)-1).Draw(t, label)]
}

func (h *hist) actions() map[string]func(*rapid.T) {
	fonts := smallFonts()
	font := func(t *rapid.T) string { return fonts[rapid.IntRange(0, len(fonts)-1).Draw(t, "font")] }
	newFile := func(t *rapid.T) string {
		return rapid.SampledFrom(h.dirs()).Draw(t, "dir") + "/" + rapid.SampledFrom(fileNames).Draw(t, "name")
	}
	add := func(t *rapid.T) { h.do(op{Op: "add", Path: newFile(t), Font: font(t)}) }
	replace := func(t *rapid.T) {
		n := pickNode(t, h.nodes("fl", false), "file")
		if rapid.IntRange(0, 4).Draw(t, "with_junk") == 0 {
			h.do(op{Op: "junk", Path: n.path, Junk: rapid.SampledFrom([]string{"empty", "text", "noise", "xml"}).Draw(t, "junk")})
		} else {
			h.do(op{Op: "add", Path: n.path, Font: font(t)})
		}
	}
	return map[string]func(*rapid.T){
		"": func(t *rapid.T) {
			sel := crashSel{}
			switch k := rapid.IntRange(0, 19).Draw(t, "crash"); {
			case k <= 12:
			case k <= 14:
				sel.mode = "footprint_boundary"
			case k <= 16:
				sel.mode = "boundary"
			case k == 17:
				sel.mode = "plain"
			default:
				sel.mode = "gzip"
			}
			if sel.mode != "" {
				sel.k = rapid.IntRange(0, 1<<20).Draw(t, "crash_at")
			}
			h.refresh(sel)
		},
		"add_a": add, "add_b": add,
		"junk": func(t *rapid.T) {
			h.do(op{Op: "junk", Path: newFile(t), Junk: rapid.SampledFrom([]string{"empty", "text", "noise", "xml"}).Draw(t, "junk")})
		},
		"replace_a": replace, "replace_b": replace,
		"touch": func(t *rapid.T) {
			h.do(op{Op: "touch", Path: pickNode(t, h.nodes("fld", false), "node").path})
		},
		"remove": func(t *rapid.T) {
			top := rapid.IntRange(0, 24).Draw(t, "top") == 0
			var ns []node
			if top {
				ns = h.nodes("d", true)
			} else {
				ns = h.nodes("fld", false)
			}
			h.do(op{Op: "remove", Path: pickNode(t, ns, "node").path})
		},
		"rename": func(t *rapid.T) {
			n := pickNode(t, h.nodes("fld", false), "node")
			names := fileNames
			if n.kind == 'd' || rapid.IntRange(0, 5).Draw(t, "dirname") == 0 {
				names = dirNames
			}
			to := rapid.SampledFrom(h.dirs()).Draw(t, "dir") + "/" + rapid.SampledFrom(names).Draw(t, "name")
			if to == n.path {
				t.Skip("same path")
			}
			h.do(op{Op: "rename", Path: n.path, To: to})
		},
		"mkdir": func(t *rapid.T) {
			d := rapid.SampledFrom(h.dirs()).Draw(t, "dir")
			if strings.Count(d, "/") >= 3 {
				t.Skip("deep enough")
			}
			h.do(op{Op: "mkdir", Path: d + "/" + rapid.SampledFrom(dirNames).Draw(t, "name")})
		},
		"symlink": func(t *rapid.T) {
			p := rapid.SampledFrom(h.dirs()).Draw(t, "dir") + "/" + rapid.SampledFrom(linkNames).Draw(t, "name")
			var to string
			tag := ""
			switch k := rapid.IntRange(0, 19).Draw(t, "target_kind"); {
			case k == 0:
				to, tag = "ext/missing", "symlink_dangling"
			case k == 1:
				to, tag = filepath.Dir(p), "symlink_to_own_parent" // a directory that contains the link
			case k <= 11:
				n := pickNode(t, h.nodes("fl", false), "target")
				to, tag = n.path, "symlink_to_file"
				if n.kind == 'l' {
					tag = "symlink_to_symlink"
				}
			default:
				to, tag = pickNode(t, h.nodes("d", true), "target").path, "symlink_to_directory"
			}
			if to == p {
				t.Skip("self")
			}
			h.tags[tag] = true
			h.do(op{Op: "symlink", Path: p, To: to})
		},
	}
}

// TestPropHistory: rapid state machine over add / remove / replace / touch / rename / mkdir /
// symlink on a temp tree, a refresh after each step.
func TestPropHistory(t *testing.T) {
	if len(smallFonts()) < 10 {
		t.Fatalf("corpus sample too small: %d", len(smallFonts()))
	}
	rapid.Check(t, func(t *rapid.T) {
		c := &histCase{
			Roots:   rapid.SampledFrom(rootSets).Draw(t, "roots"),
			Persist: rapid.SampledFrom([]string{"none", "stream", "file"}).Draw(t, "persist"),
		}
		h, err := newHist(t, c)
		if err != nil {
			t.Fatalf("temp tree: %v", err)
		}
		defer h.w.close()
		t.Repeat(h.actions())

		labels := []string{"persist_" + c.Persist}
		if h.mixed > 0 {
			labels = append(labels, "history_with_mixed_refresh")
		}
		if h.scanErrors > 0 {
			labels = append(labels, "history_with_failed_traversal")
		}
		if len(c.Roots) > 1 {
			labels = append(labels, "several_roots")
		}
		if h.crashAccepted+h.crashRejected > 0 {
			labels = append(labels, "history_with_crash_while_writing_the_cache")
		}
		kinds := map[string]bool{}
		for _, o := range c.Ops {
			kinds[o.Op] = true
		}
		for k := range kinds {
			labels = append(labels, "history_has_"+k)
		}
		for k := range h.tags {
			labels = append(labels, "history_has_"+k)
		}
		sort.Strings(labels)
		ev.Case(h.mixed > 0, c, labels...)
		ev.LabelN("refreshes", int64(h.steps))
		ev.LabelN("refreshes_mixed_reuse_and_rescan", int64(h.mixed))
		ev.LabelN("refreshes_failed_traversal", int64(h.scanErrors))
		ev.LabelN("crash_prefixes_accepted", int64(h.crashAccepted))
		ev.LabelN("crash_prefixes_rejected", int64(h.crashRejected))
		ev.LabelN("crash_prefixes_accepted_ending_inside_an_entry", int64(h.crashInside))
		ev.LabelN("entries_reused", int64(h.reused))
		ev.LabelN("entries_rescanned", int64(h.rescanned))
		if h.mixed > 0 && ev.WantSample() {
			ev.Sample(map[string]interface{}{"check": "history", "roots": c.Roots, "persist": c.Persist, "ops": c.Ops, "mixed_refreshes": h.mixed})
		}
	})
}

// ---------------------------------------------------------------------------------------------
// refreshSystemFontsIndex with missing / truncated / corrupted cache files.
//
// refreshSystemFontsIndex scans DefaultFontDirectories: the host's font directories cannot be
// replaced, but $XDG_DATA_HOME/fonts is one of them, so the temp tree is scanned together with
// whatever the host has (which only makes the index bigger).

type refreshCase struct {
	Tree     []op   `json:"tree"`     // under xdg/fonts
	Cache    string `json:"cache"`    // missing dangling_link empty garbage valid prefix xor plain_prefix plain_xor plain_cut
	Permille int    `json:"permille"` // position of the fault as a fraction of the length (the bytes contain absolute temp paths)
	Mask     int    `json:"mask,omitempty"`
	Boundary int    `json:"boundary,omitempty"` // plain_cut: which footprint boundary inside an entry (temp tree entries first)
	Mutate   []op   `json:"mutate"`             // applied after the cache was written, before the refresh
}

func runRefreshCase(t ev.TB, c refreshCase) (outcome string) {
	fail := func(format string, args ...interface{}) { ev.Fail(t, "refresh", c, format, args...) }
	w, err := newWorld()
	if err != nil {
		t.Fatalf("temp tree: %v", err)
	}
	defer w.close()
	for _, o := range c.Tree {
		if err := w.apply(o); err != nil {
			t.Fatalf("building tree: %v", err)
		}
	}
	old, had := os.LookupEnv("XDG_DATA_HOME")
	os.Setenv("XDG_DATA_HOME", filepath.Join(w.dir, "xdg"))
	defer func() {
		if had {
			os.Setenv("XDG_DATA_HOME", old)
		} else {
			os.Unsetenv("XDG_DATA_HOME")
		}
	}()
	dirs, err := fontscan.DefaultFontDirectories(nopLogger{})
	if err != nil {
		t.Fatalf("DefaultFontDirectories: %v", err)
	}
	mine := false
	for _, d := range dirs {
		if d == filepath.Join(w.dir, "xdg", "fonts") {
			mine = true
		}
	}
	if !mine {
		t.Fatalf("DefaultFontDirectories does not list $XDG_DATA_HOME/fonts: %v", dirs)
	}

	// the cache as a previous run left it
	cachePath := filepath.Join(w.dir, "cachedir", "font_index_v6.cache")
	first := scan(nil, dirs)
	if first.pan != nil || first.err != nil {
		t.Fatalf("host font directories cannot be scanned: panic %v err %v", first.pan, first.err)
	}
	var buf bytes.Buffer
	if err := fontscan.VerifSerializeIndex(first.index, &buf); err != nil {
		t.Fatalf("serialising: %v", err)
	}
	valid := buf.Bytes()
	at := func(n int) int { return int(int64(n) * int64(c.Permille) / 1000) }
	var cache []byte
	switch c.Cache {
	case "missing":
	case "dangling_link":
		// opening the cache fails; writing goes through the link
		os.MkdirAll(filepath.Dir(cachePath), 0o755)
		if err := os.Symlink(filepath.Join(w.dir, "cachedir", "elsewhere.cache"), cachePath); err != nil {
			t.Fatalf("symlink: %v", err)
		}
	case "empty":
		cache = []byte{}
	case "garbage":
		cache = []byte("this is not a cache file, it is long enough to hold a gzip header")
	case "valid":
		cache = valid
	case "prefix":
		cache = valid[:at(len(valid))]
	case "xor":
		cache = append([]byte(nil), valid...)
		cache[at(len(cache)-1)] ^= byte(c.Mask)
	case "plain_prefix", "plain_xor", "plain_cut":
		plain, err := gunzip(valid)
		if err != nil {
			t.Fatalf("gunzip: %v", err)
		}
		switch c.Cache {
		case "plain_prefix":
			plain = plain[:at(len(plain))]
		case "plain_xor":
			plain[at(len(plain)-1)] ^= byte(c.Mask)
		default:
			// the logical stream stops at a footprint boundary inside an entry: what is left of that
			// entry still looks like an entry (with no face, or with the first faces of a collection)
			_, entries := layout(plain)
			var mineCuts, hostCuts []int
			for _, e := range entries {
				if strings.HasPrefix(string(plain[e.Path:e.ModTime]), w.dir) {
					mineCuts = append(mineCuts, e.Cuts...)
				} else {
					hostCuts = append(hostCuts, e.Cuts...)
				}
			}
			cuts := append(mineCuts, hostCuts...)
			if len(cuts) == 0 {
				t.Fatalf("no footprint boundary in the index")
			}
			plain = plain[:cuts[c.Boundary%len(cuts)]]
		}
		cache = gzipOf(plain)
	default:
		t.Fatalf("bad cache kind %q", c.Cache)
	}
	if cache != nil {
		os.MkdirAll(filepath.Dir(cachePath), 0o755)
		if err := os.WriteFile(cachePath, cache, 0o644); err != nil {
			t.Fatalf("writing cache: %v", err)
		}
	}
	for _, o := range c.Mutate {
		if err := w.apply(o); err != nil {
			t.Fatalf("mutating tree: %v", err)
		}
	}

	scratch := scan(nil, dirs)
	if scratch.pan != nil || scratch.err != nil {
		t.Fatalf("host font directories cannot be scanned: panic %v err %v", scratch.pan, scratch.err)
	}
	var prev fontscan.VerifIndex
	call(func() {
		if x, err := fontscan.VerifDeserializeIndexFile(cachePath); err == nil {
			prev = x
		}
	})

	ev.Journal("refresh", c)
	defer ev.JournalDone()
	var got fontscan.VerifIndex
	if p, st := call(func() { got, err = fontscan.VerifRefresh(nopLogger{}, cachePath) }); p != nil {
		fail("refreshSystemFontsIndex panicked: %v\n%s", p, st)
	}
	if err != nil {
		fail("refreshSystemFontsIndex failed instead of rescanning (cache %s): %v", c.Cache, err)
	}
	if len(got) != len(scratch.index) {
		fail("refreshed index has %d entries, a from-scratch scan %d", len(got), len(scratch.index))
	}
	outcome = "cache_rejected"
	if prev != nil {
		outcome = "cache_accepted"
	}
	matched := keysOf(prev)
	// strict: every kind of cache (valid, missing, truncated anywhere, damaged file bytes) except a
	// payload edit re-compressed into a valid file, which no reader can tell from an honest cache
	strict := c.Cache != "plain_xor"
	excluded := false
	for i := range scratch.index {
		sp, sm, _ := fontscan.VerifFileFootprintsParts(scratch.index[i])
		d := diffEntry(scratch.index[i], got[i])
		if d == "" {
			continue
		}
		if strict && !excluded {
			_, complete := gunzipPartial(cache)
			if c.Cache == "xor" && !complete && ev.Known(findingChecksum) {
				ev.Excluded(findingChecksum) // see faults_test.go
				excluded = true
			} else {
				fail("cache %s was read without error, but the refreshed index differs from a from-scratch scan: %s", c.Cache, d)
			}
		}
		if !matched[pathTime{sp, sm}] {
			fail("refreshed index differs from a from-scratch scan for a file that matches no cache entry: %s", d)
		}
		reused := false
		for _, e := range prev {
			if ep, _, _ := fontscan.VerifFileFootprintsParts(e); ep == sp && diffEntry(e, got[i]) == "" {
				reused = true
			}
		}
		if !reused {
			fail("refreshed entry %s is neither the from-scratch one (%s) nor the cached one", short(sp), d)
		}
		outcome = "cache_accepted_garbled_entry_reused"
	}
	// the cache file is rebuilt: it reads back to the refreshed index
	var back fontscan.VerifIndex
	if p, st := call(func() { back, err = fontscan.VerifDeserializeIndexFile(cachePath) }); p != nil {
		fail("reading the rewritten cache panicked: %v\n%s", p, st)
	}
	if err != nil {
		fail("the cache file rewritten by the refresh cannot be read: %v", err)
	}
	if d := diffIndex(got, back); d != "" {
		fail("the cache file rewritten by the refresh differs from the returned index: %s", d)
	}
	return outcome
}

func refreshCases() []refreshCase {
	fonts := smallFonts()
	tree := []op{
		{Op: "add", Path: "xdg/fonts/a.ttc", Font: ttcFont},
		{Op: "add", Path: "xdg/fonts/sub/b.ttf", Font: fonts[0]},
		{Op: "add", Path: "xdg/fonts/sub/c.ttf", Font: fonts[1]},
		{Op: "junk", Path: "xdg/fonts/readme.txt", Junk: "text"},
	}
	mut := []op{
		{Op: "add", Path: "xdg/fonts/sub/b.ttf", Font: fonts[2]}, // replace
		{Op: "touch", Path: "xdg/fonts/a.ttc"},
		{Op: "remove", Path: "xdg/fonts/sub/c.ttf"},
		{Op: "add", Path: "xdg/fonts/new/d.otf", Font: fonts[3]},
	}
	var out []refreshCase
	for _, m := range [][]op{nil, mut} {
		for _, k := range []string{"missing", "dangling_link", "empty", "garbage", "valid"} {
			out = append(out, refreshCase{Tree: tree, Cache: k, Mutate: m})
		}
		for _, pm := range []int{0, 1, 3, 10, 100, 400, 800, 990, 999, 1000} {
			out = append(out, refreshCase{Tree: tree, Cache: "prefix", Permille: pm, Mutate: m})
			out = append(out, refreshCase{Tree: tree, Cache: "plain_prefix", Permille: pm, Mutate: m})
			if pm == 1000 {
				continue
			}
			out = append(out, refreshCase{Tree: tree, Cache: "xor", Permille: pm, Mask: 0xFF, Mutate: m})
			out = append(out, refreshCase{Tree: tree, Cache: "plain_xor", Permille: pm, Mask: 0x80, Mutate: m})
		}
		for b := 0; b < 8; b++ {
			out = append(out, refreshCase{Tree: tree, Cache: "plain_cut", Boundary: b, Mutate: m})
		}
	}
	return out
}

// TestPropRefreshCache: the real entry point with unusable cache files must rescan, not fail.
func TestPropRefreshCache(t *testing.T) {
	if fs, err := corpus.Faces(ttcFont); err != nil || len(fs) == 0 {
		t.Fatalf("%s must be a loadable font: %v", ttcFont, err)
	}
	shard, nshards := ev.Shard()
	var total, nt int64
	for i, c := range refreshCases() {
		if i%nshards != shard {
			continue
		}
		outcome := runRefreshCase(t, c)
		total++
		if c.Cache != "missing" && c.Cache != "valid" {
			nt++
		}
		ev.Label(fmt.Sprintf("refresh_%s_%s", c.Cache, outcome))
		if ev.WantSample() {
			ev.Sample(map[string]interface{}{"check": "refresh", "cache": c.Cache, "permille": c.Permille, "mutated": len(c.Mutate) > 0, "outcome": outcome})
		}
	}
	ev.CaseEnum(total, nt)
}
