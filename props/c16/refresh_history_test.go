package c16

import (
	"os"
	"path/filepath"
	"sort"
	"testing"

	"github.com/go-text/typesetting/fontscan"
	"pgregory.net/rapid"

	"verif/internal/corpus"
	"verif/internal/ev"
)

// Histories through the library's own refresh entry point (refreshSystemFontsIndex): the cache
// file is read, the directories scanned and the cache file rewritten by the library, never by the
// harness. $XDG_DATA_HOME/fonts is the temp tree (the host directories are scanned with it).
//
// After EVERY step:
//  1. the returned index ≡ a from-scratch scan of the same directories;
//  2. the cache file on disk, read back with deserializeIndexFile, ≡ the returned index;
//  3. a second refresh from that file (nothing changed in between) ≡ the from-scratch scan, and the
//     file still ≡ the returned index.
//
// Steps: add, replace (fresh mtime), touch, nothing, REMOVE (frequent; a removal-only refresh rescans
// no file) and REINSTALL: another font is written at a path whose removal a refresh has already
// seen, with the mtime the removed file had.

type refreshHistCase struct {
	Ops []op `json:"ops"` // paths under xdg/fonts; one checked refresh after each (and one before the first)
}

const keepFont = "xdg/fonts/keep.ttc" // never removed: the index always holds a loadable face

type refreshHist struct {
	t         ev.TB
	c         *refreshHistCase
	w         *world
	dirs      []string
	cachePath string
	steps     int
}

func (h *refreshHist) fail(format string, args ...interface{}) {
	ev.Fail(h.t, "refresh-history", h.c, format, args...)
}

func newRefreshHist(t ev.TB, c *refreshHistCase) (*refreshHist, func()) {
	w, err := newWorld()
	if err != nil {
		t.Fatalf("temp tree: %v", err)
	}
	old, had := os.LookupEnv("XDG_DATA_HOME")
	os.Setenv("XDG_DATA_HOME", filepath.Join(w.dir, "xdg"))
	cleanup := func() {
		if had {
			os.Setenv("XDG_DATA_HOME", old)
		} else {
			os.Unsetenv("XDG_DATA_HOME")
		}
		w.close()
	}
	w.apply(op{Op: "add", Path: keepFont, Font: ttcFont})
	dirs, err := fontscan.DefaultFontDirectories(nopLogger{})
	if err != nil {
		cleanup()
		t.Fatalf("DefaultFontDirectories: %v", err)
	}
	mine := false
	for _, d := range dirs {
		if d == filepath.Join(w.dir, "xdg", "fonts") {
			mine = true
		}
	}
	if !mine {
		cleanup()
		t.Fatalf("DefaultFontDirectories does not list $XDG_DATA_HOME/fonts: %v", dirs)
	}
	return &refreshHist{t: t, c: c, w: w, dirs: dirs, cachePath: filepath.Join(w.dir, "cachedir", "font_index_v6.cache")}, cleanup
}

func (h *refreshHist) check() {
	h.steps++
	scratch := scan(nil, h.dirs)
	if scratch.pan != nil || scratch.err != nil {
		h.t.Fatalf("font directories cannot be scanned: panic %v err %v", scratch.pan, scratch.err)
	}
	ev.Journal("refresh-history", h.c)
	defer ev.JournalDone()
	for round := 1; round <= 2; round++ {
		var (
			got, back fontscan.VerifIndex
			err       error
		)
		if p, st := call(func() { got, err = fontscan.VerifRefresh(nopLogger{}, h.cachePath) }); p != nil {
			h.fail("refreshSystemFontsIndex panicked: %v\n%s", p, st)
		}
		if err != nil {
			h.fail("refresh %d after %d mutations failed: %v", round, len(h.c.Ops), err)
		}
		if d := diffIndex(scratch.index, got); d != "" {
			what := "the refreshed index"
			if round == 2 {
				what = "a second refresh, from the cache file the first one left,"
			}
			h.fail("after %d mutations %s differs from a from-scratch scan (scratch vs refreshed): %s", len(h.c.Ops), what, d)
		}
		if p, st := call(func() { back, err = fontscan.VerifDeserializeIndexFile(h.cachePath) }); p != nil {
			h.fail("reading the cache file panicked: %v\n%s", p, st)
		}
		if err != nil {
			h.fail("after %d mutations (refresh %d) the cache file cannot be read: %v", len(h.c.Ops), round, err)
		}
		if d := diffIndex(got, back); d != "" {
			h.fail("after %d mutations (refresh %d) the cache file on disk differs from the returned index (returned vs on disk): %s", len(h.c.Ops), round, d)
		}
	}
}

func (h *refreshHist) do(o op) {
	h.c.Ops = append(h.c.Ops, o)
	if filepath.Dir(o.Path) != "xdg/fonts" && filepath.Dir(o.Path) != "xdg/fonts/sub" || o.Path == keepFont {
		h.t.Fatalf("bad path in refresh history: %q", o.Path)
	}
	if err := h.w.apply(o); err != nil {
		h.t.Fatalf("applying %+v: %v", o, err)
	}
}

func runRefreshHistory(t ev.TB, c refreshHistCase) {
	ops := c.Ops
	c.Ops = nil
	h, cleanup := newRefreshHist(t, &c)
	defer cleanup()
	h.check()
	for _, o := range ops {
		h.do(o)
		h.check()
	}
}

var refreshPaths = []string{"xdg/fonts/a.ttf", "xdg/fonts/b.otf", "xdg/fonts/c.ttc", "xdg/fonts/n.txt", "xdg/fonts/sub/d.ttf", "xdg/fonts/sub/e.ttf"}

// TestPropRefreshHistory: rapid histories through refreshSystemFontsIndex.
func TestPropRefreshHistory(t *testing.T) {
	if fs, err := corpus.Faces(ttcFont); err != nil || len(fs) == 0 {
		t.Fatalf("%s must be a loadable font: %v", ttcFont, err)
	}
	fonts := smallFonts()
	rapid.Check(t, func(t *rapid.T) {
		c := &refreshHistCase{}
		h, cleanup := newRefreshHist(t, c)
		defer cleanup()
		font := func() string { return fonts[rapid.IntRange(0, len(fonts)-1).Draw(t, "font")] }
		present := map[string]int64{} // path -> logical mtime
		removed := map[string]int64{} // path -> logical mtime it had when it was removed (a refresh has seen the removal)
		keys := func(m map[string]int64) []string {
			var ks []string
			for k := range m {
				ks = append(ks, k)
			}
			sort.Strings(ks)
			return ks
		}
		// a populated tree and a first refresh (no cache yet)
		for _, p := range refreshPaths[:rapid.IntRange(2, len(refreshPaths)).Draw(t, "initial")] {
			h.do(op{Op: "add", Path: p, Font: font()})
			present[p] = h.w.fileTick
		}
		h.check()
		var removalOnly, reinstalls int
		n := rapid.IntRange(2, 7).Draw(t, "steps")
		for i := 0; i < n; i++ {
			k := rapid.IntRange(0, 19).Draw(t, "kind")
			switch {
			case k <= 7 && len(present) > 0: // removal only
				p := rapid.SampledFrom(keys(present)).Draw(t, "path")
				h.do(op{Op: "remove", Path: p})
				removed[p] = present[p]
				delete(present, p)
				removalOnly++
			case k <= 12 && len(removed) > 0: // reinstall another font at a removed path, with the old mtime
				p := rapid.SampledFrom(keys(removed)).Draw(t, "path")
				h.do(op{Op: "add", Path: p, Font: font(), Tick: removed[p]})
				present[p] = removed[p]
				delete(removed, p)
				reinstalls++
			case k <= 14: // add or replace with a fresh mtime
				p := rapid.SampledFrom(refreshPaths).Draw(t, "path")
				h.do(op{Op: "add", Path: p, Font: font()})
				present[p] = h.w.fileTick
				delete(removed, p)
			case k <= 16 && len(present) > 0:
				p := rapid.SampledFrom(keys(present)).Draw(t, "path")
				h.do(op{Op: "touch", Path: p})
				present[p] = h.w.tick
			case k == 17:
				p := rapid.SampledFrom(refreshPaths).Draw(t, "path")
				h.do(op{Op: "junk", Path: p, Junk: "text"})
				present[p] = h.w.fileTick
				delete(removed, p)
			default:
				// nothing changes: the refresh reuses everything
				h.do(op{Op: "touch", Path: "xdg/fonts/does-not-exist"})
			}
			h.check()
		}
		labels := []string{}
		if removalOnly > 0 {
			labels = append(labels, "refresh_history_with_removal_only_step")
		}
		if reinstalls > 0 {
			labels = append(labels, "refresh_history_with_reinstall_at_removed_path_same_mtime")
		}
		ev.Case(removalOnly > 0, c, labels...)
		ev.LabelN("refresh_history_checked_refreshes", int64(2*h.steps))
		ev.LabelN("refresh_history_removal_only_steps", int64(removalOnly))
		ev.LabelN("refresh_history_reinstall_steps", int64(reinstalls))
		if removalOnly > 0 && ev.WantSample() {
			ev.Sample(map[string]interface{}{"check": "refresh-history", "ops": c.Ops})
		}
	})
}
