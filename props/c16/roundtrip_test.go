package c16

import (
	"bytes"
	"encoding/hex"
	"fmt"
	"math"
	"sort"
	"testing"

	"github.com/go-text/typesetting/font"
	"github.com/go-text/typesetting/fontscan"
	"github.com/go-text/typesetting/language"
	"pgregory.net/rapid"

	"verif/internal/ev"
)

// ---------------------------------------------------------------------------------------------
// decoded description of a synthetic index (what the fail file carries)

// strSpec is a string of Len bytes made of the pattern repeated (65 535 bytes is the format's
// limit; longer strings are documented to be truncated and are never built).
type strSpec struct {
	Len int    `json:"len"`
	Pat string `json:"pat_hex"`
}

func (s strSpec) build() string {
	if s.Len <= 0 {
		return ""
	}
	if s.Len > math.MaxUint16 {
		s.Len = math.MaxUint16
	}
	pat, _ := hex.DecodeString(s.Pat)
	if len(pat) == 0 {
		pat = []byte{'x'}
	}
	b := make([]byte, s.Len)
	for i := range b {
		b[i] = pat[i%len(pat)]
	}
	return string(b)
}

type fpSpec struct {
	File         strSpec   `json:"file"`
	Index        uint16    `json:"index"`
	Instance     uint16    `json:"instance"`
	Family       strSpec   `json:"family"`
	Runes        []int32   `json:"runes"`     // added one by one
	PageFrom     int       `json:"page_from"` // plus one rune on each of PageN consecutive pages
	PageN        int       `json:"page_n"`
	RunesEmpty   bool      `json:"runes_empty"` // no rune at all: RuneSet{} instead of nil
	Scripts      []uint32  `json:"scripts"`     // sorted, unique, at most 255
	ScriptsEmpty bool      `json:"scripts_empty"`
	Langs        [8]uint64 `json:"langs"`
	Style        uint8     `json:"style"`
	WeightBits   uint32    `json:"weight_bits"` // never a NaN
	StretchBits  uint32    `json:"stretch_bits"`
	User         bool      `json:"user_provided"`
}

func (s fpSpec) build() fontscan.Footprint {
	var fp fontscan.Footprint
	fp.Location.File = s.File.build()
	fp.Location.Index = s.Index
	fp.Location.Instance = s.Instance
	fp.Family = s.Family.build()
	if s.RunesEmpty {
		fp.Runes = fontscan.RuneSet{}
	}
	for i := 0; i < s.PageN; i++ {
		p := s.PageFrom + i
		if p < 0 || p > 0x10FF {
			break
		}
		fp.Runes.Add(rune(p<<8 | (p*37)&0xFF))
	}
	for _, r := range s.Runes {
		if r >= 0 && r <= 0x10FFFF {
			fp.Runes.Add(r)
		}
	}
	if s.ScriptsEmpty {
		fp.Scripts = fontscan.ScriptSet{}
	}
	for i, sc := range s.Scripts {
		if i == 255 {
			break
		}
		fp.Scripts = append(fp.Scripts, language.Script(sc))
	}
	fp.Langs = fontscan.LangSet(s.Langs)
	fp.Aspect = font.Aspect{Style: font.Style(s.Style), Weight: font.Weight(math.Float32frombits(s.WeightBits)), Stretch: font.Stretch(math.Float32frombits(s.StretchBits))}
	fontscan.VerifSetUserProvided(&fp, s.User)
	return fp
}

type entrySpec struct {
	Path     strSpec  `json:"path"`
	ModTime  int64    `json:"mod_time"`
	Fps      []fpSpec `json:"footprints"`
	FpsEmpty bool     `json:"footprints_empty"` // no footprint: []Footprint{} instead of nil
}

type indexSpec struct {
	Entries []entrySpec `json:"entries"`
	Empty   bool        `json:"index_empty"` // no entry: non-nil empty index instead of nil
}

func (s indexSpec) build() fontscan.VerifIndex {
	var idx fontscan.VerifIndex
	if s.Empty {
		idx = fontscan.VerifIndex{}
	}
	for _, e := range s.Entries {
		var fps []fontscan.Footprint
		if e.FpsEmpty {
			fps = []fontscan.Footprint{}
		}
		for _, f := range e.Fps {
			fps = append(fps, f.build())
		}
		idx = append(idx, fontscan.VerifNewFileFootprints(e.Path.build(), e.ModTime, fps))
	}
	return idx
}

// ---------------------------------------------------------------------------------------------
// generators

func genStr(t *rapid.T, label string) strSpec {
	var n int
	switch k := rapid.IntRange(0, 11).Draw(t, label+"_kind"); {
	case k == 0:
		n = 0
	case k <= 6:
		n = rapid.IntRange(1, 40).Draw(t, label+"_len")
	case k <= 8:
		n = rapid.IntRange(41, 3000).Draw(t, label+"_len")
	case k == 9:
		n = math.MaxUint16
	case k == 10:
		n = rapid.SampledFrom([]int{255, 256, 257, 32767, 32768, 65534, 65535}).Draw(t, label+"_len")
	default:
		n = rapid.IntRange(3000, math.MaxUint16).Draw(t, label+"_len")
	}
	pat := rapid.SliceOfN(rapid.Byte(), 1, 5).Draw(t, label+"_pat")
	return strSpec{Len: n, Pat: hex.EncodeToString(pat)}
}

var float32Bits = rapid.Custom(func(t *rapid.T) uint32 {
	if rapid.IntRange(0, 3).Draw(t, "fkind") == 0 {
		return math.Float32bits(rapid.SampledFrom([]float32{0, 1, 100, 400, 700, 1000, 0.5, 2, -1, float32(math.Copysign(0, -1)), math.MaxFloat32, math.SmallestNonzeroFloat32}).Draw(t, "fconst"))
	}
	return math.Float32bits(rapid.Float32().Draw(t, "f"))
})

func genScripts(t *rapid.T) []uint32 {
	var out []uint32
	switch k := rapid.IntRange(0, 7).Draw(t, "scripts_kind"); {
	case k == 0:
		return nil
	case k <= 4:
		out = rapid.SliceOfNDistinct(rapid.OneOf(rapid.Uint32(), rapid.Uint32Range(0, 300),
			rapid.SampledFrom([]uint32{uint32(language.Latin), uint32(language.Arabic), uint32(language.Unknown), uint32(language.Common), 0, math.MaxUint32})),
			1, 12, rapid.ID[uint32]).Draw(t, "scripts")
	default:
		n := 255
		if k == 5 {
			n = rapid.IntRange(13, 255).Draw(t, "scripts_n")
		}
		start := rapid.Uint32Range(0, 1<<31).Draw(t, "scripts_start")
		step := rapid.Uint32Range(1, 1<<22).Draw(t, "scripts_step")
		for i := 0; i < n; i++ {
			out = append(out, start+uint32(i)*step)
		}
	}
	sort.Slice(out, func(i, j int) bool { return out[i] < out[j] })
	return out
}

var genRune = rapid.OneOf(rapid.Int32Range(0, 0x2FF), rapid.Int32Range(0, 0xFFFF), rapid.Int32Range(0, 0x10FFFF),
	rapid.SampledFrom([]int32{0, 0xFF, 0x100, 0xFFFF, 0x10000, 0x10FFFF, 0x10FF00, 0xFFFE, 0x1F600}))

func genFootprint(t *rapid.T) fpSpec {
	s := fpSpec{
		File:        genStr(t, "file"),
		Index:       rapid.OneOf(rapid.Uint16Range(0, 4), rapid.Uint16()).Draw(t, "index"),
		Instance:    rapid.OneOf(rapid.Uint16Range(0, 2), rapid.Uint16()).Draw(t, "instance"),
		Family:      genStr(t, "family"),
		Style:       rapid.OneOf(rapid.Uint8Range(0, 2), rapid.Uint8()).Draw(t, "style"),
		WeightBits:  float32Bits.Draw(t, "weight"),
		StretchBits: float32Bits.Draw(t, "stretch"),
		User:        rapid.Bool().Draw(t, "user"),
		Scripts:     genScripts(t),
	}
	if len(s.Scripts) == 0 {
		s.ScriptsEmpty = rapid.Bool().Draw(t, "scripts_empty")
	}
	switch k := rapid.IntRange(0, 9).Draw(t, "runes_kind"); {
	case k == 0:
		s.RunesEmpty = rapid.Bool().Draw(t, "runes_empty")
	case k <= 6:
		s.Runes = rapid.SliceOfN(genRune, 1, 24).Draw(t, "runes")
	case k <= 8:
		s.PageFrom = rapid.IntRange(0, 0x10FF).Draw(t, "page_from")
		s.PageN = rapid.IntRange(1, 300).Draw(t, "page_n")
		s.Runes = rapid.SliceOfN(genRune, 0, 8).Draw(t, "runes")
	default:
		s.PageFrom, s.PageN = 0, 0x1100 // every page a valid rune can live on
	}
	switch rapid.IntRange(0, 3).Draw(t, "langs_kind") {
	case 0:
	case 1:
		for i := range s.Langs {
			s.Langs[i] = math.MaxUint64
		}
	default:
		for i := range s.Langs {
			s.Langs[i] = rapid.Uint64().Draw(t, "langs")
		}
	}
	return s
}

func genIndex(t *rapid.T) indexSpec {
	var s indexSpec
	n := rapid.SampledFrom([]int{0, 1, 1, 1, 2, 2, 3, 5}).Draw(t, "entries")
	if n == 0 {
		s.Empty = rapid.Bool().Draw(t, "index_empty")
	}
	for i := 0; i < n; i++ {
		e := entrySpec{
			Path:    genStr(t, "path"),
			ModTime: rapid.OneOf(rapid.Int64(), rapid.Int64Range(0, 2_000_000_000_000_000_000), rapid.SampledFrom([]int64{0, -1, math.MinInt64, math.MaxInt64})).Draw(t, "mod_time"),
		}
		m := rapid.SampledFrom([]int{0, 1, 1, 1, 2, 3}).Draw(t, "footprints")
		if m == 0 {
			e.FpsEmpty = rapid.Bool().Draw(t, "footprints_empty")
		}
		for j := 0; j < m; j++ {
			e.Fps = append(e.Fps, genFootprint(t))
		}
		s.Entries = append(s.Entries, e)
	}
	return s
}

// ---------------------------------------------------------------------------------------------
// property

func checkRoundTrip(t ev.TB, spec indexSpec) (nontrivial bool, labels []string) {
	fail := func(format string, args ...interface{}) { ev.Fail(t, "roundtrip", spec, format, args...) }
	idx := spec.build()

	var (
		buf bytes.Buffer
		got fontscan.VerifIndex
		err error
	)
	if p, st := call(func() { err = fontscan.VerifSerializeIndex(idx, &buf) }); p != nil {
		fail("serializeTo panicked: %v\n%s", p, st)
	}
	if err != nil {
		fail("serializeTo: %v", err)
	}
	if p, st := call(func() { got, err = fontscan.VerifDeserializeIndex(bytes.NewReader(buf.Bytes())) }); p != nil {
		fail("deserializeIndex panicked on the output of serializeTo: %v\n%s", p, st)
	}
	if err != nil {
		fail("deserializeIndex rejects the output of serializeTo: %v", err)
	}
	if d := diffIndex(idx, got); d != "" {
		fail("deserialize(serialize(x)) != x: %s", d)
	}

	// the building blocks, each with its byte count
	seen := map[string]bool{}
	for _, e := range idx {
		_, _, fps := fontscan.VerifFileFootprintsParts(e)
		if len(fps) == 0 {
			seen["entry_without_footprints"] = true
		}
		for _, fp := range fps {
			nontrivial = true
			var (
				b  []byte
				n  int
				g  fontscan.Footprint
				rs fontscan.RuneSet
				ss fontscan.ScriptSet
				ls fontscan.LangSet
			)
			if p, st := call(func() {
				b = fontscan.VerifFootprintSerialize(fp)
				g, n, err = fontscan.VerifFootprintDeserialize(b)
			}); p != nil {
				fail("footprint (de)serialisation panicked: %v\n%s", p, st)
			}
			if err != nil || n != len(b) {
				fail("Footprint.deserializeFrom(serializeTo) = %d bytes of %d, err %v", n, len(b), err)
			}
			if d := diffFootprint(fp, g); d != "" {
				fail("footprint round trip: %s", d)
			}
			if p, st := call(func() {
				b = fontscan.VerifRuneSetSerialize(fp.Runes)
				rs, n, err = fontscan.VerifRuneSetDeserialize(b)
			}); p != nil {
				fail("RuneSet (de)serialisation panicked: %v\n%s", p, st)
			}
			if err != nil || n != len(b) || diffFootprint(fontscan.Footprint{Runes: fp.Runes}, fontscan.Footprint{Runes: rs}) != "" {
				fail("RuneSet round trip: %d bytes of %d, err %v, %d pages -> %d pages", n, len(b), err, len(fp.Runes), len(rs))
			}
			if p, st := call(func() {
				b = fontscan.VerifScriptSetSerialize(fp.Scripts)
				ss, n, err = fontscan.VerifScriptSetDeserialize(b)
			}); p != nil {
				fail("ScriptSet (de)serialisation panicked: %v\n%s", p, st)
			}
			if err != nil || n != len(b) || diffFootprint(fontscan.Footprint{Scripts: fp.Scripts}, fontscan.Footprint{Scripts: ss}) != "" {
				fail("ScriptSet round trip: %d bytes of %d, err %v, %d scripts -> %d scripts", n, len(b), err, len(fp.Scripts), len(ss))
			}
			if p, st := call(func() {
				b = fontscan.VerifLangSetSerialize(fp.Langs)
				ls, n, err = fontscan.VerifLangSetDeserialize(b)
			}); p != nil {
				fail("LangSet (de)serialisation panicked: %v\n%s", p, st)
			}
			if err != nil || n != len(b) || ls != fp.Langs {
				fail("LangSet round trip: %d bytes of %d, err %v", n, len(b), err)
			}
			if len(fp.Location.File) == math.MaxUint16 || len(fp.Family) == math.MaxUint16 {
				seen["string_65535"] = true
			}
			if len(fp.Scripts) == 255 {
				seen["scripts_255"] = true
			}
			if len(fp.Runes) == 0 || len(fp.Scripts) == 0 || fp.Langs == (fontscan.LangSet{}) {
				seen["empty_set"] = true
			}
			if len(fp.Runes) >= 256 {
				seen["runes_256_pages_or_more"] = true
			}
		}
	}
	if len(idx) == 0 {
		seen["index_without_entries"] = true
	}
	for l := range seen {
		labels = append(labels, l)
	}
	sort.Strings(labels)
	return nontrivial, labels
}

// TestPropRoundTrip: synthetic indexes, deserialize(serialize(x)) ≡ x.
func TestPropRoundTrip(t *testing.T) {
	rapid.Check(t, func(t *rapid.T) {
		spec := genIndex(t)
		nt, labels := checkRoundTrip(t, spec)
		ev.Case(nt, spec, labels...)
		if nt && ev.WantSample() {
			ev.Sample(map[string]interface{}{"check": "roundtrip", "entries": len(spec.Entries), "labels": labels})
		}
	})
}

// ---------------------------------------------------------------------------------------------
// scanned indexes: the tree is built from corpus fonts, scanned, and the index goes through the
// stream and the file variants of the (de)serialiser

type scanRTCase struct {
	Tree  []op     `json:"tree"`
	Roots []string `json:"roots"`
}

func checkScanRoundTrip(t ev.TB, c scanRTCase) (footprints int) {
	fail := func(format string, args ...interface{}) { ev.Fail(t, "roundtrip-scan", c, format, args...) }
	w, err := newWorld()
	if err != nil {
		t.Fatalf("temp tree: %v", err)
	}
	defer w.close()
	for _, o := range c.Tree {
		if err := w.apply(o); err != nil {
			t.Fatalf("building tree: %v", err)
		}
	}
	r := scan(nil, c.Roots)
	if r.pan != nil {
		fail("scan panicked: %v\n%s", r.pan, r.stack)
	}
	if r.err != nil {
		fail("scan of a plain tree failed: %v", r.err)
	}
	footprints = len(fontscan.VerifFlatten(r.index))

	var (
		buf       bytes.Buffer
		got, got2 fontscan.VerifIndex
	)
	if p, st := call(func() {
		if err = fontscan.VerifSerializeIndex(r.index, &buf); err == nil {
			got, err = fontscan.VerifDeserializeIndex(bytes.NewReader(buf.Bytes()))
		}
	}); p != nil {
		fail("stream round trip panicked: %v\n%s", p, st)
	}
	if err != nil {
		fail("stream round trip: %v", err)
	}
	if d := diffIndex(r.index, got); d != "" {
		fail("stream round trip of a scanned index: %s", d)
	}
	// file variant; the cache directory does not exist yet (serializeToFile creates it)
	cache := "cache/sub/font_index.cache"
	if p, st := call(func() {
		if err = fontscan.VerifSerializeIndexFile(r.index, cache); err == nil {
			got2, err = fontscan.VerifDeserializeIndexFile(cache)
		}
	}); p != nil {
		fail("file round trip panicked: %v\n%s", p, st)
	}
	if err != nil {
		fail("file round trip: %v", err)
	}
	if d := diffIndex(r.index, got2); d != "" {
		fail("file round trip of a scanned index: %s", d)
	}
	// overwriting a longer cache file with a shorter index must not leave a tail behind
	if p, st := call(func() {
		if err = fontscan.VerifSerializeIndexFile(nil, cache); err == nil {
			got2, err = fontscan.VerifDeserializeIndexFile(cache)
		}
	}); p != nil {
		fail("file round trip of the empty index panicked: %v\n%s", p, st)
	}
	if err != nil || len(got2) != 0 {
		fail("file round trip of the empty index over an existing file: %d entries, err %v", len(got2), err)
	}
	return footprints
}

func genTree(t *rapid.T, dirs []string, maxFiles int) []op {
	fonts := smallFonts()
	names := []string{"a.ttf", "b.otf", "c.ttc", "d.ttf", "e", "n.txt", ".h.ttf", "x.pfb", "Z.TTF"}
	var ops []op
	n := rapid.IntRange(1, maxFiles).Draw(t, "files")
	for i := 0; i < n; i++ {
		p := rapid.SampledFrom(dirs).Draw(t, "dir") + "/" + fmt.Sprintf("%d%s", i, rapid.SampledFrom(names).Draw(t, "name"))
		if rapid.IntRange(0, 5).Draw(t, "junk") == 0 {
			ops = append(ops, op{Op: "junk", Path: p, Junk: rapid.SampledFrom([]string{"empty", "text", "noise", "xml"}).Draw(t, "junk_kind")})
		} else {
			f := fonts[rapid.IntRange(0, len(fonts)-1).Draw(t, "font")]
			if ws := wideFonts(); len(ws) > 0 && rapid.IntRange(0, 19).Draw(t, "wide") == 0 {
				f = ws[rapid.IntRange(0, len(ws)-1).Draw(t, "wide_font")]
			}
			ops = append(ops, op{Op: "add", Path: p, Font: f})
		}
	}
	return ops
}

// TestPropScanRoundTrip: indexes obtained by scanning sampled corpus fonts.
func TestPropScanRoundTrip(t *testing.T) {
	if len(smallFonts()) < 10 {
		t.Fatalf("corpus sample too small: %d", len(smallFonts()))
	}
	rapid.Check(t, func(t *rapid.T) {
		c := scanRTCase{Tree: genTree(t, []string{"r1", "r1/d0", "r1/d0/d1", "r2"}, 6), Roots: []string{"r1", "r2"}}
		n := checkScanRoundTrip(t, c)
		ev.Case(n > 0, c, "scanned_index")
		if n > 0 && ev.WantSample() {
			ev.Sample(map[string]interface{}{"check": "roundtrip-scan", "tree": c.Tree, "footprints": n})
		}
	})
}
