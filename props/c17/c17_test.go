// Package c17 decides property C17: a parsed font can be shared by concurrent goroutines.
//
// A rapid generator draws random *programs*: a pool of 3–5 shared *font.Font values drawn from
// per-stratum candidate lists (about 60 corpus fonts: the ones with the largest layout tables and
// the smallest ones of each of truetype, cff, cff2, variable, aat, bitmap, plain), a prologue of
// font loads (also of damaged variants of the files) run before the goroutines start, N ∈ {2, 8,
// 32, 64} goroutines, each with a random sequence of operations (queries, shaping with the font's
// own scripts, language systems and features, font maps, loading the file or damaged variants of
// it), GOMAXPROCS ∈ {2, 16} and per-operation scheduling actions (Gosched / tiny sleeps), all
// drawn from the program. Only what the documentation declares shareable is shared (*font.Font
// and package-level tables); faces, hb fonts, buffers, shapers, segmenters and font maps are
// owned by one goroutine.
//
// Oracles:
//  1. the package is built with -race and GORACE=halt_on_error=1 exitcode=66: the first data race
//     kills the process while the journal ($VERIF_OUT/journal.json) names the running program; the
//     driver re-runs that program through TestReplay (8 fresh processes × 3 runs) to confirm it;
//  2. every result (prologue and goroutines) must equal the one obtained by running the prologue
//     and then each goroutine's list alone, sequentially, on independently parsed instances of
//     the same fonts.
//
// The concurrent run comes first and uses freshly parsed fonts, so that any lazily filled state
// (on the Font or package-level) is first touched concurrently; the solitary reference run follows.
package c17

import (
	"bytes"
	"encoding/json"
	"fmt"
	"os"
	"os/exec"
	"path/filepath"
	"runtime"
	"sort"
	"strings"
	"sync"
	"syscall"
	"testing"
	"time"

	"github.com/go-text/typesetting/font"
	"pgregory.net/rapid"

	"verif/internal/ev"
	"verif/internal/synthfont"
	"verif/internal/textgen"
)

const raceOptions = "halt_on_error=1 exitcode=66"

func TestMain(m *testing.M) {
	if !raceEnabled && os.Getenv("C17_ALLOW_NORACE") == "" {
		fmt.Fprintln(os.Stderr, "INFRASTRUCTURE: props/c17 must be built with -race (check.json \"race\": true)")
		os.Exit(3)
	}
	// A data race must end the process at once (so that the journal still names the program) and
	// with a failing status. The driver passes GORACE through check.json; when the binary is run
	// by hand, re-execute it with the option set (the race runtime reads GORACE only at start-up).
	if raceEnabled && !strings.Contains(os.Getenv("GORACE"), "halt_on_error=1") {
		if exe, err := os.Executable(); err == nil {
			os.Setenv("GORACE", strings.TrimSpace(os.Getenv("GORACE")+" "+raceOptions))
			err = syscall.Exec(exe, os.Args, os.Environ())
			fmt.Fprintln(os.Stderr, "INFRASTRUCTURE: cannot re-execute with GORACE:", err)
			os.Exit(3)
		}
	}
	initFontIndexDir()
	ev.Main(m)
}

// ---- running a program ----

func yield(y int) {
	switch y {
	case 1:
		runtime.Gosched()
	case 2:
		runtime.Gosched()
		runtime.Gosched()
		runtime.Gosched()
	case 3:
		time.Sleep(time.Microsecond)
	case 4:
		time.Sleep(20 * time.Microsecond)
	}
}

type results struct {
	pro       [][]byte // prologue, per op
	proPanics []string
	res       [][][]byte // per goroutine, per op
	panics    [][]string
}

// runEnv is what all the goroutines of a run share (read-only, except what hides behind pool).
type runEnv struct {
	pool    []*font.Font
	entries []PoolEntry
	naxes   []int
	data    [][]byte
	index   []int // face index of each entry in its file
}

func (e *runEnv) state() *gstate { return newState(e.pool, e.entries, e.naxes, e.data) }

func runPrologue(p Program, e *runEnv, out *results) {
	st := e.state()
	out.pro = make([][]byte, len(p.Prologue))
	out.proPanics = make([]string, len(p.Prologue))
	for i, op := range p.Prologue {
		out.pro[i], out.proPanics[i] = st.exec(op)
	}
}

// runConcurrent runs the prologue, then every goroutine's operation list concurrently over the
// shared fonts.
func runConcurrent(p Program, e *runEnv) results {
	n := len(p.Goroutines)
	out := results{res: make([][][]byte, n), panics: make([][]string, n)}
	procs := p.Procs
	if procs < 1 {
		procs = 1
	}
	prev := runtime.GOMAXPROCS(procs)
	defer runtime.GOMAXPROCS(prev)
	runPrologue(p, e, &out)
	var ready, done sync.WaitGroup
	start := make(chan struct{})
	for g := range p.Goroutines {
		ready.Add(1)
		done.Add(1)
		go func(g int) {
			defer done.Done()
			ops := p.Goroutines[g]
			st := e.state() // creates nothing from the fonts yet
			res := make([][]byte, len(ops))
			pan := make([]string, len(ops))
			ready.Done()
			<-start // start barrier
			for i, op := range ops {
				yield(op.Y)
				res[i], pan[i] = st.exec(op)
			}
			out.res[g], out.panics[g] = res, pan
		}(g)
	}
	ready.Wait()
	close(start)
	done.Wait()
	return out
}

// runAlone runs the prologue, then every goroutine's operation list alone, one after the other.
func runAlone(p Program, e *runEnv) results {
	n := len(p.Goroutines)
	out := results{res: make([][][]byte, n), panics: make([][]string, n)}
	runPrologue(p, e, &out)
	largeParses := 0
	for g, ops := range p.Goroutines {
		if g > 0 && len(ops) > 0 && len(p.Goroutines[g-1]) == len(ops) && &p.Goroutines[g-1][0] == &ops[0] {
			// the very same list as the previous goroutine (first-touch programs): same results
			out.res[g], out.panics[g] = out.res[g-1], out.panics[g-1]
			continue
		}
		// A solitary run starts from a fresh state: the goroutine gets its OWN freshly parsed
		// instances of the fonts it uses, so that whatever the library keeps per *font.Font
		// (also process-wide, keyed by the font) is not shared with the concurrent run nor with
		// the solitary runs of the other goroutines. Small files always; large files when the
		// goroutine passes arguments of its own along with the font (descriptions, variations,
		// ppem), for at most maxLargeFreshParses goroutines of a program.
		pool := append([]*font.Font(nil), e.pool...)
		used, keyed := map[int]bool{}, map[int]bool{}
		for _, op := range ops {
			used[op.F] = true
			keyed[op.F] = keyed[op.F] || ownArguments(op)
			for _, f := range op.Fonts {
				used[f] = true
			}
		}
		for f := range pool {
			if !used[f] || f >= len(e.data) {
				continue
			}
			large := len(e.data[f]) > bigFile
			if large && (!keyed[f] || largeParses >= maxLargeFreshParses) {
				continue
			}
			if ft, _, err := parseFont(e.data[f], e.index[f]); err == nil {
				pool[f] = ft
				if large {
					largeParses++
				}
			}
		}
		st := newState(pool, e.entries, e.naxes, e.data)
		res := make([][]byte, len(ops))
		pan := make([]string, len(ops))
		for i, op := range ops {
			res[i], pan[i] = st.exec(op)
		}
		out.res[g], out.panics[g] = res, pan
	}
	return out
}

const maxLargeFreshParses = 8

// ownArguments tells whether the operation passes arguments of the goroutine's own along with the
// shared font into something the library might key by the font.
func ownArguments(op Op) bool {
	switch op.K {
	case kFmAdd, kFmResolve, kFmSystem, kFmQuery, kSetVar:
		return true
	case kSplit:
		return op.A == 1
	case kProbe:
		return len(op.V) > 0
	}
	return false
}

// maxDamagedLoadAlloc is the allocation above which loading a damaged variant is left to property
// C09 (a damaged file making the loader allocate without proportion is a totality finding, and it
// must not be able to starve or kill this process): such variants are removed from the program.
const maxDamagedLoadAlloc = 256 << 20

// sanitize loads every damaged variant of the program once, in the test goroutine, and drops the
// ones whose load allocates more than maxDamagedLoadAlloc bytes (a deterministic quantity).
func sanitize(p Program, data [][]byte) Program {
	fix := func(ops []Op) []Op {
		var out []Op
		for i, op := range ops {
			if op.K != kParseDmg || op.F < 0 || op.F >= len(data) {
				continue
			}
			var kept []Damage
			dropped := false
			for _, d := range op.Dmg {
				var m0, m1 runtime.MemStats
				runtime.ReadMemStats(&m0)
				func() {
					defer func() { recover() }()
					font.ParseTTC(bytes.NewReader(applyDamage(data[op.F], d)))
				}()
				runtime.ReadMemStats(&m1)
				if m1.TotalAlloc-m0.TotalAlloc > maxDamagedLoadAlloc {
					dropped = true
					ev.Label("damaged-variant-dropped:allocates>256MiB")
					continue
				}
				kept = append(kept, d)
			}
			if dropped {
				if out == nil {
					out = append([]Op(nil), ops...)
				}
				out[i].Dmg = kept
			}
		}
		if out == nil {
			return ops
		}
		return out
	}
	q := p
	q.Prologue = fix(p.Prologue)
	q.Goroutines = make([][]Op, len(p.Goroutines))
	for g, ops := range p.Goroutines {
		q.Goroutines[g] = fix(ops)
	}
	return q
}

func trunc(b []byte) string {
	if len(b) > 300 {
		return string(b[:300]) + "…"
	}
	return string(b)
}

// checkProgram is the property: no data race (the race runtime ends the process) and the same
// results as when running alone.
func checkProgram(t ev.TB, orig Program) {
	if len(orig.Goroutines) == 0 || len(orig.Pool) == 0 {
		return
	}
	n := len(orig.Pool)
	shared := &runEnv{pool: make([]*font.Font, n), entries: orig.Pool, naxes: make([]int, n), data: make([][]byte, n), index: make([]int, n)}
	alone := &runEnv{pool: make([]*font.Font, n), entries: orig.Pool, naxes: shared.naxes, data: shared.data, index: shared.index}
	for i, e := range orig.Pool {
		pf, err := loadEntry(e)
		if err != nil {
			t.Fatalf("INFRASTRUCTURE: cannot load pool font %s: %v", entryKey(e), err)
		}
		shared.naxes[i] = len(pf.axes)
		shared.data[i] = pf.data
		shared.index[i] = pf.Index
		alone.pool[i] = pf.ref
		for j := 0; j < i; j++ {
			if alone.pool[j] == pf.ref { // the same file twice (hand-written replays): distinct instances
				if ft, _, err := parseFont(pf.data, pf.Index); err == nil {
					alone.pool[i] = ft
				}
			}
		}
		// a freshly parsed instance: whatever the library may fill lazily on a Font is first
		// touched by the concurrent run
		ft, _, err := parseFont(pf.data, pf.Index)
		if err != nil {
			t.Fatalf("INFRASTRUCTURE: cannot re-parse pool font %s: %v", entryKey(e), err)
		}
		shared.pool[i] = ft
	}
	p := sanitize(orig, shared.data)

	ev.Journal("program", orig)
	conc := runConcurrent(p, shared)
	ref := runAlone(p, alone)
	for g := range ref.panics {
		for i, m := range ref.panics[g] {
			if m != "" { // totality is not this property's business; the histogram shows how often it happens
				ev.Label("panics-also-when-alone:" + p.Goroutines[g][i].K)
				if os.Getenv("C17_SHOW_PANICS") != "" {
					ob, _ := json.Marshal(p.Goroutines[g][i])
					fmt.Fprintf(os.Stderr, "PANIC %s: %s\n", m, ob)
				}
			}
		}
	}
	differs := func(where string, op Op, c, r []byte, cp, rp string) {
		ob, _ := json.Marshal(op)
		ev.Fail(t, "program", orig,
			"%s %s on %s: concurrent result differs from the result when running alone\n  concurrent: %s %s\n  alone:      %s %s",
			where, ob, entryKey(p.Pool[op.F]), trunc(c), cp, trunc(r), rp)
	}
	for i, op := range p.Prologue {
		if !bytes.Equal(conc.pro[i], ref.pro[i]) {
			differs(fmt.Sprintf("prologue op %d", i), op, conc.pro[i], ref.pro[i], conc.proPanics[i], ref.proPanics[i])
		}
	}
	for g := range p.Goroutines {
		for i, op := range p.Goroutines[g] {
			if !bytes.Equal(conc.res[g][i], ref.res[g][i]) {
				differs(fmt.Sprintf("goroutine %d op %d", g, i), op, conc.res[g][i], ref.res[g][i], conc.panics[g][i], ref.panics[g][i])
			}
		}
	}
	ev.JournalDone()
}

// ---- classification ----

// contention returns, per pool font, the number of goroutines with at least one outline/shape
// operation on it.
func contention(p Program) []int {
	cnt := make([]int, len(p.Pool))
	for _, ops := range p.Goroutines {
		seen := make([]bool, len(p.Pool))
		for _, op := range ops {
			if heavy(op) && op.F >= 0 && op.F < len(seen) && !seen[op.F] {
				seen[op.F] = true
				cnt[op.F]++
			}
		}
	}
	return cnt
}

func contains(kinds map[string]int64, k string) bool { return kinds[k] > 0 }

func record(p Program) {
	cnt := contention(p)
	nt := false
	labels := []string{fmt.Sprintf("goroutines=%d", len(p.Goroutines)), fmt.Sprintf("gomaxprocs=%d", p.Procs)}
	contended := 0
	for i, c := range cnt {
		if c >= 2 {
			nt = true
			contended++
			labels = append(labels, "shared-heavy:"+p.Pool[i].Kind)
		}
	}
	labels = append(labels, fmt.Sprintf("contended-fonts=%d", contended))
	kinds := map[string]int64{}
	total := 0
	for _, ops := range p.Goroutines {
		for _, op := range ops {
			kinds[op.K]++
			total++
		}
	}
	for _, op := range p.Prologue {
		kinds["prologue:"+op.K]++
	}
	for k, n := range kinds {
		ev.LabelN("op:"+k, n)
	}
	ev.LabelN("ops", int64(total))
	for _, e := range p.Pool {
		if e.Synth != nil {
			long := ""
			if e.Synth.Back > 64 || e.Synth.Look > 64 || e.Synth.Input > 64 {
				long = ":longer-than-64"
			}
			ev.Label("font:synthetic:" + e.Synth.Kind + long)
		} else {
			ev.Label("font:" + e.Kind + ":" + filepath.Base(e.File))
		}
	}
	labels = append(labels, fmt.Sprintf("pool-size=%d", len(p.Pool)))
	// arguments that differ ACROSS goroutines for the same shared font
	differ := func(kind string, key func(op Op) string) bool {
		first := map[int]string{}
		for _, ops := range p.Goroutines {
			mine := map[int]string{}
			for _, op := range ops {
				if op.K == kind {
					if _, ok := mine[op.F]; !ok {
						mine[op.F] = key(op)
					}
				}
			}
			for f, k := range mine {
				if prev, ok := first[f]; ok && prev != k {
					return true
				} else if !ok {
					first[f] = k
				}
			}
		}
		return false
	}
	if differ(kFmAdd, func(op Op) string { return fmt.Sprint(op.B, op.Fam, op.Style, op.Weight, op.Stretch) }) {
		labels = append(labels, "same-font-registered-under-different-descriptions")
	}
	if differ(kSetVar, func(op Op) string { return fmt.Sprint(op.A, op.B, op.V) }) {
		labels = append(labels, "same-font-with-different-variations-or-ppem")
	}
	for _, ops := range p.Goroutines {
		for _, op := range ops {
			if op.K == kOutline && op.Mut != 0 {
				ev.Label("outline-modified-in-place-by-its-receiver:" + p.Pool[op.F].Kind)
			}
		}
	}
	if differ(kFmQuery, func(op Op) string { return fmt.Sprint(op.Fam, op.Style, op.Weight, op.Stretch, op.Script) }) {
		labels = append(labels, "different-queries-across-goroutines")
	}
	if g := p.Goroutines; len(g) > 1 && len(g[0]) > 0 && g[0][0].K == kProbe || contains(kinds, kProbe) {
		labels = append(labels, "centred-on-a-c13-class")
		if g := p.Goroutines; len(g) > 1 && len(g[0]) > 0 && len(g[1]) > 0 && g[0][0].K == kProbe && g[1][0].K == kProbe {
			labels = append(labels, "same-first-probe-in-every-goroutine")
		}
	}
	key, _ := json.Marshal(p)
	ev.Case(nt, key, labels...)
	if ev.WantSample() {
		var ks []string
		for k, n := range kinds {
			ks = append(ks, fmt.Sprintf("%s×%d", k, n))
		}
		sort.Strings(ks)
		first := p.Goroutines[0]
		if len(first) > 4 {
			first = first[:4]
		}
		ev.Sample(map[string]any{"pool": p.Pool, "prologue": p.Prologue, "goroutines": len(p.Goroutines), "gomaxprocs": p.Procs, "ops": total, "kinds": strings.Join(ks, " "),
			"goroutines_with_heavy_op_per_font": cnt, "first_ops_of_goroutine_0": first})
	} else {
		ev.Sample(nil)
	}
}

// ---- generator ----

var (
	// rapid draws indexes with a bias towards the first two and the last entries (about 3× and
	// 1.6×) and a milder one towards entries 2–7, so the order below is the weighting: the
	// shaping and outline operations come first.
	opKinds = []string{kHbShape, kOutline, kShape, kExtents, kNewFace, kSplit, kParseDmg, kSetVar, kFmResolve,
		kNominal, kFmAdd, kHbFont, kParse, kMeta, kName, kFontExt, kFmQuery, kAdvance}
	heavyOps = []string{kExtents, kOutline, kHbShape, kShape}

	scriptTags = []string{"", "Latn", "Arab", "Deva", "Hebr", "Cyrl", "Grek", "Thai", "Hang", "Hani", "Zyyy", "Zinh", "Mong"}
	langs      = []string{"", "en", "fr", "ar", "hi", "tr", "zh-hans", "sr", "ur", "und", "mr"}
	features   = []string{"liga", "kern", "smcp", "frac", "calt", "dlig", "ss01", "salt", "zero", "vert", "init", "mark", "aalt", "xxxx"}
	families   = []string{"", "serif", "sans-serif", "monospace", "cursive", "fantasy", "emoji", "math", "arial", "helvetica", "times new roman", "courier", "dejavu sans", "noto sans", "system-ui", "nimbus", "unknown family"}
	sizes      = []int{0, 1, 64, 640, 768, 1024, 72 * 64, 1000 * 64}
)

func genGids(t *rapid.T, pf *poolFont, max int) []uint32 {
	n := rapid.IntRange(1, max).Draw(t, "ngids")
	out := make([]uint32, n)
	for i := range out {
		switch k := rapid.IntRange(0, 19).Draw(t, "gidkind"); {
		case k == 0:
			out[i] = uint32(rapid.SampledFrom([]int{pf.nGlyphs, pf.nGlyphs + 1, 0xFFFF, 0x10000, 0x7FFFFFFF}).Draw(t, "gidout"))
		case k < 6 && len(pf.runes) > 0:
			// the glyph of a mapped rune (the ones shaping touches)
			g, _ := pf.ref.NominalGlyph(rapid.SampledFrom(pf.runes).Draw(t, "gidrune"))
			out[i] = uint32(g)
		default:
			hi := pf.nGlyphs - 1
			if hi < 0 {
				hi = 0
			}
			out[i] = uint32(rapid.IntRange(0, hi).Draw(t, "gid"))
		}
	}
	return out
}

func genVars(t *rapid.T, pf *poolFont) []Var {
	n := rapid.IntRange(0, 3).Draw(t, "nvars")
	var out []Var
	for i := 0; i < n; i++ {
		if len(pf.axes) > 0 && rapid.IntRange(0, 9).Draw(t, "axiskind") < 8 {
			a := rapid.SampledFrom(pf.axes).Draw(t, "axis")
			var v float32
			switch rapid.IntRange(0, 5).Draw(t, "valkind") {
			case 0:
				v = a.min
			case 1:
				v = a.max
			case 2:
				v = a.def
			case 3:
				v = a.max + 100 // clamped by the library
			default:
				// a multiple of 1/8 between min and max (exact in float32)
				steps := int((a.max - a.min) * 8)
				if steps < 1 {
					steps = 1
				}
				v = a.min + float32(rapid.IntRange(0, steps).Draw(t, "valstep"))/8
			}
			out = append(out, Var{Tag: a.tag, Value: v})
		} else {
			out = append(out, Var{Tag: rapid.SampledFrom([]string{"wght", "wdth", "opsz", "slnt", "ital", "XXXX"}).Draw(t, "vtag"),
				Value: float32(rapid.IntRange(-100, 1000).Draw(t, "vval"))})
		}
	}
	return out
}

// genFeats draws user features, mostly among the font's own GSUB/GPOS features (so that compiling
// the shape plan looks them up, enabled, disabled or with an alternate index).
func genFeats(t *rapid.T, pf *poolFont) []Feat {
	n := rapid.IntRange(0, 5).Draw(t, "nfeatclass")
	if n > 3 {
		n = 0 // often no user feature
	}
	var out []Feat
	for i := 0; i < n; i++ {
		var tag string
		if pf.aat && rapid.IntRange(0, 2).Draw(t, "aatfeat") > 0 {
			// a feature tag harfbuzz maps to an AAT feature setting
			tag = rapid.SampledFrom(aatTags).Draw(t, "aattag")
		} else if len(pf.features) > 0 && rapid.IntRange(0, 3).Draw(t, "ownfeat") > 0 {
			tag = rapid.SampledFrom(pf.features).Draw(t, "fontfeat")
		} else {
			tag = rapid.SampledFrom(features).Draw(t, "feat")
		}
		out = append(out, Feat{Tag: tag, Value: uint32(rapid.SampledFrom([]int{1, 1, 0, 2, 3}).Draw(t, "featval"))})
	}
	return out
}

// genLang draws a language: one of the font's own script/language systems (selected verbatim
// through the private-use subtags x-hbsc / x-hbot) or an ordinary BCP 47 tag.
func genLang(t *rapid.T, pf *poolFont) string {
	if len(pf.langs) > 0 && rapid.IntRange(0, 2).Draw(t, "ownlang") == 0 {
		return rapid.SampledFrom(pf.langs).Draw(t, "fontlang")
	}
	return rapid.SampledFrom(langs).Draw(t, "lang")
}

// genSynthText draws a text for a synthetic font: the letters its generated lookups cover, repeated
// so as to be at least as long as backtrack + input + lookahead (so that the long contexts match),
// now and then interrupted by a rune they do not cover.
func genSynthText(t *rapid.T, pf *poolFont) []rune {
	sp := pf.Synth
	n := sp.Back + sp.Input + sp.Look + rapid.IntRange(0, 8).Draw(t, "synthextra")
	if sp.Kind == synthfont.KindMultipleChain || sp.Kind == synthfont.KindGrowShrink {
		n = rapid.IntRange(1, 8).Draw(t, "synthshort") // these fonts multiply the glyphs
	}
	if n < 1 {
		n = 1
	}
	if n > 280 {
		n = 280
	}
	step := rapid.IntRange(0, len(pf.covered)-1).Draw(t, "synthstep")
	first := rapid.IntRange(0, len(pf.covered)-1).Draw(t, "synthfirst")
	txt := make([]rune, n)
	for i := range txt {
		txt[i] = pf.covered[(first+i*step)%len(pf.covered)]
	}
	if k := rapid.IntRange(0, 5).Draw(t, "synthothers"); k >= 4 && len(pf.other) > 0 {
		for ; k >= 4; k-- {
			txt[rapid.IntRange(0, n-1).Draw(t, "synthotherat")] = rapid.SampledFrom(pf.other).Draw(t, "synthother")
		}
	}
	return txt
}

func genText(t *rapid.T, pf *poolFont, extraScripts []string, maxLen int, nonEmpty bool) []rune {
	if pf.Synth != nil && len(pf.covered) > 0 && rapid.IntRange(0, 4).Draw(t, "synthtext") != 0 {
		return genSynthText(t, pf)
	}
	scripts := append(append([]string(nil), pf.scripts...), extraScripts...)
	txt := textgen.Text(t, textgen.Opts{MaxLen: maxLen, FontPool: pf.runes, Scripts: scripts, Hostile: 5})
	if nonEmpty && len(txt) == 0 {
		if len(pf.runes) > 0 {
			txt = []rune{pf.runes[0]}
		} else {
			txt = []rune{'a'}
		}
	}
	return txt
}

func genScript(t *rapid.T, pf *poolFont) string {
	// mostly a script of the font's own runes, so that its shaper and its features are selected
	if len(pf.iso) > 0 && rapid.IntRange(0, 9).Draw(t, "scriptkind") < 7 {
		return rapid.SampledFrom(pf.iso).Draw(t, "fontscript")
	}
	return rapid.SampledFrom(scriptTags).Draw(t, "script")
}

// damagedTables are the tables whose body gets byte edits (glyph descriptions, layout, variations,
// metrics); any table may be cut short.
var damagedTables = map[string]bool{"CFF ": true, "CFF2": true, "glyf": true, "loca": true, "GSUB": true, "GPOS": true, "GDEF": true,
	"gvar": true, "fvar": true, "avar": true, "HVAR": true, "MVAR": true, "morx": true, "kerx": true, "kern": true, "hmtx": true, "vmtx": true,
	"cmap": true, "post": true, "sbix": true, "CBLC": true, "EBLC": true, "bloc": true, "SVG ": true, "VORG": true}

// maxEditedFile: byte edits are confined to small files (a known, listed C09 finding lets the
// generated readers allocate gigabytes from edited large files); cutting tables or the file short
// cannot enlarge any count and is applied to every file.
const (
	maxEditedFile = 128 << 10
	bigFile       = 256 << 10
)

func genDamage(t *rapid.T, pf *poolFont) Damage {
	var d Damage
	if len(pf.tables) == 0 || rapid.IntRange(0, 9).Draw(t, "filecut") == 0 {
		// cut the file short (rapid favours small values: mostly the tail is lost)
		d.FileLen = len(pf.data) - rapid.IntRange(1, len(pf.data)-1).Draw(t, "lost")
		return d
	}
	// a table, glyph and layout tables three times out of four
	var pref []tableRec
	for _, tb := range pf.tables {
		if damagedTables[tb.tag] && tb.len > 4 {
			pref = append(pref, tb)
		}
	}
	tb := rapid.SampledFrom(pf.tables).Draw(t, "anytable")
	if len(pref) > 0 && rapid.IntRange(0, 3).Draw(t, "preftable") > 0 {
		tb = rapid.SampledFrom(pref).Draw(t, "table")
	}
	d.Table = tb.tag
	kind := rapid.IntRange(0, 3).Draw(t, "damagekind")
	if len(pf.data) > maxEditedFile || !damagedTables[tb.tag] || tb.len < 2 {
		kind = 0
	}
	if kind <= 1 && tb.len > 1 {
		// the directory entry declares a shorter table (mostly: the tail is lost)
		d.Trunc = tb.len - rapid.IntRange(1, tb.len-1).Draw(t, "tablelost")
	}
	if kind >= 1 {
		n := rapid.IntRange(1, 4).Draw(t, "nedits")
		for i := 0; i < n; i++ {
			off := rapid.IntRange(0, tb.len-1).Draw(t, "editoff")
			old := int(pf.data[tb.off+off])
			val := rapid.SampledFrom([]int{0, 0xFF, 0x80, 250, old + 1, old - 1, old ^ 0x80, old ^ 1}).Draw(t, "editval") & 0xFF
			d.Edits = append(d.Edits, Edit{Off: off, Val: val})
		}
	}
	return d
}

func genOp(t *rapid.T, pool []*poolFont, kind string, f int) Op {
	pf := pool[f]
	op := Op{K: kind, F: f}
	if rapid.IntRange(0, 1).Draw(t, "yields") == 1 {
		op.Y = rapid.IntRange(1, 4).Draw(t, "yield")
	}
	switch kind {
	case kNewFace, kFontExt:
	case kSetVar:
		op.V = genVars(t, pf)
		op.G = genGids(t, pf, 3)
	case kNominal:
		op.R = genText(t, pf, nil, 8, true)
		op.A = rapid.SampledFrom([]int{0xFE00, 0xFE0F, 0xFE0E, 0xE0100, 0x180B}).Draw(t, "selector")
	case kAdvance, kName:
		op.G = genGids(t, pf, 6)
	case kExtents:
		op.G = genGids(t, pf, 6)
		op.A = rapid.IntRange(0, 12).Draw(t, "point")
	case kOutline:
		op.G = genGids(t, pf, 5)
		if rapid.IntRange(0, 1).Draw(t, "lowgids") == 0 {
			// a small range of glyph ids, so that goroutines ask for the same glyphs
			for i := range op.G {
				op.G[i] = uint32(rapid.IntRange(0, 15).Draw(t, "lowgid"))
			}
		}
		if rapid.IntRange(0, 1).Draw(t, "mutate") == 0 {
			op.Mut = rapid.IntRange(1, 3).Draw(t, "mutation")
			op.Size = rapid.SampledFrom([]int{0, 880, 1000, -200}).Draw(t, "sidewaysoffset")
		}
		if rapid.IntRange(0, 2).Draw(t, "glyphrun") == 0 {
			op.A = rapid.IntRange(1, 32).Draw(t, "runlength")
		}
	case kParse:
		op.G = genGids(t, pf, 3)
	case kParseDmg:
		op.G = genGids(t, pf, 2)
		// several variants of a small file (a directory of damaged downloads), one of a large one
		n := 1
		if len(pf.data) <= maxEditedFile {
			n = 1 + rapid.IntRange(0, 5).Draw(t, "morevariants")
		}
		for i := 0; i < n; i++ {
			op.Dmg = append(op.Dmg, genDamage(t, pf))
		}
	case kMeta:
		op.V = genVars(t, pf)
	case kHbFont:
		op.G = genGids(t, pf, 4)
		op.Dir = rapid.IntRange(0, 3).Draw(t, "dir")
		op.Size = rapid.SampledFrom(sizes).Draw(t, "scale")
	case kHbShape, kShape:
		op.R = genText(t, pf, nil, 12, false)
		op.A, op.B = 0, len(op.R)
		if len(op.R) > 1 && rapid.IntRange(0, 3).Draw(t, "subrange") == 0 {
			op.A = rapid.IntRange(0, len(op.R)).Draw(t, "start")
			op.B = rapid.IntRange(op.A, len(op.R)).Draw(t, "end")
		}
		op.Dir = rapid.SampledFrom([]int{0, 0, 0, 1, 1, 2, 3, 6}).Draw(t, "dir")
		op.Script = genScript(t, pf)
		op.Lang = genLang(t, pf)
		op.Feat = genFeats(t, pf)
		if pf.Synth != nil {
			// the generated lookups hang on one feature of the Latin / default script
			if rapid.IntRange(0, 3).Draw(t, "synthfeature") != 0 {
				op.Feat = append(op.Feat, Feat{Tag: pf.Synth.Feature, Value: 1})
			}
			if rapid.IntRange(0, 2).Draw(t, "synthscript") != 0 {
				op.Script, op.Lang = "Latn", rapid.SampledFrom([]string{"en", "", "fr"}).Draw(t, "synthlang")
			}
			if rapid.IntRange(0, 3).Draw(t, "synthdir") != 0 {
				op.Dir = 0
			}
		}
		op.Size = rapid.SampledFrom(sizes).Draw(t, "size")
		if kind == kHbShape {
			op.Dir &= 3
			op.Size = 0
			op.Flags = rapid.SampledFrom([]int{0, 3, 3, 3, 1, 2, 4, 8, 16, 32 + 3, 64 + 3}).Draw(t, "flags")
			op.Level = rapid.SampledFrom([]int{0, 0, 1, 2}).Draw(t, "level")
		}
	case kSplit:
		nf := rapid.IntRange(0, 2).Draw(t, "nsplitfonts")
		extra := []string{"latin", "arabic", "hebrew"}
		for i := 0; i < nf; i++ {
			j := rapid.IntRange(0, len(pool)-1).Draw(t, "splitfont")
			op.Fonts = append(op.Fonts, j)
			extra = append(extra, pool[j].scripts...)
		}
		op.R = genText(t, pf, extra, 16, true)
		op.A = rapid.IntRange(0, 1).Draw(t, "usefontmap")
		op.B = rapid.IntRange(0, 1).Draw(t, "shaperuns")
		op.Dir = rapid.SampledFrom([]int{0, 0, 1, 2, 3, 6}).Draw(t, "dir")
		op.Lang = rapid.SampledFrom(langs).Draw(t, "lang")
		op.Size = rapid.SampledFrom(sizes).Draw(t, "size")
	case kFmAdd:
		if rapid.IntRange(0, 2).Draw(t, "customfamily") == 0 {
			op.Fam = []string{rapid.SampledFrom(families[1:]).Draw(t, "family")}
		}
	case kFmQuery:
		n := rapid.IntRange(0, 3).Draw(t, "nfamilies")
		for i := 0; i < n; i++ {
			if rapid.IntRange(0, 2).Draw(t, "famkind") == 0 {
				op.Fam = append(op.Fam, pool[rapid.IntRange(0, len(pool)-1).Draw(t, "famfont")].family)
			} else {
				op.Fam = append(op.Fam, rapid.SampledFrom(families).Draw(t, "family"))
			}
		}
		op.Style = rapid.IntRange(0, 2).Draw(t, "style")
		op.Weight = float32(rapid.SampledFrom([]int{0, 100, 300, 400, 500, 700, 900}).Draw(t, "weight"))
		op.Stretch = rapid.SampledFrom([]float32{0, 0.5, 0.75, 1, 1.25, 2}).Draw(t, "stretch")
		op.A = rapid.IntRange(0, 1).Draw(t, "setscript")
		op.Script = rapid.SampledFrom(scriptTags).Draw(t, "script")
	case kFmSystem:
		op.R = genText(t, pf, []string{"latin"}, 3, false)
	case kFmResolve:
		if rapid.IntRange(0, 2).Draw(t, "findsystem") == 0 {
			op.Fam = []string{rapid.SampledFrom(families[1:]).Draw(t, "sysfamily")}
		}
		op.R = genText(t, pf, []string{"latin"}, 6, true)
		op.A = rapid.IntRange(0, 1).Draw(t, "forlang")
		op.Lang = rapid.SampledFrom(langs).Draw(t, "lang")
	}
	return op
}

type persona struct {
	family          string
	style           int
	weight, stretch float32
	ppem            int
}

// apply gives the goroutine's own arguments to the operations that have some (three times out of four).
func (me persona) apply(t *rapid.T, op *Op) {
	switch op.K {
	case kFmAdd:
		if rapid.IntRange(0, 3).Draw(t, "owndescription") != 0 {
			op.B = 1
			op.Fam = nil
			if me.family != "" {
				op.Fam = []string{me.family}
			}
			op.Style, op.Weight, op.Stretch = me.style, me.weight, me.stretch
		}
	case kSetVar:
		if rapid.IntRange(0, 3).Draw(t, "ownppem") != 0 {
			op.A, op.B = me.ppem, me.ppem
		}
	}
}

// genPool draws the 3–5 shared fonts of a program: one candidate from each of as many different
// strata (the candidates are ordered richest first, which rapid's bias favours).
func genPool(t *rapid.T, cands [][]*poolFont) []*poolFont {
	k := rapid.IntRange(3, 5).Draw(t, "poolsize")
	left := make([]int, len(cands))
	for i := range left {
		left[i] = i
	}
	var pool []*poolFont
	for len(pool) < k && len(left) > 0 {
		j := rapid.IntRange(0, len(left)-1).Draw(t, "stratum")
		si := left[j]
		left = append(left[:j], left[j+1:]...)
		pool = append(pool, rapid.SampledFrom(cands[si]).Draw(t, "candidate"))
	}
	return pool
}

// chooser adapts rapid to synthfont.Chooser; with long set, the context kinds and the four largest
// lengths (beyond the shaper's 64-glyph context limit) are forced.
type chooser struct {
	t    *rapid.T
	long bool
}

func (c chooser) Intn(label string, n int) int {
	if c.long {
		switch label {
		case "synthkind": // chain-context or reverse-chain
			for i, k := range synthfont.Kinds {
				if k == synthfont.KindChainContext && rapid.IntRange(0, 1).Draw(c.t, "longkind") == 0 {
					return i
				}
			}
			for i, k := range synthfont.Kinds {
				if k == synthfont.KindReverseChain {
					return i
				}
			}
		case "chain":
			return 1
		case "back", "look":
			if n > 4 && rapid.IntRange(0, 3).Draw(c.t, label+"long") != 0 {
				return n - 1 - rapid.IntRange(0, 3).Draw(c.t, label+"top")
			}
		}
	}
	if n <= 1 {
		return 0
	}
	return rapid.IntRange(0, n-1).Draw(c.t, label)
}

// genSynthetic draws 0–2 fonts of the stratum "synthetic" (Spec stored decoded in the program).
func genSynthetic(t *rapid.T) ([]*poolFont, error) {
	var out []*poolFont
	for i, n := 0, rapid.SampledFrom([]int{0, 0, 1, 1, 1, 2}).Draw(t, "syntheticfonts"); i < n; i++ {
		sp := synthfont.DrawSpec(chooser{t, rapid.IntRange(0, 1).Draw(t, "longcontexts") == 0})
		pf, err := loadEntry(PoolEntry{Kind: "synthetic", Synth: &sp})
		if err != nil {
			return nil, fmt.Errorf("synthetic font %+v: %v", sp, err)
		}
		out = append(out, pf)
	}
	return out, nil
}

func genProgram(t *rapid.T, cands [][]*poolFont) Program {
	p := Program{}
	pool := genPool(t, cands)
	synth, err := genSynthetic(t)
	if err != nil {
		t.Fatalf("INFRASTRUCTURE: %v", err)
	}
	pool = append(pool, synth...)
	// Half of the programs are centred on a coverage class of the C13 index: the font of one of
	// its probes joins the pool and becomes the favoured font; the goroutines shape the probe
	// inputs of that font (inputs verified to take the class's path), often all of them the same
	// input as their first operation.
	probeFont, classProbe := -1, -1
	var fontProbes []int
	if idx, _ := loadClassIndex(); idx != nil && len(idx.names) > 0 && rapid.IntRange(0, 1).Draw(t, "probeprogram") == 0 {
		class := rapid.SampledFrom(idx.names).Draw(t, "class")
		pi := rapid.SampledFrom(idx.classes[class]).Draw(t, "classprobe")
		pr := &idx.probes[pi]
		if c := probeCost(idx, pi); c >= 0 && c <= explosive {
			if pf, err := loadEntry(PoolEntry{Kind: "probe", File: pr.Font.File, Index: pr.Font.Index}); err == nil {
				// (the font may be in the pool already: the pool never holds a file twice)
				for i, q := range pool {
					if q == pf {
						probeFont = i
					}
				}
				if probeFont < 0 {
					pool = append(pool, pf)
					probeFont = len(pool) - 1
				}
				classProbe = pi
				for _, i := range idx.byFont[fmt.Sprintf("%s#%d", pr.Font.File, pr.Font.Index)] {
					if c := probeCost(idx, i); c >= 0 && c <= explosive {
						fontProbes = append(fontProbes, i)
					}
				}
			}
		}
	}
	genProbeOp := func(i int) Op {
		idx, _ := loadClassIndex()
		op := probeOp(&idx.probes[i], probeFont)
		if rapid.IntRange(0, 2).Draw(t, "probeextra") == 0 {
			op.Feat = append(append([]Feat(nil), op.Feat...), genFeats(t, pool[probeFont])...)
		}
		return op
	}
	for _, pf := range pool {
		p.Pool = append(p.Pool, pf.PoolEntry)
	}
	n := rapid.SampledFrom([]int{2, 8, 32, 64}).Draw(t, "goroutines")
	p.Procs = rapid.SampledFrom([]int{2, 16}).Draw(t, "gomaxprocs")
	maxOps := map[int]int{2: 24, 8: 12, 32: 6, 64: 4}[n]
	// goroutines concentrate on one or two fonts of the pool
	hot := rapid.IntRange(0, len(pool)-1).Draw(t, "hotfont")
	hot2 := rapid.IntRange(0, len(pool)-1).Draw(t, "hotfont2")
	if len(synth) > 0 {
		hot2 = len(pool) - 1 // a synthetic font is always one of the two favoured fonts
	}
	sameFirst := false
	if probeFont >= 0 {
		hot = probeFont
		sameFirst = rapid.IntRange(0, 1).Draw(t, "samefirst") == 0
	}
	var firstOp Op
	if sameFirst {
		firstOp = genProbeOp(classProbe)
	}
	pick := func() int {
		switch k := rapid.IntRange(0, 9).Draw(t, "fontkind"); {
		case k < 6:
			return hot
		case k < 8:
			return hot2
		}
		return rapid.IntRange(0, len(pool)-1).Draw(t, "font")
	}
	// before the goroutines start, the test goroutine loads fonts, mostly damaged ones
	for i, n := 0, rapid.IntRange(0, 3).Draw(t, "prologue"); i < n; i++ {
		kind := kParseDmg
		if rapid.IntRange(0, 3).Draw(t, "prologuekind") == 0 {
			kind = kParse
		}
		op := genOp(t, pool, kind, rapid.IntRange(0, len(pool)-1).Draw(t, "prologuefont"))
		op.Y = 0
		p.Prologue = append(p.Prologue, op)
	}
	nsys := rapid.SampledFrom([]int{0, 0, 0, 2, 3, 4}).Draw(t, "systemfontmaps")
	p.Goroutines = make([][]Op, n)
	for g := range p.Goroutines {
		// Every goroutine has its own way of describing and configuring the shared fonts: the
		// description it registers them under in its font map (an instance of a variable font, a
		// synthetic bold: family and aspect, fields possibly unset) and the ppem of its faces.
		// Whatever the library keys by the shared font must not leak them to the others.
		me := persona{
			family:  rapid.SampledFrom(families).Draw(t, "myfamily"),
			style:   rapid.IntRange(0, 2).Draw(t, "mystyle"),
			weight:  float32(rapid.SampledFrom([]int{0, 100, 300, 400, 500, 700, 900}).Draw(t, "myweight")),
			stretch: rapid.SampledFrom([]float32{0, 0.5, 0.75, 1, 1.25, 2}).Draw(t, "mystretch"),
			ppem:    rapid.SampledFrom([]int{0, 0, 8, 9, 12, 16, 32, 128}).Draw(t, "myppem"),
		}
		// (rapid biases draws towards the lower bound: most goroutines get the full length)
		k := maxOps - rapid.IntRange(0, maxOps-1).Draw(t, "fewerops")
		ops := make([]Op, 0, k+1)
		for i := 0; i < k; i++ {
			if sameFirst && i == 0 {
				ops = append(ops, firstOp) // every goroutine starts with the same probe input
				continue
			}
			if g < 2 && i == 0 {
				// by construction at least two goroutines decode outlines of / shape with the hot font
				ops = append(ops, genOp(t, pool, rapid.SampledFrom(heavyOps).Draw(t, "heavyop"), hot))
				continue
			}
			kind, f := rapid.SampledFrom(opKinds).Draw(t, "op"), pick()
			if f == probeFont && heavy(Op{K: kind}) && rapid.IntRange(0, 3).Draw(t, "useprobe") != 0 {
				i := classProbe
				if rapid.IntRange(0, 1).Draw(t, "otherprobe") == 0 {
					i = rapid.SampledFrom(fontProbes).Draw(t, "fontprobe")
				}
				op := genProbeOp(i)
				if rapid.IntRange(0, 1).Draw(t, "yields") == 1 {
					op.Y = rapid.IntRange(1, 4).Draw(t, "yield")
				}
				ops = append(ops, op)
				continue
			}
			if (kind == kParse || kind == kParseDmg) && len(pool[f].data) > bigFile && rapid.IntRange(0, 3).Draw(t, "bigparse") != 0 {
				kind = kOutline // loading a large file takes tens of milliseconds under -race: less often
			}
			op := genOp(t, pool, kind, f)
			me.apply(t, &op)
			ops = append(ops, op)
		}
		if g < nsys {
			// UseSystemFonts: in none or in several goroutines of a program, once each (a map
			// holding the system fonts reads faces from disk, which is expensive)
			at := rapid.IntRange(0, len(ops)).Draw(t, "sysat")
			ops = append(ops, Op{})
			copy(ops[at+1:], ops[at:])
			ops[at] = genOp(t, pool, kFmSystem, pick())
		}
		p.Goroutines[g] = ops
	}
	return p
}

// ---- tests ----

func TestPropSharedFont(t *testing.T) {
	cands, err := candidatePools()
	if err != nil {
		fmt.Fprintln(os.Stderr, "INFRASTRUCTURE:", err)
		os.Exit(3)
	}
	for si, list := range cands {
		var names []string
		for _, pf := range list {
			names = append(names, fmt.Sprintf("%s (%d glyphs, %dK)", filepath.Base(pf.File), pf.nGlyphs, len(pf.data)>>10))
		}
		ev.Note("candidates %s: %s", strata[si].kind, strings.Join(names, "; "))
	}
	rapid.Check(t, func(t *rapid.T) {
		p := genProgram(t, cands)
		record(p)
		checkProgram(t, p)
	})
}

// A failure that depends on the schedule, or on who touches lazily initialised package-level state
// first, gets several chances: the program is re-run in replayProcesses fresh processes (only the
// first run of a process can be the first to touch package-level state), replayRuns times in each.
const (
	replayProcesses = 8
	replayRuns      = 3
	replayChildEnv  = "C17_REPLAY_CHILD"
)

func loadProgram(t *testing.T, path string) Program {
	check, raw, err := ev.LoadReplay(path)
	if err != nil {
		t.Fatalf("cannot load replay %s: %v", path, err)
	}
	if check != "program" {
		t.Fatalf("replay %s: unknown check %q", path, check)
	}
	var p Program
	if err := json.Unmarshal(raw, &p); err != nil {
		t.Fatalf("replay %s: cannot decode the program: %v", path, err)
	}
	return p
}

func replayFile(t *testing.T, path string) {
	if check, raw, err := ev.LoadReplay(path); err == nil && check == "unit" {
		// a first-touch unit: its child process, several times
		var u unit
		if err := json.Unmarshal(raw, &u); err != nil {
			t.Fatalf("replay %s: cannot decode the unit: %v", path, err)
		}
		exe, _ := os.Executable()
		for i := 0; i < replayProcesses; i++ {
			cmd := exec.Command(exe, "-test.run", "^TestFirstTouchChild$", "-test.timeout", "240s")
			cmd.Env = append(os.Environ(), unitEnv+"="+string(raw), "VERIF_OUT=", cacheDirEnv+"="+fontIndexDir)
			if outp, err := cmd.CombinedOutput(); err != nil {
				if len(outp) > 2200 {
					outp = outp[:2200]
				}
				ev.Fail(t, "unit", u, "first-touch process failed again (%v):\n%s", err, outp)
			}
		}
		return
	}
	p := loadProgram(t, path)
	if os.Getenv(replayChildEnv) != "" {
		// a reported race ends the process with exit code 66, a differing result fails the test
		for i := 0; i < replayRuns; i++ {
			checkProgram(t, p)
		}
		return
	}
	exe, err := os.Executable()
	if err != nil {
		t.Fatalf("INFRASTRUCTURE: %v", err)
	}
	abs, _ := filepath.Abs(path)
	for i := 0; i < replayProcesses; i++ {
		cmd := exec.Command(exe, "-test.run", "^TestReplay$", "-test.timeout", "120s")
		// the child neither journals nor writes counters: this process reports its failure
		cmd.Env = append(os.Environ(), replayChildEnv+"=1", "VERIF_REPLAY="+abs, "VERIF_OUT=", cacheDirEnv+"="+fontIndexDir)
		outp, err := cmd.CombinedOutput()
		if err != nil {
			if len(outp) > 2200 { // the head of a race report names the two conflicting accesses
				outp = outp[:2200]
			}
			ev.Fail(t, "program", p, "replay of %s failed in fresh process %d of %d (%v):\n%s", filepath.Base(path), i+1, replayProcesses, err, outp)
		}
	}
}

func TestReplay(t *testing.T) {
	if p := ev.ReplayPath(); p != "" {
		replayFile(t, p)
		return
	}
	dir := os.Getenv("VERIF_REPLAY_DIR")
	if dir == "" {
		return
	}
	files, _ := filepath.Glob(filepath.Join(dir, "*.json"))
	sort.Strings(files)
	for _, f := range files {
		replayFile(t, f)
	}
}
