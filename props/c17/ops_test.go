package c17

import (
	"bytes"
	"encoding/binary"
	"fmt"
	"hash/fnv"
	"math"
	"os"
	"path/filepath"
	"strconv"

	"github.com/go-text/typesetting/di"
	"github.com/go-text/typesetting/font"
	ot "github.com/go-text/typesetting/font/opentype"
	"github.com/go-text/typesetting/fontscan"
	"github.com/go-text/typesetting/harfbuzz"
	"github.com/go-text/typesetting/language"
	"github.com/go-text/typesetting/shaping"
	"golang.org/x/image/math/fixed"
)

// ---- the program (decoded, JSON-able) ----

type Var struct {
	Tag   string  `json:"tag"`
	Value float32 `json:"value"`
}

type Feat struct {
	Tag   string `json:"tag"`
	Value uint32 `json:"value"`
	Start int    `json:"start,omitempty"` // cluster range of the feature ("probe" only);
	End   int    `json:"end,omitempty"`   // End <= 0: to the end of the buffer
}

// Op is one operation of one goroutine. F indexes Program.Pool. Y is the scheduling action taken
// just before the operation in the concurrent run (0 none, 1 Gosched, 2 three Gosched, 3 sleep
// 1µs, 4 sleep 20µs). The meaning of the other fields depends on K (see exec).
type Op struct {
	K       string   `json:"k"`
	F       int      `json:"f"`
	Y       int      `json:"y,omitempty"`
	G       []uint32 `json:"g,omitempty"`      // glyph ids
	R       []rune   `json:"r,omitempty"`      // text, as code points
	V       []Var    `json:"v,omitempty"`      // variations (design units)
	Feat    []Feat   `json:"feat,omitempty"`   // font features
	Dir     int      `json:"dir,omitempty"`    // 0 LTR 1 RTL 2 TTB 3 BTT; +4: sideways (vertical only)
	Script  string   `json:"script,omitempty"` // ISO 15924 tag, "" = unset
	Lang    string   `json:"lang,omitempty"`
	Size    int      `json:"size,omitempty"` // fixed.Int26_6 raw value
	A       int      `json:"a,omitempty"`
	B       int      `json:"b,omitempty"`
	Fam     []string `json:"fam,omitempty"`
	Style   int      `json:"style,omitempty"`
	Weight  float32  `json:"weight,omitempty"`
	Stretch float32  `json:"stretch,omitempty"`
	Fonts   []int    `json:"fonts,omitempty"` // pool indexes (fixed font list of "split")
	Dmg     []Damage `json:"dmg,omitempty"`   // damaged variants of the font file ("parsedamaged")
	Mut     int      `json:"mut,omitempty"`   // "outline": what the goroutine does, in place, to the outline it received (1 Sideways(Size), 2 move the points, 3 wipe)
	Ptem    float32  `json:"ptem,omitempty"`  // point size of the hb font ("probe": AAT tracking)
	Flags   int      `json:"flags,omitempty"` // harfbuzz.ShappingOptions of "hbshape"
	Level   int      `json:"level,omitempty"` // harfbuzz.ClusterLevel of "hbshape"
}

// Edit overwrites one byte of a font file.
type Edit struct {
	Off int `json:"off"` // relative to the start of the table (of the file when Table is "")
	Val int `json:"val"`
}

// Damage describes one deterministic damaged variant of a pool font file: the table directory
// entry of Table gets the length Trunc (when Trunc > 0: the table is cut short), the bytes of Edits
// are overwritten inside the table body, and the file is cut to FileLen bytes (when FileLen > 0).
type Damage struct {
	Table   string `json:"table,omitempty"`
	Trunc   int    `json:"trunc,omitempty"`
	Edits   []Edit `json:"edits,omitempty"`
	FileLen int    `json:"filelen,omitempty"`
}

// Program is one generated case: the pool of shared fonts, GOMAXPROCS, operations run by the test
// goroutine before the others start (loading fonts, also damaged ones: what an application does
// when it scans a font directory), and one operation list per goroutine.
type Program struct {
	Procs      int         `json:"procs"`
	Pool       []PoolEntry `json:"pool"`
	Prologue   []Op        `json:"prologue,omitempty"`
	Goroutines [][]Op      `json:"goroutines"`
}

// Operation kinds.
const (
	kNewFace   = "newface"      // font.NewFace on the shared font
	kSetVar    = "setvar"       // Face.SetVariations on the goroutine's own face
	kNominal   = "nominal"      // NominalGlyph / VariationGlyph
	kAdvance   = "advance"      // HorizontalAdvance, VerticalAdvance, glyph origins
	kExtents   = "extents"      // Face.GlyphExtents (decodes the outline; cached on the own face)
	kOutline   = "outline"      // Face.GlyphData
	kName      = "name"         // GlyphName
	kMeta      = "meta"         // Describe, IsMonospace, Upem, BitmapSizes, cmap iteration, NormalizeVariations
	kFontExt   = "fontext"      // FontHExtents, FontVExtents, LineMetric
	kHbShape   = "hbshape"      // own harfbuzz.Font (NewFont on first use) + own Buffer.Shape
	kHbFont    = "hbfont"       // harfbuzz.NewFont + font queries
	kShape     = "shape"        // own shaping.HarfbuzzShaper.Shape
	kSplit     = "split"        // own shaping.Segmenter.Split (+ shape every run when B=1)
	kFmAdd     = "fmadd"        // own fontscan.FontMap.AddFace (own face wrapping the shared font)
	kFmQuery   = "fmquery"      // FontMap.SetQuery / SetScript
	kFmResolve = "fmresolve"    // FontMap.ResolveFace / FontLocation / FontMetadata
	kFmSystem  = "fmsystem"     // FontMap.UseSystemFonts ("multiple font maps may call this method concurrently")
	kProbe     = "probe"        // Buffer.Shape with a fresh face (V: variations), hb font and buffer: the plan is compiled each time
	kParse     = "parse"        // font.ParseTTC of the pool font's file, inside the goroutine
	kParseDmg  = "parsedamaged" // font.ParseTTC of damaged variants of the pool font's file (error paths)
)

// heavy reports whether an operation of this kind decodes outlines or shapes (non-triviality rule).
func heavy(op Op) bool {
	switch op.K {
	case kExtents, kOutline, kHbShape, kShape, kProbe:
		return true
	case kSplit:
		return op.B == 1
	}
	return false
}

// ---- per-goroutine state: everything the documentation says is NOT safe for concurrent use ----

// fontIndexDir is where UseSystemFonts keeps its index: the directory given by a replaying parent
// process, else inside the shard's output directory, else a fresh temporary directory. It is set
// by TestMain, before any goroutine exists, and only read afterwards (no synchronisation that
// could order the goroutines of a program).
var fontIndexDir string

func initFontIndexDir() {
	switch {
	case os.Getenv(cacheDirEnv) != "":
		fontIndexDir = os.Getenv(cacheDirEnv)
	case os.Getenv("VERIF_OUT") != "":
		fontIndexDir = filepath.Join(os.Getenv("VERIF_OUT"), "fontindex")
	default:
		fontIndexDir, _ = os.MkdirTemp("", "c17-fontindex")
	}
	os.MkdirAll(fontIndexDir, 0o755)
}

const cacheDirEnv = "C17_FONT_INDEX_DIR"

type silentLogger struct{}

func (silentLogger) Printf(string, ...interface{}) {}

type gstate struct {
	pool    []*font.Font // shared (*font.Font is documented as safe for concurrent use)
	entries []PoolEntry
	data    [][]byte // the font files (read-only)
	naxes   []int    // number of variation axes of each pool font (read-only)

	faces   []*font.Face     // own faces, one slot per pool font
	used    []bool           // the own face has been handed to an hb font / shaper / font map
	hbFonts []*harfbuzz.Font // own hb fonts, one slot per pool font
	buf     *harfbuzz.Buffer
	shaper  *shaping.HarfbuzzShaper
	seg     *shaping.Segmenter
	fm      *fontscan.FontMap
	fmFaces int
}

func newState(pool []*font.Font, entries []PoolEntry, naxes []int, data [][]byte) *gstate {
	st := &gstate{pool: pool, entries: entries, naxes: naxes, data: data}
	st.reset()
	return st
}

// reset drops every own object (also used after a recovered panic, whose victim may be left in an
// arbitrary state).
func (st *gstate) reset() {
	st.faces = make([]*font.Face, len(st.pool))
	st.used = make([]bool, len(st.pool))
	st.hbFonts = make([]*harfbuzz.Font, len(st.pool))
	st.buf = nil
	st.shaper = &shaping.HarfbuzzShaper{}
	st.seg = &shaping.Segmenter{}
	st.fm = nil
	st.fmFaces = 0
}

func (st *gstate) face(f int) *font.Face {
	if st.faces[f] == nil {
		st.faces[f] = font.NewFace(st.pool[f])
		st.used[f] = false
	}
	return st.faces[f]
}

func (st *gstate) hbFont(f int) *harfbuzz.Font {
	if st.hbFonts[f] == nil {
		st.hbFonts[f] = harfbuzz.NewFont(st.face(f))
		st.used[f] = true
	}
	return st.hbFonts[f]
}

func (st *gstate) fontMap() *fontscan.FontMap {
	if st.fm == nil {
		st.fm = fontscan.NewFontMap(silentLogger{})
		st.fmFaces = 0
	}
	return st.fm
}

func (st *gstate) addToFontMap(f int, family string, aspect *font.Aspect) {
	fm := st.fontMap()
	face := st.face(f)
	st.used[f] = true
	md := face.Describe()
	if family != "" {
		md.Family = family
	}
	if aspect != nil { // the caller's own description of this face (an instance, a synthetic bold …)
		md.Aspect = *aspect
	}
	fm.AddFace(face, fontscan.Location{File: st.entries[f].File, Index: uint16(st.entries[f].Index), Instance: uint16(st.fmFaces)}, md)
	st.fmFaces++
}

// poolIndex maps a face back to the pool (results must not contain addresses).
func (st *gstate) poolIndex(face *font.Face) int {
	if face == nil {
		return -1
	}
	for i, ft := range st.pool {
		if ft == face.Font {
			return i
		}
	}
	return -2
}

// fixedFontmap is the simplest shaping.Fontmap: the first own face mapping the rune.
type fixedFontmap []*font.Face

func (ff fixedFontmap) ResolveFace(r rune) *font.Face {
	for _, f := range ff {
		if _, has := f.NominalGlyph(r); has {
			return f
		}
	}
	return ff[0]
}

// ---- result serialisation ----

type out struct{ b []byte }

func (o *out) s(v string)  { o.b = append(o.b, v...); o.b = append(o.b, ' ') }
func (o *out) i(v int64)   { o.b = strconv.AppendInt(o.b, v, 10); o.b = append(o.b, ' ') }
func (o *out) u(v uint64)  { o.b = strconv.AppendUint(o.b, v, 10); o.b = append(o.b, ' ') }
func (o *out) x(v uint64)  { o.b = strconv.AppendUint(o.b, v, 16); o.b = append(o.b, ' ') }
func (o *out) f(v float32) { o.x(uint64(math.Float32bits(v))) }
func (o *out) t(v bool) {
	if v {
		o.b = append(o.b, 'T', ' ')
	} else {
		o.b = append(o.b, 'F', ' ')
	}
}

func hashBytes(b []byte) uint64 {
	h := fnv.New64a()
	h.Write(b)
	return h.Sum64()
}

func (o *out) outline(ol font.GlyphOutline) {
	h := fnv.New64a()
	var tmp [9]byte
	for _, s := range ol.Segments {
		tmp[0] = byte(s.Op)
		h.Write(tmp[:1])
		for _, p := range s.ArgsSlice() {
			x, y := math.Float32bits(p.X), math.Float32bits(p.Y)
			tmp[1], tmp[2], tmp[3], tmp[4] = byte(x), byte(x>>8), byte(x>>16), byte(x>>24)
			tmp[5], tmp[6], tmp[7], tmp[8] = byte(y), byte(y>>8), byte(y>>16), byte(y>>24)
			h.Write(tmp[1:])
		}
	}
	o.s("segs")
	o.i(int64(len(ol.Segments)))
	o.x(h.Sum64())
}

func (o *out) glyphData(gd font.GlyphData) {
	switch gd := gd.(type) {
	case nil:
		o.s("none")
	case font.GlyphOutline:
		o.outline(gd)
	case font.GlyphBitmap:
		o.s("bitmap")
		o.i(int64(gd.Format))
		o.i(int64(gd.Width))
		o.i(int64(gd.Height))
		o.i(int64(len(gd.Data)))
		o.x(hashBytes(gd.Data))
		if gd.Outline != nil {
			o.outline(*gd.Outline)
		}
	case font.GlyphSVG:
		o.s("svg")
		o.i(int64(len(gd.Source)))
		o.x(hashBytes(gd.Source))
		o.outline(gd.Outline)
	default:
		o.s(fmt.Sprintf("%T", gd))
	}
}

// mutateOutline modifies, in place, the outline part of a glyph the caller received. (The byte
// slices of bitmap and SVG glyphs are left alone: in the library under test they are
// views of the font's tables.)
func mutateOutline(gd font.GlyphData, kind int, off float32) {
	var ol font.GlyphOutline
	switch gd := gd.(type) {
	case font.GlyphOutline:
		ol = gd
	case font.GlyphBitmap:
		if gd.Outline == nil {
			return
		}
		ol = *gd.Outline
	case font.GlyphSVG:
		ol = gd.Outline
	default:
		return
	}
	switch kind {
	case 1:
		ol.Sideways(off)
	case 2:
		for i := range ol.Segments {
			for j := range ol.Segments[i].Args {
				ol.Segments[i].Args[j].X += 1000
				ol.Segments[i].Args[j].Y = -ol.Segments[i].Args[j].Y
			}
		}
	case 3:
		for i := range ol.Segments {
			ol.Segments[i] = font.Segment{}
		}
	}
}

// loaded writes the signature of a load: the error, or a few facts about every face (the glyphs
// of gids are decoded through the new face, which nobody else knows).
func (o *out) loaded(faces []*font.Face, err error, gids []uint32) {
	if err != nil {
		o.s("error")
		o.s(strconv.Quote(err.Error()))
		return
	}
	o.s("ok")
	o.i(int64(len(faces)))
	for _, face := range faces {
		d := face.Describe()
		o.s(strconv.Quote(d.Family))
		o.u(uint64(face.Upem()))
		o.i(int64(len(face.GSUB.Lookups)))
		o.i(int64(len(face.GPOS.Lookups)))
		o.i(int64(len(face.Morx)))
		o.t(face.HasVerticalMetrics())
		g, ok := face.NominalGlyph('a')
		o.u(uint64(g))
		o.t(ok)
		for _, g := range gids {
			o.f(face.HorizontalAdvance(font.GID(g)))
			e, ok := face.GlyphExtents(font.GID(g))
			o.t(ok)
			o.f(e.XBearing)
			o.f(e.YBearing)
			o.f(e.Width)
			o.f(e.Height)
			o.glyphData(face.GlyphData(font.GID(g)))
		}
	}
}

// applyDamage returns the damaged variant of a font file (always a copy).
func applyDamage(data []byte, d Damage) []byte {
	c := append([]byte(nil), data...)
	base, limit := 0, len(c)
	if d.Table != "" {
		base, limit = -1, 0
		if sfntDirectory(c) != nil {
			n := int(binary.BigEndian.Uint16(c[4:]))
			for i := 0; i < n; i++ {
				rec := c[12+16*i:]
				if string(rec[:4]) != d.Table {
					continue
				}
				base, limit = int(binary.BigEndian.Uint32(rec[8:])), int(binary.BigEndian.Uint32(rec[12:]))
				if d.Trunc > 0 && d.Trunc < limit {
					binary.BigEndian.PutUint32(rec[12:], uint32(d.Trunc))
				}
				break
			}
		}
	}
	if base >= 0 {
		for _, e := range d.Edits {
			if e.Off >= 0 && e.Off < limit && base+e.Off < len(c) {
				c[base+e.Off] = byte(e.Val)
			}
		}
	}
	if d.FileLen > 0 && d.FileLen < len(c) {
		c = c[:d.FileLen]
	}
	return c
}

func (o *out) shapingOutput(st *gstate, res shaping.Output) {
	o.i(int64(res.Advance))
	o.i(int64(res.Size))
	o.i(int64(res.LineBounds.Ascent))
	o.i(int64(res.LineBounds.Descent))
	o.i(int64(res.LineBounds.Gap))
	o.i(int64(res.GlyphBounds.Ascent))
	o.i(int64(res.GlyphBounds.Descent))
	o.i(int64(res.GlyphBounds.Gap))
	o.i(int64(res.Direction))
	o.i(int64(res.Runes.Offset))
	o.i(int64(res.Runes.Count))
	o.i(int64(st.poolIndex(res.Face)))
	o.i(int64(len(res.Glyphs)))
	for _, g := range res.Glyphs {
		o.u(uint64(g.GlyphID))
		o.i(int64(g.ClusterIndex))
		o.i(int64(g.RuneCount))
		o.i(int64(g.GlyphCount))
		o.x(uint64(g.Mask))
		o.i(int64(g.Width))
		o.i(int64(g.Height))
		o.i(int64(g.XBearing))
		o.i(int64(g.YBearing))
		o.i(int64(g.XAdvance))
		o.i(int64(g.YAdvance))
		o.i(int64(g.XOffset))
		o.i(int64(g.YOffset))
	}
}

// ---- decoding of op fields ----

func direction(d int) di.Direction {
	dir := di.Direction(d & 3)
	if d&4 != 0 && dir.IsVertical() {
		dir.SetSideways(true)
	}
	return dir
}

func hbDirection(d int) harfbuzz.Direction { return di.Direction(d & 3).Harfbuzz() }

func script(s string) language.Script {
	if s == "" {
		return 0
	}
	sc, err := language.ParseScript(s)
	if err != nil {
		return 0
	}
	return sc
}

func tag(s string) ot.Tag {
	var b [4]byte
	copy(b[:], "    ")
	copy(b[:], s)
	return ot.NewTag(b[0], b[1], b[2], b[3])
}

func clampRange(a, b, n int) (start, end int) {
	if a < 0 {
		a = 0
	}
	if a > n {
		a = n
	}
	if b < a {
		b = a
	}
	if b > n {
		b = n
	}
	return a, b
}

// ---- the interpreter ----

// exec runs one operation on the goroutine's own state and returns the serialised result. A panic
// of the code under test is recorded as the result "panic" (totality is the business of other
// properties; here only the difference between the concurrent and the solitary run matters).
func (st *gstate) exec(op Op) (res []byte, panicMsg string) {
	defer func() {
		if r := recover(); r != nil {
			res = []byte("panic")
			panicMsg = fmt.Sprint(r)
			st.reset()
		}
	}()
	if op.F < 0 || op.F >= len(st.pool) {
		return []byte("badfont"), ""
	}
	var o out
	f := op.F
	switch op.K {
	case kNewFace:
		st.faces[f] = font.NewFace(st.pool[f])
		st.used[f] = false
		st.hbFonts[f] = nil
		face := st.faces[f]
		o.u(uint64(face.Upem()))
		o.i(int64(len(face.Coords())))
		x, y := face.Ppem()
		o.u(uint64(x))
		o.u(uint64(y))

	case kSetVar:
		// harfbuzz.NewFont documents that the face must not be modified after the call, so a
		// face that has been handed out is replaced by a new one rather than modified.
		if st.faces[f] == nil || st.used[f] {
			st.faces[f] = font.NewFace(st.pool[f])
			st.used[f] = false
			st.hbFonts[f] = nil
		}
		face := st.faces[f]
		if op.A != 0 || op.B != 0 {
			face.SetPpem(uint16(op.A), uint16(op.B))
		}
		vars := make([]font.Variation, len(op.V))
		for i, v := range op.V {
			vars[i] = font.Variation{Tag: tag(v.Tag), Value: v.Value}
		}
		face.SetVariations(vars)
		px, py := face.Ppem()
		o.u(uint64(px))
		o.u(uint64(py))
		for _, c := range face.Coords() {
			o.i(int64(c))
		}
		for _, g := range op.G { // the extents cache of the own face must follow
			e, ok := face.GlyphExtents(font.GID(g))
			o.t(ok)
			o.f(e.XBearing)
			o.f(e.YBearing)
			o.f(e.Width)
			o.f(e.Height)
		}

	case kNominal:
		ft := st.pool[f] // methods of *font.Font need no face at all
		for _, r := range op.R {
			g, ok := ft.NominalGlyph(r)
			o.u(uint64(g))
			o.t(ok)
			g, ok = ft.VariationGlyph(r, rune(op.A))
			o.u(uint64(g))
			o.t(ok)
		}

	case kAdvance:
		face := st.face(f)
		for _, g := range op.G {
			o.f(face.HorizontalAdvance(font.GID(g)))
			o.f(face.VerticalAdvance(font.GID(g)))
			x, y, ok := face.GlyphHOrigin(font.GID(g))
			o.i(int64(x))
			o.i(int64(y))
			o.t(ok)
			x, y, ok = face.GlyphVOrigin(font.GID(g))
			o.i(int64(x))
			o.i(int64(y))
			o.t(ok)
		}

	case kExtents:
		face := st.face(f)
		for _, g := range op.G {
			e, ok := face.GlyphExtents(font.GID(g))
			o.t(ok)
			o.f(e.XBearing)
			o.f(e.YBearing)
			o.f(e.Width)
			o.f(e.Height)
			x, y, ok := face.GetGlyphContourPoint(font.GID(g), uint16(op.A))
			o.i(int64(x))
			o.i(int64(y))
			o.t(ok)
		}

	case kOutline:
		// What GlyphData returns is the caller's: the result is recorded first, then the
		// goroutine may modify the outline it received in place (as a renderer does with
		// GlyphOutline.Sideways). Nobody else, and no later query, may see that.
		face := st.face(f)
		for _, g := range op.G {
			gd := face.GlyphData(font.GID(g))
			o.glyphData(gd)
			mutateOutline(gd, op.Mut, float32(op.Size))
		}
		if len(op.G) > 0 { // and the A glyphs that follow the first one (a run of text being rendered)
			for i := 1; i <= op.A; i++ {
				gd := face.GlyphData(font.GID(op.G[0]) + font.GID(i))
				o.glyphData(gd)
				mutateOutline(gd, op.Mut, float32(op.Size))
			}
		}

	case kParse:
		faces, err := font.ParseTTC(bytes.NewReader(st.data[f]))
		o.loaded(faces, err, op.G)

	case kParseDmg:
		for _, d := range op.Dmg {
			faces, err := font.ParseTTC(bytes.NewReader(applyDamage(st.data[f], d)))
			o.loaded(faces, err, op.G)
		}

	case kName:
		ft := st.pool[f]
		for _, g := range op.G {
			o.s(strconv.Quote(ft.GlyphName(font.GID(g))))
		}

	case kMeta:
		ft := st.pool[f]
		d := ft.Describe()
		o.s(strconv.Quote(d.Family))
		o.i(int64(d.Aspect.Style))
		o.f(float32(d.Aspect.Weight))
		o.f(float32(d.Aspect.Stretch))
		o.t(ft.IsMonospace())
		o.u(uint64(ft.Upem()))
		o.t(ft.HasVerticalMetrics())
		for _, bs := range ft.BitmapSizes() {
			o.u(uint64(bs.Height))
			o.u(uint64(bs.Width))
			o.u(uint64(bs.XPpem))
			o.u(uint64(bs.YPpem))
		}
		if ft.Cmap != nil {
			// The order of iteration is not specified (some cmaps range over a Go map): the
			// result is the number of entries and an order-independent digest of all of them.
			it := ft.Cmap.Iter()
			var n, sum, xor uint64
			for n < 200000 && it.Next() {
				r, g := it.Char()
				h := (uint64(uint32(r))<<32 | uint64(g)) * 0x9E3779B97F4A7C15
				h ^= h >> 29
				sum += h
				xor ^= h
				n++
			}
			o.u(n)
			o.x(sum)
			o.x(xor)
		}
		// NormalizeVariations documents that it panics unless given one value per axis
		design := make([]float32, st.naxes[f])
		for i := range design {
			if len(op.V) > 0 {
				design[i] = op.V[i%len(op.V)].Value
			}
		}
		for _, c := range ft.NormalizeVariations(design) {
			o.i(int64(c))
		}

	case kFontExt:
		face := st.face(f)
		e, ok := face.FontHExtents()
		o.t(ok)
		o.f(e.Ascender)
		o.f(e.Descender)
		o.f(e.LineGap)
		e, ok = face.FontVExtents()
		o.t(ok)
		o.f(e.Ascender)
		o.f(e.Descender)
		o.f(e.LineGap)
		for m := font.UnderlinePosition; m <= font.XHeight; m++ {
			o.f(face.LineMetric(m))
		}

	case kHbShape:
		hf := st.hbFont(f)
		if st.buf == nil {
			st.buf = harfbuzz.NewBuffer()
		} else {
			st.buf.Clear()
		}
		b := st.buf
		start, end := clampRange(op.A, op.B, len(op.R))
		b.AddRunes(op.R, start, end-start)
		b.Props.Direction = hbDirection(op.Dir)
		b.Props.Script = script(op.Script)
		b.Props.Language = language.NewLanguage(op.Lang)
		if op.Script == "" {
			b.Props.Direction = 0
			b.GuessSegmentProperties()
		}
		b.Flags = harfbuzz.ShappingOptions(op.Flags)
		b.ClusterLevel = harfbuzz.ClusterLevel(op.Level)
		feats := make([]harfbuzz.Feature, len(op.Feat))
		for i, ft := range op.Feat {
			feats[i] = harfbuzz.Feature{Tag: tag(ft.Tag), Value: ft.Value, Start: harfbuzz.FeatureGlobalStart, End: harfbuzz.FeatureGlobalEnd}
		}
		b.Shape(hf, feats)
		o.i(int64(len(b.Info)))
		for i, info := range b.Info {
			o.u(uint64(info.Glyph))
			o.i(int64(info.Cluster))
			o.x(uint64(info.Mask))
			p := b.Pos[i]
			o.i(int64(p.XAdvance))
			o.i(int64(p.YAdvance))
			o.i(int64(p.XOffset))
			o.i(int64(p.YOffset))
		}

	case kProbe:
		// Everything fresh, as in a program that shapes one string: new face on the shared font,
		// variations, hb font, buffer; Dir is a harfbuzz.Direction here (4 LTR, 5 RTL, 6 TTB, 7 BTT).
		face := font.NewFace(st.pool[f])
		if len(op.V) > 0 {
			vars := make([]font.Variation, len(op.V))
			for i, v := range op.V {
				vars[i] = font.Variation{Tag: tag(v.Tag), Value: v.Value}
			}
			face.SetVariations(vars)
		}
		hf := harfbuzz.NewFont(face)
		hf.Ptem = op.Ptem
		b := harfbuzz.NewBuffer()
		b.AddRunes(op.R, 0, -1)
		b.Props.Direction = harfbuzz.Direction(op.Dir)
		b.Props.Script = script(op.Script)
		b.Props.Language = language.NewLanguage(op.Lang)
		if op.Dir == 0 || op.Script == "" {
			b.GuessSegmentProperties()
		}
		feats := make([]harfbuzz.Feature, len(op.Feat))
		for i, ft := range op.Feat {
			feats[i] = harfbuzz.Feature{Tag: tag(ft.Tag), Value: ft.Value, Start: ft.Start, End: ft.End}
			if ft.End <= 0 {
				feats[i].End = harfbuzz.FeatureGlobalEnd
			}
		}
		b.Shape(hf, feats)
		o.i(int64(len(b.Info)))
		for i, info := range b.Info {
			o.u(uint64(info.Glyph))
			o.i(int64(info.Cluster))
			o.x(uint64(info.Mask))
			p := b.Pos[i]
			o.i(int64(p.XAdvance))
			o.i(int64(p.YAdvance))
			o.i(int64(p.XOffset))
			o.i(int64(p.YOffset))
		}

	case kHbFont:
		st.hbFonts[f] = harfbuzz.NewFont(st.face(f))
		st.used[f] = true
		hf := st.hbFonts[f]
		hf.XScale, hf.YScale = int32(op.Size), int32(op.Size)
		for _, g := range op.G {
			e, ok := hf.GlyphExtents(font.GID(g))
			o.t(ok)
			o.i(int64(e.XBearing))
			o.i(int64(e.YBearing))
			o.i(int64(e.Width))
			o.i(int64(e.Height))
			o.i(int64(hf.GlyphHAdvance(font.GID(g))))
			x, y := hf.GlyphAdvanceForDirection(font.GID(g), hbDirection(op.Dir))
			o.i(int64(x))
			o.i(int64(y))
			for _, c := range hf.GetOTLigatureCarets(hbDirection(op.Dir), font.GID(g)) {
				o.i(int64(c))
			}
		}
		e := hf.ExtentsForDirection(hbDirection(op.Dir))
		o.f(e.Ascender)
		o.f(e.Descender)
		o.f(e.LineGap)
		// restore the default scale: the hb font is kept for later "hbshape" operations
		hf.XScale, hf.YScale = int32(hf.Face().Upem()), int32(hf.Face().Upem())

	case kShape:
		face := st.face(f)
		st.used[f] = true
		start, end := clampRange(op.A, op.B, len(op.R))
		in := shaping.Input{
			Text: op.R, RunStart: start, RunEnd: end, Direction: direction(op.Dir), Face: face,
			Size: fixed.Int26_6(op.Size), Script: script(op.Script), Language: language.NewLanguage(op.Lang),
		}
		for _, ft := range op.Feat {
			in.FontFeatures = append(in.FontFeatures, shaping.FontFeature{Tag: tag(ft.Tag), Value: ft.Value})
		}
		o.shapingOutput(st, st.shaper.Shape(in))

	case kSplit:
		var fmap shaping.Fontmap
		if op.A == 1 {
			if st.fmFaces == 0 {
				st.addToFontMap(f, "", nil)
			}
			fmap = st.fontMap()
		} else {
			ff := fixedFontmap{st.face(f)}
			st.used[f] = true
			for _, i := range op.Fonts {
				if i >= 0 && i < len(st.pool) {
					ff = append(ff, st.face(i))
					st.used[i] = true
				}
			}
			fmap = ff
		}
		in := shaping.Input{
			Text: op.R, RunStart: 0, RunEnd: len(op.R), Direction: direction(op.Dir),
			Size: fixed.Int26_6(op.Size), Script: script(op.Script), Language: language.NewLanguage(op.Lang),
		}
		runs := st.seg.Split(in, fmap)
		o.i(int64(len(runs)))
		for _, r := range runs {
			o.i(int64(r.RunStart))
			o.i(int64(r.RunEnd))
			o.i(int64(r.Direction))
			o.s(r.Script.String())
			o.s(strconv.Quote(string(r.Language)))
			o.i(int64(st.poolIndex(r.Face)))
		}
		if op.B == 1 {
			for _, r := range runs {
				if r.Face == nil {
					continue
				}
				o.shapingOutput(st, st.shaper.Shape(r))
			}
		}

	case kFmAdd:
		fam := ""
		if len(op.Fam) > 0 {
			fam = op.Fam[0]
		}
		var aspect *font.Aspect
		if op.B == 1 {
			aspect = &font.Aspect{Style: font.Style(op.Style), Weight: font.Weight(op.Weight), Stretch: font.Stretch(op.Stretch)}
		}
		st.addToFontMap(f, fam, aspect)
		o.i(int64(st.fmFaces))
		// what the map now says about the font
		ft := st.pool[f]
		loc := st.fm.FontLocation(ft)
		o.s(strconv.Quote(loc.File))
		o.u(uint64(loc.Instance))
		family, asp := st.fm.FontMetadata(ft)
		o.s(strconv.Quote(family))
		o.i(int64(asp.Style))
		o.f(float32(asp.Weight))
		o.f(float32(asp.Stretch))

	case kFmQuery:
		fm := st.fontMap()
		fm.SetQuery(fontscan.Query{Families: op.Fam, Aspect: font.Aspect{Style: font.Style(op.Style), Weight: font.Weight(op.Weight), Stretch: font.Stretch(op.Stretch)}})
		if op.A == 1 {
			fm.SetScript(script(op.Script))
		}
		o.s("ok")

	case kFmResolve:
		if st.fmFaces == 0 {
			st.addToFontMap(f, "", nil)
		}
		fm := st.fontMap()
		for _, r := range op.R {
			face := fm.ResolveFace(r)
			o.i(int64(st.poolIndex(face)))
			if face != nil {
				loc := fm.FontLocation(face.Font)
				o.s(strconv.Quote(loc.File))
				o.u(uint64(loc.Index))
				o.u(uint64(loc.Instance))
				fam, asp := fm.FontMetadata(face.Font)
				o.s(strconv.Quote(fam))
				o.i(int64(asp.Style))
				o.f(float32(asp.Weight))
				o.f(float32(asp.Stretch))
			}
		}
		if op.A == 1 {
			if id, ok := language.NewLangID(language.NewLanguage(op.Lang)); ok {
				o.i(int64(st.poolIndex(fm.ResolveFaceForLang(id))))
			}
		}
		for _, fam := range op.Fam {
			loc, ok := fm.FindSystemFont(fam)
			o.t(ok)
			o.s(strconv.Quote(loc.File))
			o.i(int64(len(fm.FindSystemFonts(fam))))
		}

	case kFmSystem:
		// The scan runs once per process (sync.Once) and only its first caller is told about
		// a failure, so the returned error is not part of the result; what the map resolves
		// afterwards is.
		_ = st.fontMap().UseSystemFonts(fontIndexDir)
		o.s("called")
		for _, r := range op.R {
			face := st.fm.ResolveFace(r)
			o.i(int64(st.poolIndex(face)))
			if face != nil {
				loc := st.fm.FontLocation(face.Font)
				o.s(strconv.Quote(loc.File))
				o.u(uint64(loc.Index))
			}
		}

	default:
		o.s("unknown-op")
	}
	return o.b, ""
}
