package c17

import (
	"bytes"
	"encoding/binary"
	"encoding/json"
	"fmt"
	"hash/fnv"
	"os"
	"sort"
	"strings"
	"sync"

	"github.com/go-text/typesetting/font"
	ot "github.com/go-text/typesetting/font/opentype"
	"github.com/go-text/typesetting/font/opentype/tables"
	"github.com/go-text/typesetting/language"

	"verif/internal/corpus"
	"verif/internal/synthfont"
	"verif/internal/textgen"
)

// PoolEntry names one font of a program's shared pool (decoded: corpus-relative path + face
// index), so that a saved program is replayable whatever the selection rule below becomes.
type PoolEntry struct {
	Kind  string `json:"kind"`
	File  string `json:"file,omitempty"`
	Index int    `json:"index,omitempty"`
	// Synth, when set, describes a font built in memory by internal/synthfont (stratum
	// "synthetic"): legal but unusual layout tables that no corpus font has.
	Synth *synthfont.Spec `json:"synth,omitempty"`
}

type axis struct {
	tag           string
	min, def, max float32
}

// tableRec is one record of the sfnt table directory of a pool font file.
type tableRec struct {
	tag      string
	off, len int
}

// poolFont is what the generator and the executor know about one candidate font. Everything here
// is computed once per process by the test goroutine, before any program runs, and is read-only
// afterwards. ref is the reference instance: it is only ever used sequentially.
type poolFont struct {
	PoolEntry
	data     []byte
	ref      *font.Font
	nGlyphs  int
	runes    []rune   // sample of the runes the cmap maps
	scripts  []string // textgen alphabets the font covers well
	iso      []string // ISO 15924 tags of the strong scripts of the sample, most frequent first
	axes     []axis
	family   string
	features []string   // feature tags of the font's own GSUB and GPOS
	langs    []string   // "x-hbsc<script>-hbot<language>": the font's own script/language systems
	tables   []tableRec // nil unless the file is a plain sfnt (single font)
	aat      bool       // has morx/mort/kerx/trak/feat/ankr tables (shaped through the AAT code)
	covered  []rune     // synthetic fonts: the runes the generated lookups cover, and a few others
	other    []rune
}

// stratum is one class of fonts; every program draws its 3–5 shared fonts from different strata.
type stratum struct {
	kind     string
	want     func(tr corpus.Traits) bool
	minRunes int // mapped runes a candidate must have (the few CFF2 fonts of the corpus are toys)
}

var strata = []stratum{
	{"truetype", func(tr corpus.Traits) bool {
		return tr.Glyf && !tr.Fvar && !tr.Morx && !tr.Kerx && !tr.Bitmap && (tr.GSUB || tr.GPOS)
	}, 20},
	{"cff", func(tr corpus.Traits) bool { return tr.CFF && !tr.Fvar }, 20},
	{"cff2", func(tr corpus.Traits) bool { return tr.CFF2 }, 1},
	{"variable", func(tr corpus.Traits) bool { return tr.Glyf && tr.Fvar && !tr.Morx }, 20},
	{"aat", func(tr corpus.Traits) bool { return tr.Morx || tr.Kerx }, 5},
	{"bitmap", func(tr corpus.Traits) bool { return tr.Bitmap || tr.SVG }, 4},
	{"plain", func(tr corpus.Traits) bool {
		return tr.Glyf && !tr.GSUB && !tr.GPOS && !tr.Fvar && !tr.Morx && !tr.Kerx && !tr.Bitmap
	}, 20},
}

const (
	maxPoolFileSize = 800 << 10 // larger files make NewFace / NewFont / AddFace too slow for 64 goroutines under -race
	richPerStratum  = 10        // the fonts with the largest layout tables ...
	smallPerStratum = 4         // ... and the smallest usable ones (cheap, high contention)
)

var (
	poolMu     sync.Mutex
	poolCache  = map[string]*poolFont{} // by "file#index"
	candidates [][]*poolFont            // per stratum; richest first
)

func entryKey(e PoolEntry) string {
	if e.Synth != nil {
		b, _ := json.Marshal(e.Synth)
		return "synthetic:" + string(b)
	}
	return fmt.Sprintf("%s#%d", e.File, e.Index)
}

// synthetic fonts are built on demand; only the most recent ones are kept
const maxSynthCached = 12

var synthKeys []string

// parseFont parses a fresh, independent *font.Font from the bytes of a font file.
func parseFont(data []byte, index int) (ft *font.Font, ld *ot.Loader, err error) {
	defer func() {
		if r := recover(); r != nil {
			err = fmt.Errorf("panic while loading: %v", r)
		}
	}()
	lds, err := ot.NewLoaders(bytes.NewReader(data))
	if err != nil {
		return nil, nil, err
	}
	if index >= len(lds) {
		return nil, nil, fmt.Errorf("no face %d", index)
	}
	ft, err = font.NewFont(lds[index])
	return ft, lds[index], err
}

// sfntDirectory reads the table directory of a plain sfnt file (nil for collections, dfont, woff).
func sfntDirectory(data []byte) []tableRec {
	if len(data) < 12 {
		return nil
	}
	switch binary.BigEndian.Uint32(data) {
	case 0x00010000, 0x4F54544F, 0x74727565, 0x74797031: // 1.0, OTTO, true, typ1
	default:
		return nil
	}
	n := int(binary.BigEndian.Uint16(data[4:]))
	if len(data) < 12+16*n {
		return nil
	}
	out := make([]tableRec, 0, n)
	for i := 0; i < n; i++ {
		rec := data[12+16*i:]
		off, l := int(binary.BigEndian.Uint32(rec[8:])), int(binary.BigEndian.Uint32(rec[12:]))
		if off < 0 || l < 0 || off+l > len(data) {
			continue
		}
		out = append(out, tableRec{tag: string(rec[:4]), off: off, len: l})
	}
	return out
}

func trimTag(t ot.Tag) string { return strings.TrimRight(t.String(), " ") }

func alnum(s string) bool {
	for _, c := range s {
		if !(c >= 'a' && c <= 'z' || c >= 'A' && c <= 'Z' || c >= '0' && c <= '9') {
			return false
		}
	}
	return s != ""
}

// loadEntry builds (once) the poolFont of an entry.
func loadEntry(e PoolEntry) (*poolFont, error) {
	poolMu.Lock()
	defer poolMu.Unlock()
	if pf, ok := poolCache[entryKey(e)]; ok {
		return pf, nil
	}
	var (
		data []byte
		err  error
	)
	if e.Synth != nil {
		data, err = synthfont.Build(*e.Synth)
	} else {
		data, err = corpus.Bytes(e.File)
	}
	if err != nil {
		return nil, err
	}
	ft, ld, err := parseFont(data, e.Index)
	if err != nil {
		return nil, err
	}
	pf := &poolFont{PoolEntry: e, data: data, ref: ft, tables: sfntDirectory(data)}
	if e.Synth != nil {
		pf.covered, pf.other = e.Synth.Letters()
		synthKeys = append(synthKeys, entryKey(e))
		if len(synthKeys) > maxSynthCached {
			delete(poolCache, synthKeys[0])
			synthKeys = synthKeys[1:]
		}
	}
	for _, tg := range []string{"morx", "mort", "kerx", "trak", "feat", "ankr"} {
		pf.aat = pf.aat || ld.HasTable(ot.MustNewTag(tg))
	}
	if raw, err := ld.RawTable(ot.MustNewTag("maxp")); err == nil {
		if maxp, _, err := tables.ParseMaxp(raw); err == nil {
			pf.nGlyphs = int(maxp.NumGlyphs)
		}
	}
	if raw, err := ld.RawTable(ot.MustNewTag("fvar")); err == nil {
		if fv, _, err := tables.ParseFvar(raw); err == nil {
			for _, a := range fv.FvarRecords.Axis {
				pf.axes = append(pf.axes, axis{tag: a.Tag.String(), min: a.Minimum, def: a.Default, max: a.Maximum})
			}
		}
	}
	pf.runes = textgen.FontRunes(ft, 64)
	pf.family = ft.Describe().Family
	for _, name := range textgen.ScriptNames {
		alpha := textgen.Alphabets[name]
		n := 0
		for _, r := range alpha {
			if _, ok := ft.NominalGlyph(r); ok {
				n++
			}
		}
		if 2*n >= len(alpha) {
			pf.scripts = append(pf.scripts, name)
		}
	}
	if len(pf.scripts) == 0 {
		pf.scripts = []string{"latin"}
	}
	// the scripts of the font's own runes
	count := map[string]int{}
	for _, r := range pf.runes {
		if s := language.LookupScript(r); s.Strong() && s != language.Unknown {
			tag := s.String()
			count[strings.ToUpper(tag[:1])+tag[1:]]++
		}
	}
	for tag := range count {
		pf.iso = append(pf.iso, tag)
	}
	sort.Slice(pf.iso, func(i, j int) bool {
		if count[pf.iso[i]] != count[pf.iso[j]] {
			return count[pf.iso[i]] > count[pf.iso[j]]
		}
		return pf.iso[i] < pf.iso[j]
	})
	// the font's own features and script/language systems
	seenF, seenL := map[string]bool{}, map[string]bool{}
	for _, layout := range []*font.Layout{&ft.GSUB.Layout, &ft.GPOS.Layout} {
		for _, f := range layout.Features {
			if tag := f.Tag.String(); !seenF[tag] {
				seenF[tag] = true
				pf.features = append(pf.features, tag)
			}
		}
		for _, s := range layout.Scripts {
			st := trimTag(s.Tag)
			if !alnum(st) {
				continue
			}
			if v := "x-hbsc" + st; !seenL[v] {
				seenL[v] = true
				pf.langs = append(pf.langs, v)
			}
			for _, l := range s.LangSysRecords {
				lt := trimTag(l.Tag)
				if !alnum(lt) {
					continue
				}
				if v := "x-hbsc" + st + "-hbot" + lt; !seenL[v] {
					seenL[v] = true
					pf.langs = append(pf.langs, v)
				}
			}
		}
	}
	sort.Strings(pf.features)
	sort.Strings(pf.langs)
	poolCache[entryKey(e)] = pf
	return pf, nil
}

func countRunes(ft *font.Font, limit int) (n int) {
	defer func() { recover() }()
	if ft.Cmap == nil {
		return 0
	}
	it := ft.Cmap.Iter()
	for it.Next() && n < limit {
		r, _ := it.Char()
		if _, ok := ft.Cmap.Lookup(r); ok {
			n++
		}
	}
	return n
}

// candidatePools builds, deterministically, the list of candidate fonts of every stratum: among
// the distinct (by content) corpus files of at most maxPoolFileSize whose table directory
// (corpus.TraitsOf) puts them in the stratum and which load with at least the stratum's minRunes mapped runes,
// the richPerStratum files with the largest layout tables (GSUB+GPOS+morx+kerx bytes; ties: by
// path) followed by the smallPerStratum smallest files.
func candidatePools() ([][]*poolFont, error) {
	if candidates != nil {
		return candidates, nil
	}
	type fi struct {
		rel    string
		size   int64
		layout int
		tr     corpus.Traits
	}
	perStratum := make([][]fi, len(strata))
	seen := map[uint64]bool{}
	for _, rel := range corpus.Files() {
		st, err := os.Stat(corpus.Abs(rel))
		if err != nil || st.Size() > maxPoolFileSize {
			continue
		}
		data, err := corpus.Bytes(rel)
		if err != nil {
			continue
		}
		h := fnv.New64a()
		h.Write(data)
		if seen[h.Sum64()] {
			continue // the corpus holds many files more than once
		}
		seen[h.Sum64()] = true
		tr := corpus.TraitsOf(rel, 0)
		layout := 0
		for _, t := range sfntDirectory(data) {
			switch t.tag {
			case "GSUB", "GPOS", "morx", "kerx", "mort", "kern":
				layout += t.len
			}
		}
		for si, s := range strata {
			if s.want(tr) {
				perStratum[si] = append(perStratum[si], fi{rel, st.Size(), layout, tr})
				break
			}
		}
	}
	out := make([][]*poolFont, len(strata))
	for si, files := range perStratum {
		usable := func(f fi) *poolFont {
			pf, err := loadEntry(PoolEntry{Kind: strata[si].kind, File: f.rel, Index: 0})
			if err != nil || countRunes(pf.ref, strata[si].minRunes) < strata[si].minRunes || pf.nGlyphs == 0 {
				return nil
			}
			return pf
		}
		taken := map[string]bool{}
		sort.Slice(files, func(i, j int) bool {
			if files[i].layout != files[j].layout {
				return files[i].layout > files[j].layout
			}
			return files[i].rel < files[j].rel
		})
		for _, f := range files {
			if len(out[si]) >= richPerStratum || f.layout == 0 {
				break
			}
			if pf := usable(f); pf != nil {
				out[si] = append(out[si], pf)
				taken[f.rel] = true
			}
		}
		sort.Slice(files, func(i, j int) bool {
			if files[i].size != files[j].size {
				return files[i].size < files[j].size
			}
			return files[i].rel < files[j].rel
		})
		small := 0
		for _, f := range files {
			if small >= smallPerStratum && len(out[si]) >= richPerStratum {
				break
			}
			if taken[f.rel] {
				continue
			}
			if pf := usable(f); pf != nil {
				out[si] = append(out[si], pf)
				taken[f.rel] = true
				small++
			}
		}
		if len(out[si]) == 0 {
			return nil, fmt.Errorf("font corpus %s has no usable font for stratum %s", corpus.Dir(), strata[si].kind)
		}
	}
	candidates = out
	return candidates, nil
}
