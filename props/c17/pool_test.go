package c17

import (
	"bytes"
	"fmt"
	"os"
	"sort"
	"sync"

	"github.com/go-text/typesetting/font"
	ot "github.com/go-text/typesetting/font/opentype"
	"github.com/go-text/typesetting/font/opentype/tables"

	"verif/internal/corpus"
	"verif/internal/textgen"
)

// PoolEntry names one font of the shared pool (decoded: corpus-relative path + face index), so
// that a saved program can be replayed even if the selection rule below changes.
type PoolEntry struct {
	Kind  string `json:"kind"`
	File  string `json:"file"`
	Index int    `json:"index"`
}

type axis struct {
	tag           string
	min, def, max float32
}

// poolFont is what the generator and the executor know about one pool entry. Everything here is
// computed once per process by the test goroutine, before any program runs, and is read-only
// afterwards. ref is the reference instance: it is only ever used sequentially.
type poolFont struct {
	PoolEntry
	data    []byte
	ref     *font.Font
	nGlyphs int
	runes   []rune   // sample of the runes the cmap maps
	scripts []string // textgen alphabets the font covers well
	axes    []axis
	family  string
}

// category is one stratum of the pool; the smallest corpus file (ties: by path) whose table
// directory satisfies want, whose cmap maps at least minRunes runes (and needRune, if set) and
// which has at least minGSUB / minGPOS lookups is chosen: small, but with real layout tables.
type category struct {
	kind             string
	want             func(tr corpus.Traits) bool
	minRunes         int
	needRune         rune
	minGSUB, minGPOS int
}

var categories = []category{
	{kind: "truetype", minRunes: 50, minGSUB: 5, minGPOS: 3, want: func(tr corpus.Traits) bool {
		return tr.Glyf && !tr.Fvar && !tr.Morx && !tr.Bitmap && !tr.CFF && !tr.CFF2 && tr.GSUB && tr.GPOS
	}},
	{kind: "cff", minRunes: 100, minGSUB: 5, minGPOS: 1, want: func(tr corpus.Traits) bool { return tr.CFF && tr.GSUB && tr.GPOS }},
	{kind: "cff2", minRunes: 2, want: func(tr corpus.Traits) bool { return tr.CFF2 && tr.Fvar }},
	{kind: "variable", minRunes: 100, minGSUB: 5, minGPOS: 3, want: func(tr corpus.Traits) bool { return tr.Glyf && tr.Fvar && tr.GSUB && tr.GPOS }},
	{kind: "aat", minRunes: 100, want: func(tr corpus.Traits) bool { return tr.Morx && tr.Glyf }},
	{kind: "bitmap", minRunes: 30, want: func(tr corpus.Traits) bool { return tr.Bitmap }},
	{kind: "indic", minRunes: 50, needRune: 0x0915, minGSUB: 5, minGPOS: 3, want: func(tr corpus.Traits) bool { return tr.Glyf && !tr.Fvar && tr.GSUB && tr.GPOS }},
}

const maxPoolFileSize = 400 << 10

var (
	poolMu    sync.Mutex
	poolCache = map[string]*poolFont{} // by "file#index"
	stdPool   []*poolFont
)

func entryKey(e PoolEntry) string { return fmt.Sprintf("%s#%d", e.File, e.Index) }

// parseFont parses a fresh, independent *font.Font from the bytes of the entry.
func parseFont(data []byte, index int) (ft *font.Font, ld *ot.Loader, err error) {
	defer func() {
		if r := recover(); r != nil {
			err = fmt.Errorf("panic while loading: %v", r)
		}
	}()
	lds, err := ot.NewLoaders(bytes.NewReader(data))
	if err != nil {
		return nil, nil, err
	}
	if index >= len(lds) {
		return nil, nil, fmt.Errorf("no face %d", index)
	}
	ft, err = font.NewFont(lds[index])
	return ft, lds[index], err
}

// loadEntry builds (once) the poolFont of an entry.
func loadEntry(e PoolEntry) (*poolFont, error) {
	poolMu.Lock()
	defer poolMu.Unlock()
	if pf, ok := poolCache[entryKey(e)]; ok {
		return pf, nil
	}
	data, err := corpus.Bytes(e.File)
	if err != nil {
		return nil, err
	}
	ft, ld, err := parseFont(data, e.Index)
	if err != nil {
		return nil, err
	}
	pf := &poolFont{PoolEntry: e, data: data, ref: ft}
	if raw, err := ld.RawTable(ot.MustNewTag("maxp")); err == nil {
		if maxp, _, err := tables.ParseMaxp(raw); err == nil {
			pf.nGlyphs = int(maxp.NumGlyphs)
		}
	}
	if raw, err := ld.RawTable(ot.MustNewTag("fvar")); err == nil {
		if fv, _, err := tables.ParseFvar(raw); err == nil {
			for _, a := range fv.FvarRecords.Axis {
				pf.axes = append(pf.axes, axis{tag: a.Tag.String(), min: a.Minimum, def: a.Default, max: a.Maximum})
			}
		}
	}
	pf.runes = textgen.FontRunes(ft, 64)
	pf.family = ft.Describe().Family
	for _, name := range textgen.ScriptNames {
		alpha := textgen.Alphabets[name]
		n := 0
		for _, r := range alpha {
			if _, ok := ft.NominalGlyph(r); ok {
				n++
			}
		}
		if 2*n >= len(alpha) {
			pf.scripts = append(pf.scripts, name)
		}
	}
	if len(pf.scripts) == 0 {
		pf.scripts = []string{"latin"}
	}
	poolCache[entryKey(e)] = pf
	return pf, nil
}

func countRunes(ft *font.Font, limit int) (n int) {
	defer func() { recover() }()
	if ft.Cmap == nil {
		return 0
	}
	it := ft.Cmap.Iter()
	for it.Next() && n < limit {
		r, _ := it.Char()
		if _, ok := ft.Cmap.Lookup(r); ok {
			n++
		}
	}
	return n
}

// standardPool selects one font per category, deterministically (files sorted by size, then path).
func standardPool() ([]*poolFont, error) {
	if stdPool != nil {
		return stdPool, nil
	}
	type fi struct {
		rel  string
		size int64
	}
	var files []fi
	for _, rel := range corpus.Files() {
		st, err := os.Stat(corpus.Abs(rel))
		if err != nil || st.Size() > maxPoolFileSize {
			continue
		}
		files = append(files, fi{rel, st.Size()})
	}
	sort.Slice(files, func(i, j int) bool {
		if files[i].size != files[j].size {
			return files[i].size < files[j].size
		}
		return files[i].rel < files[j].rel
	})
	chosen := make([]*poolFont, len(categories))
	missing := len(categories)
	for _, f := range files {
		if missing == 0 {
			break
		}
		var tr corpus.Traits
		haveTraits := false
		for ci, c := range categories {
			if chosen[ci] != nil {
				continue
			}
			if !haveTraits {
				tr = corpus.TraitsOf(f.rel, 0)
				haveTraits = true
			}
			if !c.want(tr) {
				continue
			}
			data, err := corpus.Bytes(f.rel)
			if err != nil {
				continue
			}
			ft, _, err := parseFont(data, 0)
			if err != nil {
				continue
			}
			if c.needRune != 0 {
				if _, ok := ft.NominalGlyph(c.needRune); !ok {
					continue
				}
			}
			if countRunes(ft, c.minRunes) < c.minRunes || len(ft.GSUB.Lookups) < c.minGSUB || len(ft.GPOS.Lookups) < c.minGPOS {
				continue
			}
			already := false
			for _, pf := range chosen {
				if pf != nil && pf.File == f.rel {
					already = true
				}
			}
			if already {
				continue
			}
			pf, err := loadEntry(PoolEntry{Kind: c.kind, File: f.rel, Index: 0})
			if err != nil {
				continue
			}
			chosen[ci] = pf
			missing--
			break
		}
	}
	if missing != 0 {
		var miss []string
		for ci, c := range categories {
			if chosen[ci] == nil {
				miss = append(miss, c.kind)
			}
		}
		return nil, fmt.Errorf("font corpus %s lacks a small font for: %v", corpus.Dir(), miss)
	}
	stdPool = chosen
	return stdPool, nil
}
