package c17

import (
	"fmt"
	"os"
	"sort"
	"testing"

	"verif/internal/corpus"
)

func TestProbe(t *testing.T) {
	type fi struct {
		rel  string
		size int64
	}
	var fs []fi
	for _, rel := range corpus.Files() {
		st, err := os.Stat(corpus.Abs(rel))
		if err != nil {
			continue
		}
		fs = append(fs, fi{rel, st.Size()})
	}
	sort.Slice(fs, func(i, j int) bool { return fs[i].size < fs[j].size })
	for _, f := range fs {
		if f.size > 400000 {
			break
		}
		tr := corpus.TraitsOf(f.rel, 0)
		faces, err := corpus.Faces(f.rel)
		if err != nil || len(faces) == 0 {
			continue
		}
		ft := faces[0].Font
		n := 0
		if ft.Cmap != nil {
			it := ft.Cmap.Iter()
			for it.Next() && n < 100000 {
				it.Char()
				n++
			}
		}
		fmt.Printf("%7d %-70s glyf=%v cff=%v cff2=%v fvar=%v morx=%v kerx=%v kern=%v bitmap=%v svg=%v vert=%v gsub=%d gpos=%d cmap=%d\n", f.size, f.rel,
			tr.Glyf, tr.CFF, tr.CFF2, tr.Fvar, tr.Morx, tr.Kerx, tr.Kern, tr.Bitmap, tr.SVG, tr.Vertical, len(ft.GSUB.Lookups), len(ft.GPOS.Lookups), n)
	}
}
