package c17

import (
	"encoding/json"
	"fmt"
	"os"
	"os/exec"
	"path/filepath"
	"sort"
	"strings"
	"testing"
	"time"

	"github.com/go-text/typesetting/font"

	"verif/internal/corpus"
	"verif/internal/ev"
)

// ---- the class index of property C13 (props/c13/class_index.json) ----
//
// 236 coverage classes (every GSUB/GPOS lookup type and format, every feature tag active by
// default or on request, morx/kern/trak, outline kinds, variation tables, vertical text …), each
// with probes = (font, text, direction/script/language, features, variations) verified to ACT on
// that font. C17 draws a share of its shaping operations from them, so that several goroutines
// take the same rare path of the same shared font at the same time.

type c13Probe struct {
	Font struct {
		File  string `json:"file"`
		Index int    `json:"index"`
	} `json:"font"`
	Text     []rune   `json:"text"`
	Dir      int      `json:"dir"` // harfbuzz.Direction
	Script   string   `json:"script"`
	Lang     string   `json:"lang"`
	Features []Feat   `json:"features"` // C13 writes end = -1 for "to the end of the buffer"
	Vars     []Var    `json:"vars"`
	Ptem     float32  `json:"ptem"`
	Classes  []string `json:"classes"`
}

type classIndex struct {
	classes   map[string][]int // class -> probes
	names     []string         // sorted class names
	probes    []c13Probe
	byFont    map[string][]int // "file#index" -> probes
	fontNames []string         // sorted keys of byFont
}

const maxProbeFontSize = 4 << 20

var (
	classIdx    *classIndex
	classIdxErr error
	classLoaded bool
)

// loadClassIndex is called by the test goroutine only.
func loadClassIndex() (*classIndex, error) {
	if classLoaded {
		return classIdx, classIdxErr
	}
	classLoaded = true
	path := filepath.Join("..", "c13", "class_index.json")
	if root := os.Getenv("VERIF_ROOT"); root != "" {
		path = filepath.Join(root, "props", "c13", "class_index.json")
	}
	b, err := os.ReadFile(path)
	if err != nil {
		classIdxErr = err
		return nil, err
	}
	var f struct {
		Classes map[string][]int `json:"classes"`
		Probes  []c13Probe       `json:"probes"`
	}
	if err := json.Unmarshal(b, &f); err != nil {
		classIdxErr = err
		return nil, err
	}
	idx := &classIndex{classes: map[string][]int{}, probes: f.Probes, byFont: map[string][]int{}}
	usable := make([]bool, len(f.Probes))
	for i, p := range f.Probes {
		if strings.HasPrefix(p.Font.File, "synth:") || len(p.Text) == 0 {
			continue
		}
		st, err := os.Stat(corpus.Abs(p.Font.File))
		if err != nil || st.Size() > maxProbeFontSize {
			continue
		}
		usable[i] = true
		k := fmt.Sprintf("%s#%d", p.Font.File, p.Font.Index)
		idx.byFont[k] = append(idx.byFont[k], i)
	}
	for c, ps := range f.Classes {
		for _, i := range ps {
			if i >= 0 && i < len(usable) && usable[i] {
				idx.classes[c] = append(idx.classes[c], i)
			}
		}
		if len(idx.classes[c]) > 0 {
			idx.names = append(idx.names, c)
		}
	}
	sort.Strings(idx.names)
	for k := range idx.byFont {
		idx.fontNames = append(idx.fontNames, k)
	}
	sort.Strings(idx.fontNames)
	classIdx = idx
	return idx, nil
}

// probeOp turns a probe into an operation on pool font f.
func probeOp(p *c13Probe, f int) Op {
	op := Op{K: kProbe, F: f, R: p.Text, Dir: p.Dir, Script: p.Script, Lang: p.Lang, V: p.Vars, Ptem: p.Ptem}
	for _, ft := range p.Features {
		op.Feat = append(op.Feat, ft)
	}
	return op
}

// aatTags are the OpenType feature tags harfbuzz maps to AAT feature settings (the whole table
// featureMappings of harfbuzz/ot_aat_layout.go) plus 'aalt', which has its own path.
var aatTags = strings.Fields(`aalt afrc c2pc c2sc calt case clig cpsp cswh dlig expt frac fwid halt hist hkna hlig hngl hojo hwid ital
	jp04 jp78 jp83 jp90 liga lnum mgrk nlck onum ordn palt pcap pkna pnum pwid qwid rlig ruby sinf smcp smpl
	ss01 ss02 ss03 ss04 ss05 ss06 ss07 ss08 ss09 ss10 ss11 ss12 ss13 ss14 ss15 ss16 ss17 ss18 ss19 ss20
	subs sups swsh titl tnam tnum trad twid unic valt vert vhal vkna vpal vrt2 vrtr zero kern`)

// ---- first touch: fresh processes ----
//
// State written once per process (lazy initialisation, "fallback" rewrites of a package-level
// table on a rare path) can only race in the first programs of a process that reach it. The
// enumerator below therefore runs, for EVERY corpus font shaped through AAT tables or carrying a
// kern table, and for every font of the C13 probes, one short-lived child process (this binary)
// that executes a list of tiny programs: 8 goroutines behind the start barrier all executing the
// SAME operation list on the freshly parsed shared font (every mapped feature tag on and off for
// the AAT fonts; every probe of the font, bare and with one more feature). A child is an ordinary
// run of checkProgram: race detector (halt on error), comparison with the run alone, journal.

// unit is the work of one child process: fonts swept with every AAT-mapped feature tag, and C13
// probes (indices into the class index).
type unit struct {
	ID     int         `json:"id"`
	N      int         `json:"n,omitempty"` // goroutines per program (default 8)
	Fonts  []PoolEntry `json:"fonts,omitempty"`
	Texts  [][]rune    `json:"texts,omitempty"` // per font: the text of the sweep (chosen by the parent, see sweepText)
	Probes []int       `json:"probes,omitempty"`
	Heavy  []int       `json:"heavy,omitempty"` // the probes among Probes whose output is huge: run by two goroutines, once
}

// explosive is the number of output glyphs above which an input is considered to exercise the
// buffer-growth limits of the shaper (some AAT test fonts turn two letters into 8194 glyphs): such
// inputs cost a second each under -race and are used sparingly.
const explosive = 512

// glyphCount shapes alone, with fresh objects on the reference instance, and returns the number of
// output glyphs (-1 after a panic). Test goroutine only.
func glyphCount(pf *poolFont, op Op) (n int) {
	defer func() {
		if recover() != nil {
			n = -1
		}
	}()
	st := newState([]*font.Font{pf.ref}, []PoolEntry{pf.PoolEntry}, []int{len(pf.axes)}, [][]byte{pf.data})
	op.F = 0
	res, _ := st.exec(op)
	var k int
	fmt.Sscanf(string(res), "%d", &k)
	return k
}

var probeCosts = map[int]int{}

// probeCost is the number of glyphs probe i produces (cached). Test goroutine only.
func probeCost(idx *classIndex, i int) int {
	if c, ok := probeCosts[i]; ok {
		return c
	}
	p := &idx.probes[i]
	c := explosive + 1
	if pf, err := loadEntry(PoolEntry{Kind: "probe", File: p.Font.File, Index: p.Font.Index}); err == nil {
		c = glyphCount(pf, probeOp(p, 0))
	}
	probeCosts[i] = c
	return c
}

// sweepText chooses the text of the feature sweep of a font: the longest of the first 8, 4, 2, 1
// of its sampled runes that does not make the shaper produce an explosive number of glyphs.
func sweepText(pf *poolFont) []rune {
	text := pf.runes
	if len(text) == 0 {
		text = []rune("fi Afl 12")
	}
	script := ""
	if len(pf.iso) > 0 {
		script = pf.iso[0]
	}
	for _, n := range []int{8, 4, 2, 1} {
		if n > len(text) {
			continue
		}
		if c := glyphCount(pf, Op{K: kProbe, R: text[:n], Dir: 4, Script: script}); c >= 0 && c <= explosive {
			return text[:n]
		}
	}
	return text[:1]
}

const (
	unitEnv              = "C17_UNIT"
	firstTouchGoroutines = 8
	processesPerShard    = 3
)

// sweptFonts lists every distinct corpus font that is shaped through AAT tables or has a kern
// table (morx, mort, kerx, trak, feat, ankr, kern).
func sweptFonts() []PoolEntry {
	var out []PoolEntry
	sums := map[uint64]bool{}
	for _, rel := range corpus.Files() {
		st, err := os.Stat(corpus.Abs(rel))
		if err != nil || st.Size() > maxProbeFontSize {
			continue
		}
		lds, err := corpus.Loaders(rel)
		if err != nil || len(lds) == 0 {
			continue
		}
		has := false
		for _, tg := range []string{"morx", "mort", "kerx", "trak", "feat", "ankr", "kern"} {
			has = has || lds[0].HasTable(tag(tg))
		}
		if !has {
			continue
		}
		data, err := corpus.Bytes(rel)
		if err != nil {
			continue
		}
		h := hashBytes(data)
		if sums[h] {
			continue
		}
		sums[h] = true
		if _, _, err := parseFont(data, 0); err != nil {
			continue
		}
		out = append(out, PoolEntry{Kind: "aat", File: rel})
	}
	return out
}

// firstTouchUnits deals the swept fonts and the probes to n units; the order (who is first in
// its process) changes with the seed.
func firstTouchUnits(n int) ([]unit, error) {
	idx, err := loadClassIndex()
	if err != nil {
		return nil, err
	}
	rnd := ev.NewRand(uint64(ev.Seed())*0x9E3779B97F4A7C15 + 17)
	units := make([]unit, n)
	for i := range units {
		units[i].ID = i
	}
	fonts := sweptFonts()
	for i := len(fonts) - 1; i > 0; i-- {
		j := rnd.Intn(i + 1)
		fonts[i], fonts[j] = fonts[j], fonts[i]
	}
	for i, f := range fonts {
		units[i%n].Fonts = append(units[i%n].Fonts, f)
	}
	var probes []int
	for _, k := range idx.fontNames {
		probes = append(probes, idx.byFont[k]...)
	}
	for i := len(probes) - 1; i > 0; i-- {
		j := rnd.Intn(i + 1)
		probes[i], probes[j] = probes[j], probes[i]
	}
	for i, p := range probes {
		units[(i+n/2)%n].Probes = append(units[(i+n/2)%n].Probes, p)
	}
	return units, nil
}

// prepare measures (in the parent process, whose own state does not matter) what the unit's
// inputs cost, and chooses the sweep texts accordingly.
func (u *unit) prepare() error {
	idx, err := loadClassIndex()
	if err != nil {
		return err
	}
	for _, entry := range u.Fonts {
		pf, err := loadEntry(entry)
		if err != nil {
			return err
		}
		u.Texts = append(u.Texts, sweepText(pf))
	}
	for _, i := range u.Probes {
		if c := probeCost(idx, i); c < 0 || c > explosive {
			u.Heavy = append(u.Heavy, i)
		}
	}
	return nil
}

// same is the program in which every goroutine executes the same list on one shared font.
func same(entry PoolEntry, ops []Op, n int) Program {
	if n < 2 {
		n = firstTouchGoroutines
	}
	p := Program{Procs: 16, Pool: []PoolEntry{entry}, Goroutines: make([][]Op, n)}
	for g := range p.Goroutines {
		p.Goroutines[g] = ops
	}
	return p
}

// unitPrograms builds the tiny programs of a unit.
func unitPrograms(u unit) ([]Program, error) {
	idx, err := loadClassIndex()
	if err != nil {
		return nil, err
	}
	rnd := ev.NewRand(uint64(ev.Seed())*0x9E3779B97F4A7C15 ^ uint64(u.ID+1)*0xD1B54A32D192ED03)
	var programs []Program
	heavy := map[int]bool{}
	for _, i := range u.Heavy {
		heavy[i] = true
	}
	for fi, entry := range u.Fonts {
		pf, err := loadEntry(entry)
		if err != nil {
			return nil, err
		}
		var probes []int
		for _, i := range idx.byFont[fmt.Sprintf("%s#%d", entry.File, entry.Index)] {
			if probeCosts[i] <= explosive && !heavy[i] { // (costs are only known for this unit's own probes)
				probes = append(probes, i)
			}
		}
		// a short text of the font's own runes (or one of its cheap probes)
		text := []rune("a")
		if fi < len(u.Texts) && len(u.Texts[fi]) > 0 {
			text = u.Texts[fi]
		}
		script := ""
		if len(pf.iso) > 0 {
			script = pf.iso[0]
		}
		tags := append([]string(nil), aatTags...)
		tags = append(tags, pf.features...)
		for i := len(tags) - 1; i > 0; i-- {
			j := rnd.Intn(i + 1)
			tags[i], tags[j] = tags[j], tags[i]
		}
		var ops []Op
		for _, tg := range tags {
			for _, v := range []uint32{1, 0} {
				op := Op{K: kProbe, F: 0, R: text, Dir: 4, Script: script, Feat: []Feat{{Tag: tg, Value: v}}}
				if k := len(probes); k > 0 && rnd.Intn(3) == 0 {
					if i := probes[rnd.Intn(k)]; isKnownCheap(u, i) {
						op = probeOp(&idx.probes[i], 0)
						op.Feat = append(op.Feat, Feat{Tag: tg, Value: v})
					}
				}
				if rnd.Intn(4) == 0 {
					op.Ptem = float32(6 + rnd.Intn(30))
				}
				ops = append(ops, op)
			}
		}
		// one tag (on, then off) per program, so that every goroutine takes the tag's path right
		// behind the start barrier; several tags per program for large files (each program
		// parses the file afresh)
		opsPerProgram := 2
		if len(pf.data) > bigFile {
			opsPerProgram = 16
		}
		for len(ops) > 0 {
			k := opsPerProgram
			if k > len(ops) {
				k = len(ops)
			}
			programs = append(programs, same(entry, ops[:k:k], u.N))
			ops = ops[k:]
		}
	}
	for _, i := range u.Probes {
		p := &idx.probes[i]
		entry := PoolEntry{Kind: "probe", File: p.Font.File, Index: p.Font.Index}
		pf, err := loadEntry(entry)
		if err != nil {
			return nil, err
		}
		extra := aatTags
		if len(pf.features) > 0 && !pf.aat {
			extra = pf.features
		}
		with := probeOp(p, 0)
		with.Feat = append(with.Feat, Feat{Tag: extra[rnd.Intn(len(extra))], Value: uint32(rnd.Intn(2))})
		if heavy[i] {
			prog := same(entry, []Op{probeOp(p, 0)}, 2)
			programs = append(programs, prog)
			continue
		}
		programs = append(programs, same(entry, []Op{probeOp(p, 0), with}, u.N))
	}
	return programs, nil
}

// isKnownCheap tells whether probe i belongs to the unit (so that the parent measured it) and is
// not explosive.
func isKnownCheap(u unit, i int) bool {
	for _, h := range u.Heavy {
		if h == i {
			return false
		}
	}
	for _, p := range u.Probes {
		if p == i {
			return true
		}
	}
	return false
}

// TestFirstTouchChild is the body of a child process (it does nothing in a normal run).
func TestFirstTouchChild(t *testing.T) {
	raw := os.Getenv(unitEnv)
	if raw == "" {
		return
	}
	var u unit
	if err := json.Unmarshal([]byte(raw), &u); err != nil {
		t.Fatalf("INFRASTRUCTURE: bad %s: %v", unitEnv, err)
	}
	programs, err := unitPrograms(u)
	if err != nil {
		t.Fatalf("INFRASTRUCTURE: unit %d: %v", u.ID, err)
	}
	for _, p := range programs {
		checkProgram(t, p)
	}
	fmt.Printf("C17-CHILD programs=%d\n", len(programs))
}

// TestEnumFirstTouch runs the units of this shard, each in a fresh process.
func TestEnumFirstTouch(t *testing.T) {
	shard, nshards := ev.Shard()
	units, err := firstTouchUnits(nshards * processesPerShard)
	if err != nil {
		fmt.Fprintln(os.Stderr, "INFRASTRUCTURE:", err)
		os.Exit(3)
	}
	exe, err := os.Executable()
	if err != nil {
		t.Fatalf("INFRASTRUCTURE: %v", err)
	}
	var processes, fonts, probes int64
	for i, u := range units {
		if i%nshards != shard {
			continue
		}
		if err := u.prepare(); err != nil {
			fmt.Fprintln(os.Stderr, "INFRASTRUCTURE:", err)
			os.Exit(3)
		}
		// Three fresh processes per unit: two with 2 goroutines per program (the race detector
		// keeps the last four accesses of a memory word: with few goroutines a once-only write
		// is most likely still on record when the second goroutine arrives) and one with 8.
		for k, n := range []int{2, firstTouchGoroutines, 2} {
			u.N = n
			ub, _ := json.Marshal(u)
			dir := ""
			if out := ev.OutDir(); out != "" {
				dir = filepath.Join(out, fmt.Sprintf("unit%d-%d", i, k))
				os.MkdirAll(dir, 0o755)
			}
			cmd := exec.Command(exe, "-test.run", "^TestFirstTouchChild$", "-test.timeout", "600s")
			cmd.Env = append(os.Environ(), unitEnv+"="+string(ub), "VERIF_OUT="+dir, cacheDirEnv+"="+fontIndexDir)
			t0 := time.Now()
			outp, err := cmd.CombinedOutput()
			if err != nil {
				failUnit(t, u, dir, err, outp)
			}
			if d := time.Since(t0); d > 10*time.Second {
				var names []string
				for _, f := range u.Fonts {
					names = append(names, filepath.Base(f.File))
				}
				fmt.Fprintf(os.Stderr, "slow first-touch process %d: %v (fonts %v, %d probes)\n", u.ID, d, names, len(u.Probes))
			}
			var n int64
			if k := strings.LastIndex(string(outp), "C17-CHILD programs="); k >= 0 {
				fmt.Sscanf(string(outp[k:]), "C17-CHILD programs=%d", &n)
			}
			ev.CaseEnum(n, n)
			processes++
			if dir != "" {
				os.RemoveAll(dir)
			}
		}
		fonts += int64(len(u.Fonts))
		probes += int64(len(u.Probes))
	}
	ev.LabelN("first-touch:processes", processes)
	ev.LabelN("first-touch:fonts-swept-with-every-aat-feature-tag", fonts)
	ev.LabelN("first-touch:c13-probes", probes)
}

// failUnit reports the program a child failed on: its fail.json (a differing result) or its
// journal (the program that was running when the race detector ended the child).
func failUnit(t *testing.T, u unit, dir string, err error, outp []byte) {
	if strings.Contains(string(outp), "panic: test timed out") || strings.Contains(string(outp), "INFRASTRUCTURE:") {
		// too slow (a loaded machine) or a broken set-up: inconclusive, never a violation
		fmt.Fprintf(os.Stderr, "INFRASTRUCTURE: first-touch process %d: %v\n%s\n", u.ID, err, tailOf(outp, 1500))
		os.Exit(3)
	}
	if len(outp) > 2200 {
		outp = outp[:2200]
	}
	for _, name := range []string{"fail.json", "journal.json"} {
		if dir == "" {
			break
		}
		_, raw, lerr := ev.LoadReplay(filepath.Join(dir, name))
		if lerr != nil || len(raw) == 0 {
			continue
		}
		var p Program
		if json.Unmarshal(raw, &p) != nil {
			continue
		}
		ev.Fail(t, "program", p, "first-touch process %d failed (%v) on this program:\n%s", u.ID, err, outp)
	}
	ev.Fail(t, "unit", u, "first-touch process %d failed (%v):\n%s", u.ID, err, outp)
}

func tailOf(b []byte, n int) []byte {
	if len(b) > n {
		return b[len(b)-n:]
	}
	return b
}
