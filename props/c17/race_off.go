//go:build !race

package c17

const raceEnabled = false
