//go:build race

package c17

// raceEnabled reports whether the package was built with the race detector, which is the first
// oracle of property C17 (check.json sets "race": true so that the driver passes -race).
const raceEnabled = true
