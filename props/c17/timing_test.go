package c17

import (
	"fmt"
	"os"
	"sort"
	"testing"
	"time"

	"pgregory.net/rapid"
)

var opTime = map[string]time.Duration{}
var opCount = map[string]int{}

func TestTiming(t *testing.T) {
	cands, _ := candidatePools()
	var tGen, tConc, tAlone, tPrep time.Duration
	rapid.Check(t, func(t *rapid.T) {
		t0 := time.Now()
		p := genProgram(t, cands)
		tGen += time.Since(t0)
		checkProgramTimed(t, p, &tPrep, &tConc, &tAlone)
	})
	fmt.Fprintln(os.Stderr, "gen", tGen, "prep", tPrep, "conc", tConc, "alone", tAlone)
	var ks []string
	for k := range opTime {
		ks = append(ks, k)
	}
	sort.Slice(ks, func(i, j int) bool { return opTime[ks[i]] > opTime[ks[j]] })
	for _, k := range ks[:25] {
		fmt.Fprintln(os.Stderr, k, opCount[k], opTime[k], opTime[k]/time.Duration(opCount[k]))
	}
}

func checkProgramTimed(t *rapid.T, orig Program, tPrep, tConc, tAlone *time.Duration) {
	t0 := time.Now()
	n := len(orig.Pool)
	shared := &runEnv{pool: nil, entries: orig.Pool, naxes: make([]int, n), data: make([][]byte, n)}
	alone := &runEnv{entries: orig.Pool, naxes: shared.naxes, data: shared.data}
	for i, e := range orig.Pool {
		pf, _ := loadEntry(e)
		shared.naxes[i] = len(pf.axes)
		shared.data[i] = pf.data
		alone.pool = append(alone.pool, pf.ref)
		ft, _, _ := parseFont(pf.data, pf.Index)
		shared.pool = append(shared.pool, ft)
	}
	p := sanitize(orig, shared.data)
	*tPrep += time.Since(t0)
	t0 = time.Now()
	runConcurrent(p, shared)
	*tConc += time.Since(t0)
	t0 = time.Now()
	for _, ops := range append([][]Op{p.Prologue}, p.Goroutines...) {
		st := alone.state()
		for _, op := range ops {
			t1 := time.Now()
			st.exec(op)
			k := op.K + ":" + orig.Pool[op.F].Kind
			opTime[k] += time.Since(t1)
			opCount[k]++
		}
	}
	*tAlone += time.Since(t0)
}
