// Package c18 decides property C18: glyphs not flagged unsafe-to-break are safe cut points.
//
// The oracle is upstream's own verification procedure (hb-buffer-verify.cc,
// buffer_verify_unsafe_to_break) re-implemented on the public API of the port: shape the whole
// text; cut at every cluster boundary whose deciding glyph lacks GlyphUnsafeToBreak; shape every
// piece with Buffer.AddRunes(text, start, len) (which installs the neighbouring text as context),
// Bot only on the first piece and Eot only on the last; concatenate; the result must equal the
// whole-text shaping in glyph ids, clusters, advances and offsets. Flags must be uniform within a
// cluster.
package c18

import (
	"encoding/binary"
	"encoding/json"
	"fmt"
	"os"
	"os/exec"
	"path/filepath"
	"runtime/debug"
	"sort"
	"strings"
	"sync"
	"testing"
	"unicode"

	"github.com/go-text/typesetting/font"
	ot "github.com/go-text/typesetting/font/opentype"
	"github.com/go-text/typesetting/font/opentype/tables"
	"github.com/go-text/typesetting/harfbuzz"
	"github.com/go-text/typesetting/language"
	"pgregory.net/rapid"

	"verif/internal/corpus"
	"verif/internal/ev"
	"verif/internal/hbref"
	"verif/internal/synthfont"
	"verif/internal/textgen"
)

func TestMain(m *testing.M) { ev.Main(m) }

// ---- decoded case ----

type Feat struct {
	Tag   string `json:"tag"`
	Value uint32 `json:"value"`
	Start int    `json:"start"`
	End   int    `json:"end"` // -1: global end
}

type Case struct {
	Font     string `json:"font"`
	Index    int    `json:"index"`
	Text     []int  `json:"text"`
	Offset   int    `json:"item_offset"`
	Length   int    `json:"item_length"`
	Dir      int    `json:"direction"` // 0 guess, 4 LTR, 5 RTL, 6 TTB, 7 BTT
	Script   string `json:"script"`
	Lang     string `json:"language"`
	Features []Feat `json:"features"`
	Cluster  int    `json:"cluster_level"` // 0 or 1 (monotone levels only)
	Flags    int    `json:"flags"`         // 1 BOT, 2 EOT, 4 PRESERVE, 8 REMOVE default ignorables
	// Synth: the font is generated from this record (internal/synthfont); Font is a name only
	Synth *synthfont.Spec `json:"synth,omitempty"`
	// instance settings (instance_test.go), the same for the whole text and every piece: design-space
	// variation settings OR normalized coordinates by axis order, pixels per em, point size
	Vars   []Var   `json:"variations,omitempty"`
	Coords []int   `json:"normalized_coords,omitempty"`
	XPpem  int     `json:"x_ppem,omitempty"`
	YPpem  int     `json:"y_ppem,omitempty"`
	Ptem   float32 `json:"ptem,omitempty"`
}

func (c *Case) runes() []rune {
	out := make([]rune, len(c.Text))
	for i, v := range c.Text {
		out[i] = rune(v)
	}
	return out
}

func (c *Case) wellFormed() error {
	if c.Offset < 0 || c.Length < 0 || c.Offset+c.Length > len(c.Text) {
		return fmt.Errorf("item bounds out of range")
	}
	for _, r := range c.Text {
		if r < 0 || r > 0x10FFFF || (r >= 0xD800 && r <= 0xDFFF) {
			return fmt.Errorf("invalid scalar value %#x", r)
		}
	}
	if c.Dir != 0 && (c.Dir < 4 || c.Dir > 7) || c.Cluster < 0 || c.Cluster > 1 {
		return fmt.Errorf("invalid direction or cluster level")
	}
	if c.Script != "" && len(c.Script) != 4 {
		return fmt.Errorf("invalid script")
	}
	for _, f := range c.Features {
		if len(f.Tag) != 4 || f.Start < 0 || f.End < -1 {
			return fmt.Errorf("invalid feature")
		}
	}
	if !c.instanceWellFormed() {
		return fmt.Errorf("invalid instance settings")
	}
	return nil
}

func tag32(s string) uint32 { return binary.BigEndian.Uint32([]byte(s)) }

// ---- fonts ----

type fontEntry struct {
	rel                      string
	index                    int
	face                     *font.Face
	hb                       *hbref.Face   // for triage only
	syll                     []*syllScript // syllabic scripts the font covers (syll_test.go)
	units                    [][]rune      // pieces of the texts upstream's tests shape with this font
	axes                     []axis        // fvar axes (instance_test.go)
	device                   bool          // GPOS/GDEF carry hinting Device tables (devices_test.go)
	pairs                    [][2]rune     // pairs the PairPos subtables list, as runes
	pairSet                  map[[2]rune]bool
	synth                    *synthfont.Spec // generated font (synth_test.go)
	synthDeletes, synthGrows bool
	// the reference reads the cmap differently: it was given the port's mapping (see refFace)
	refCmapOverridden bool
	feats             []string
	pool              []rune
	scripts           []string
	traits            corpus.Traits
}

var (
	fontMu    sync.Mutex
	fontCache = map[string]*fontEntry{}
)

var otScriptToAlphabet = map[string]string{
	"arab": "arabic", "syrc": "syriac", "nko ": "nko", "mong": "mongolian", "hebr": "hebrew",
	"deva": "devanagari", "dev2": "devanagari", "beng": "bengali", "bng2": "bengali", "guru": "gurmukhi", "gur2": "gurmukhi",
	"gujr": "gujarati", "gjr2": "gujarati", "orya": "oriya", "ory2": "oriya", "taml": "tamil", "tml2": "tamil",
	"telu": "telugu", "tel2": "telugu", "knda": "kannada", "knd2": "kannada", "mlym": "malayalam", "mlm2": "malayalam",
	"sinh": "sinhala", "khmr": "khmer", "mymr": "myanmar", "mym2": "myanmar", "thai": "thai", "lao ": "lao", "tibt": "tibetan",
	"hang": "hangul", "jamo": "hangul", "hani": "cjk", "kana": "cjk", "bali": "use", "java": "use", "lana": "use", "batk": "use",
	"brah": "use", "kthi": "use", "latn": "latin", "grek": "greek", "cyrl": "cyrillic",
}

var alphabetScript = map[string][2]string{
	"latin": {"Latn", "en"}, "greek": {"Grek", "el"}, "cyrillic": {"Cyrl", "sr"}, "arabic": {"Arab", "ar"}, "syriac": {"Syrc", "syr"},
	"nko": {"Nkoo", "nqo"}, "mongolian": {"Mong", "mn"}, "hebrew": {"Hebr", "he"}, "devanagari": {"Deva", "hi"}, "bengali": {"Beng", "bn"},
	"gurmukhi": {"Guru", "pa"}, "gujarati": {"Gujr", "gu"}, "oriya": {"Orya", "or"}, "tamil": {"Taml", "ta"}, "telugu": {"Telu", "te"},
	"kannada": {"Knda", "kn"}, "malayalam": {"Mlym", "ml"}, "sinhala": {"Sinh", "si"}, "khmer": {"Khmr", "km"}, "myanmar": {"Mymr", "my"},
	"thai": {"Thai", "th"}, "lao": {"Laoo", "lo"}, "tibetan": {"Tibt", "bo"}, "hangul": {"Hang", "ko"}, "cjk": {"Hani", "zh-hans"},
	"use": {"Bali", "ban"}, "emoji": {"Zyyy", "en"},
}

func loadFont(rel string, index int) (*fontEntry, error) {
	key := fmt.Sprintf("%s#%d", rel, index)
	fontMu.Lock()
	defer fontMu.Unlock()
	if fe, ok := fontCache[key]; ok {
		return fe, nil
	}
	faces, err := corpus.Faces(rel)
	if err != nil {
		return nil, fmt.Errorf("port cannot load %s: %v", rel, err)
	}
	if index < 0 || index >= len(faces) {
		return nil, fmt.Errorf("face index %d out of range for %s", index, rel)
	}
	fe := &fontEntry{rel: rel, index: index, face: faces[index], traits: corpus.TraitsOf(rel, index)}
	seen := map[string]bool{}
	scriptSeen := map[string]bool{}
	for _, l := range []font.Layout{fe.face.GSUB.Layout, fe.face.GPOS.Layout} {
		for _, f := range l.Features {
			if s := f.Tag.String(); !seen[s] && len(s) == 4 {
				seen[s] = true
				fe.feats = append(fe.feats, s)
			}
		}
		for _, s := range l.Scripts {
			if a, ok := otScriptToAlphabet[s.Tag.String()]; ok {
				scriptSeen[a] = true
			}
		}
	}
	sort.Strings(fe.feats)
	fe.pool = textgen.FontRunes(fe.face.Font, 400)
	if index == 0 {
		fe.units = upstreamUnits(upstreamFor(rel))
	}
	fe.syll = syllScriptsFor(func(r rune) bool { _, ok := fe.face.NominalGlyph(r); return ok })
	fe.axes = loadAxes(rel, index)
	for _, d := range deviceFonts {
		fe.device = fe.device || d == key
	}
	loadPairs(fe)
	for _, name := range textgen.ScriptNames {
		al := textgen.Alphabets[name]
		n := 0
		for _, r := range al {
			if _, ok := fe.face.NominalGlyph(r); ok {
				n++
			}
		}
		if n >= 8 || n*3 >= len(al) {
			scriptSeen[name] = true
		}
	}
	for s := range scriptSeen {
		fe.scripts = append(fe.scripts, s)
	}
	sort.Strings(fe.scripts)
	fontCache[key] = fe
	return fe, nil
}

// refFace lazily creates the reference face (triage only).
//
// When the two loaders read the font's character map differently (no Unicode/Microsoft subtable:
// the port falls back to a Macintosh subtable, the reference maps nothing; symbol remapping), the
// port's own mapping is installed in the reference font: otherwise the reference shapes a buffer
// of .notdef glyphs and its verdict is not about the input the port shaped.
func (fe *fontEntry) refFace() *hbref.Face {
	if fe.hb == nil {
		if data, err := corpus.Bytes(fe.rel); err == nil && hbref.FaceCount(data) > fe.index {
			fe.hb = hbref.NewFace(data, fe.index)
			if fe.hb.GlyphCount() > 0 && fe.face.Cmap != nil && os.Getenv("C18_WORKER_CMAP_SAME") == "" {
				mapping := map[rune]uint32{}
				differs := false
				probe := func(r rune) {
					g, ok := fe.face.NominalGlyph(r)
					if ok {
						mapping[r] = uint32(g)
					}
					if hg, hok := fe.hb.NominalGlyph(r); hok != ok || (ok && hg != uint32(g)) {
						differs = true
					}
				}
				for it := fe.face.Cmap.Iter(); it.Next(); {
					r, _ := it.Char()
					probe(r)
					if r >= 0xF000 && r <= 0xF0FF {
						probe(r - 0xF000) // symbol cmaps: both libraries remap, possibly not alike
					}
				}
				for r := rune(0x20); r < 0x250; r++ {
					probe(r) // runes the reference maps and the port does not
				}
				if differs {
					fe.hb.OverrideNominalGlyphs(mapping)
					fe.refCmapOverridden = true
				}
			}
		}
	}
	return fe.hb
}

// pickFonts: seeded stratified sample of the corpus faces without AAT substitution (morx/mort).
func pickFonts(n int) []*fontEntry {
	type ref struct {
		rel string
		idx int
	}
	strata := map[string][]ref{}
	for _, rel := range corpus.Files() {
		lds, err := corpus.Loaders(rel)
		if err != nil {
			continue
		}
		for i := range lds {
			tr := corpus.TraitsOf(rel, i)
			if tr.Morx {
				continue // the property is about OpenType layout
			}
			size := "small"
			if st, err := os.Stat(corpus.Abs(rel)); err == nil {
				switch {
				case st.Size() >= 100<<10:
					size = "large"
				case st.Size() >= 16<<10:
					size = "medium"
				}
			}
			k := "plain"
			isDevice := false
			for _, d := range deviceFonts {
				isDevice = isDevice || d == fmt.Sprintf("%s#%d", rel, i)
			}
			switch {
			case isDevice:
				k = "device" // hinting Device tables: always in the sample (devices_test.go)
			case tr.Fvar && (tr.GSUB || tr.GPOS):
				k = "variable" // variable fonts with layout tables: a stratum of their own
			case !unicodeCmap(lds[i]):
				// no Unicode/Microsoft cmap subtable: the port falls back to a Macintosh subtable and
				// most characters of any text are .notdef (a stratum of its own: mixed .notdef/real
				// glyph runs of any script, reference given the port's mapping, see refFace)
				k = "cmap-fallback"
			case tr.GSUB || tr.GPOS:
				k = "layout-" + size
			case tr.Kern || tr.Kerx:
				k = "kern"
			}
			strata[k] = append(strata[k], ref{rel, i})
		}
	}
	shard, nshards := ev.Shard()
	rnd := ev.NewRand(uint64(ev.Seed())*0x9E3779B1 + 1818)
	// fonts with layout tables and a real repertoire are where the property has content: large
	// (>= 100 KiB) and medium (>= 16 KiB) layout fonts are weighted 9:3 against the small
	// single-lookup test fonts, the kern-only and the plain ones
	order := []ref{}
	names := []string{"layout-large", "layout-large", "layout-medium", "layout-large", "layout-large", "layout-medium", "layout-small",
		"layout-large", "layout-large", "layout-medium", "kern", "layout-large", "layout-small", "plain", "cmap-fallback", "variable", "variable", "device"}
	lists := map[string][]ref{}
	keys := make([]string, 0, len(strata))
	for k := range strata {
		keys = append(keys, k)
	}
	sort.Strings(keys) // (map order would make the sample differ from run to run for one seed)
	for _, k := range keys {
		l := append([]ref(nil), strata[k]...)
		for j := len(l) - 1; j > 0; j-- {
			m := rnd.Intn(j + 1)
			l[j], l[m] = l[m], l[j]
		}
		lists[k] = l
	}
	for more := true; more; {
		more = false
		for _, k := range names {
			if len(lists[k]) > 0 {
				order = append(order, lists[k][0])
				lists[k] = lists[k][1:]
				more = true
			}
		}
	}
	var out []*fontEntry
	for k := shard; k < len(order) && len(out) < n; k += nshards {
		fe, err := loadFont(order[k].rel, order[k].idx)
		if err != nil {
			ev.Label("font_port_rejects")
			continue
		}
		// triage needs the reference: fonts it cannot load (woff, rejected faces) are left out
		hb := fe.refFace()
		if hb == nil || hb.GlyphCount() == 0 {
			ev.Label("font_excluded_reference_rejects")
			continue
		}
		if len(fe.face.GPOS.Lookups) != hb.LookupCount(tag32("GPOS")) || len(fe.face.GSUB.Lookups) != hb.LookupCount(tag32("GSUB")) {
			if ev.Known(fGposDropped) {
				ev.Excluded(fGposDropped)
				ev.Note("font excluded under %s: %s#%d", fGposDropped, fe.rel, fe.index)
				continue
			}
		}
		if fe.refCmapOverridden {
			ev.Label("font_reference_given_port_cmap")
		}
		out = append(out, fe)
	}
	return out
}

// unicodeCmap: the cmap table has a Unicode or Microsoft (symbol, BMP, full) subtable, the only
// ones the reference selects (read from the table header only).
func unicodeCmap(ld *ot.Loader) bool {
	raw, err := ld.RawTable(ot.MustNewTag("cmap"))
	if err != nil || len(raw) < 4 {
		return true // no cmap at all: nothing to fall back to
	}
	n := int(binary.BigEndian.Uint16(raw[2:]))
	for i := 0; i < n && 4+8*i+8 <= len(raw); i++ {
		p, e := binary.BigEndian.Uint16(raw[4+8*i:]), binary.BigEndian.Uint16(raw[6+8*i:])
		if p == 3 && (e == 0 || e == 1 || e == 10) || p == 0 && e != 5 {
			return true
		}
	}
	return false
}

// ---- shaping ----

type G struct {
	ID      uint32 `json:"g"`
	Cluster int    `json:"cl"`
	XAdv    int32  `json:"ax"`
	YAdv    int32  `json:"ay"`
	XOff    int32  `json:"dx"`
	YOff    int32  `json:"dy"`
	Unsafe  bool   `json:"unsafe"`
}

func (g G) same(o G) bool {
	return g.ID == o.ID && g.Cluster == o.Cluster && g.XAdv == o.XAdv && g.YAdv == o.YAdv && g.XOff == o.XOff && g.YOff == o.YOff
}

func fmtGlyphs(gs []G) string {
	var sb strings.Builder
	sb.WriteByte('[')
	for i, g := range gs {
		if i > 0 {
			sb.WriteByte('|')
		}
		fmt.Fprintf(&sb, "%d=%d", g.ID, g.Cluster)
		if g.XOff != 0 || g.YOff != 0 {
			fmt.Fprintf(&sb, "@%d,%d", g.XOff, g.YOff)
		}
		fmt.Fprintf(&sb, "+%d", g.XAdv)
		if g.YAdv != 0 {
			fmt.Fprintf(&sb, ",%d", g.YAdv)
		}
		if g.Unsafe {
			sb.WriteString("#1")
		}
	}
	sb.WriteByte(']')
	return sb.String()
}

func langOf(c *Case) string {
	if c.Lang == "" {
		return "c" // what libharfbuzz uses as default language in a process that never called setlocale
	}
	return c.Lang
}

type panicError struct {
	val   string
	stack []string
}

func (p *panicError) Error() string { return "panic: " + p.val + " at " + strings.Join(p.stack, " < ") }

func panicSite(stack []byte) []string {
	var out []string
	seenPanic := false
	for _, l := range strings.Split(string(stack), "\n") {
		if strings.HasPrefix(l, "panic(") {
			seenPanic = true
			continue
		}
		if !seenPanic || strings.HasPrefix(l, "\t") {
			continue
		}
		if i := strings.Index(l, "github.com/go-text/typesetting/"); i >= 0 {
			fn := l[i+len("github.com/go-text/typesetting/"):]
			if j := strings.LastIndex(fn, "("); j > 0 {
				fn = fn[:j]
			}
			out = append(out, fn)
			if len(out) == 4 {
				break
			}
		}
	}
	return out
}

type shaper struct {
	face  *font.Face
	font  *harfbuzz.Font
	feats []harfbuzz.Feature
	props harfbuzz.SegmentProperties // resolved once on the whole item, reused for every piece
}

// shapePiece shapes text[start:start+length] with the surrounding text as context.
func (s *shaper) shapePiece(c *Case, text []rune, start, length int, flags harfbuzz.ShappingOptions) (gs []G, err error) {
	defer func() {
		if r := recover(); r != nil {
			err = &panicError{val: fmt.Sprint(r), stack: panicSite(debug.Stack())}
		}
	}()
	buf := harfbuzz.NewBuffer()
	buf.AddRunes(text, start, length)
	buf.Props = s.props
	buf.Flags = flags
	buf.ClusterLevel = harfbuzz.ClusterLevel(c.Cluster)
	buf.Shape(s.font, s.feats)
	gs = make([]G, len(buf.Info))
	for i, inf := range buf.Info {
		p := buf.Pos[i]
		gs[i] = G{ID: uint32(inf.Glyph), Cluster: inf.Cluster, XAdv: p.XAdvance, YAdv: p.YAdvance, XOff: p.XOffset, YOff: p.YOffset,
			Unsafe: inf.Mask&harfbuzz.GlyphUnsafeToBreak != 0}
	}
	return gs, nil
}

func newShaper(fe *fontEntry, c *Case) (*shaper, error) {
	face := font.NewFace(fe.face.Font)
	applyInstance(face, c)
	s := &shaper{font: harfbuzz.NewFont(face), face: face}
	s.font.Ptem = c.Ptem
	for _, f := range c.Features {
		end := f.End
		if end < 0 {
			end = harfbuzz.FeatureGlobalEnd
		}
		s.feats = append(s.feats, harfbuzz.Feature{Tag: ot.MustNewTag(f.Tag), Value: f.Value, Start: f.Start, End: end})
	}
	// segment properties: guessed on the whole item, like the caller of the verification does
	// (copy_buffer_properties gives every fragment the properties of the shaped buffer)
	buf := harfbuzz.NewBuffer()
	buf.AddRunes(c.runes(), c.Offset, c.Length)
	buf.Props.Direction = harfbuzz.Direction(c.Dir)
	if c.Script != "" {
		sc, err := language.ParseScript(c.Script)
		if err != nil {
			return nil, err
		}
		buf.Props.Script = sc
	}
	buf.Props.Language = language.NewLanguage(langOf(c))
	buf.GuessSegmentProperties()
	s.props = buf.Props
	return s, nil
}

type failure struct {
	Case     *Case  `json:"case"`
	Whole    string `json:"whole"`
	Pieces   string `json:"pieces"`
	Cuts     []int  `json:"cut_text_positions"`
	Upstream string `json:"upstream_verify"`
}

// finding ids
const (
	fUpstream = "C18-upstream-inherited" // libharfbuzz fails its own HB_BUFFER_FLAG_VERIFY on the same input
	// reverseGraphemes merges clusters for cluster level 0 instead of 1: at level 1 a buffer that is
	// reversed to its native direction keeps non-monotone clusters inside a grapheme (the same
	// defect as C01-level1-reverse-graphemes / C05-reverse-graphemes-cluster-level)
	fLevel1 = "C18-level1-reverse-graphemes"
	// syllabicInsertDottedCircles (like upstream's hb_syllabic_insert_dotted_circles) inserts one
	// dotted circle per broken syllable by comparing the syllable byte (4-bit serial, wrapping
	// 1..15, + type) with the last broken one: a broken syllable exactly 15 (30, ...) syllables
	// after the previous broken one has the same byte and gets no dotted circle, although the same
	// text shaped from that syllable on does.
	fSerialWrap = "C18-dotted-circle-serial-wraparound"
	// the base cached by the mark-to-base / mark-to-ligature lookups (lastBase, lastBaseUntil) is
	// not reset between lookups (upstream resets it in set_lookup_mask): which base a mark attaches
	// to depends on glyphs far before it, so the same fragment shapes differently on its own
	// (same defect as C05-mark-base-cache-not-reset, proposed_fixes/c05-mark-base-cache-not-reset.patch)
	fMarkCache = "C18-mark-base-cache-not-reset"
	// the shaper's general-category tables lack the <First>/<Last> ranges of UnicodeData.txt (CJK
	// ideographs, Hangul syllables, ...): ensureNativeDirection ("a left-to-right run of a
	// right-to-left script with digits and no letters keeps its direction") decides differently
	// for the whole text and for a piece (same defect as C05-general-category-first-last-ranges)
	fGenCat = "C18-general-category-first-last-ranges"
	// the whole GPOS table of the font is dropped by the loader (PairPos2 class count check, see
	// C05-pairpos2-class-count): none of the unsafe-to-break flags GPOS would set exist
	fGposDropped = "C18-pairpos2-class-count"
	// the 'rand' feature (random alternates) flags the whole buffer unsafe-to-break, but
	// applySubsAlternate sets the flag on Buffer.Info only: the glyphs this lookup has already
	// moved to the out-buffer (a separate slice in the port, the same memory upstream) lose it
	fRand = "C18-rand-feature-unsafe-to-break"
)

func firstLastRange(r rune) bool {
	for _, p := range [][2]rune{{0x3400, 0x4DBF}, {0x4E00, 0x9FFF}, {0xAC00, 0xD7A3}, {0x17000, 0x187F7}, {0x18D00, 0x18D08}, {0x20000, 0x2A6DF},
		{0x2A700, 0x2B739}, {0x2B740, 0x2B81D}, {0x2B820, 0x2CEA1}, {0x2CEB0, 0x2EBE0}, {0x30000, 0x3134A}, {0x31350, 0x323AF}} {
		if r >= p[0] && r <= p[1] {
			return true
		}
	}
	return false
}

var rtlScripts = map[language.Script]bool{
	language.Arabic: true, language.Hebrew: true, language.Syriac: true, language.Thaana: true, language.Cypriot: true, language.Kharoshthi: true,
	language.Phoenician: true, language.Nko: true, language.Lydian: true, language.Avestan: true, language.Imperial_Aramaic: true,
	language.Inscriptional_Pahlavi: true, language.Inscriptional_Parthian: true, language.Old_South_Arabian: true, language.Old_Turkic: true,
	language.Samaritan: true, language.Mandaic: true, language.Meroitic_Cursive: true, language.Meroitic_Hieroglyphs: true, language.Manichaean: true,
	language.Mende_Kikakui: true, language.Nabataean: true, language.Old_North_Arabian: true, language.Palmyrene: true, language.Psalter_Pahlavi: true,
	language.Hatran: true, language.Adlam: true, language.Hanifi_Rohingya: true, language.Old_Sogdian: true, language.Sogdian: true,
	language.Elymaic: true, language.Chorasmian: true, language.Yezidi: true,
}

var bidiNeutralHorizontal = map[language.Script]bool{language.Old_Hungarian: true, language.Old_Italic: true, language.Runic: true, language.Tifinagh: true}

// graphemesReversed: ensureNativeDirection reverses the buffer by grapheme for this (script,
// direction); digit/regional-indicator runs are the exception handled by the shaper itself, so
// this over-approximates slightly (only used as the precondition of a listed finding).
func graphemesReversed(script language.Script, dir harfbuzz.Direction) bool {
	switch dir {
	case harfbuzz.LeftToRight:
		return rtlScripts[script]
	case harfbuzz.RightToLeft:
		return !rtlScripts[script] && !bidiNeutralHorizontal[script]
	case harfbuzz.BottomToTop:
		return true
	}
	return false
}

// referenceVerifies runs the same input through libharfbuzz with HB_BUFFER_FLAG_VERIFY: false when
// upstream fails its own verification (triage only). libharfbuzz 6.0.0 aborts on an assertion
// inside that verification for some inputs ("text_start < text_end"), so the call is made in a
// worker process (this test binary, TestRefVerifyWorker); an abort counts as a failed
// verification.
func referenceVerifies(fe *fontEntry, c *Case, whole []G) (ok, available bool) {
	hb := fe.refFace()
	if hb == nil || hb.GlyphCount() == 0 {
		return false, false
	}
	cmd := exec.Command(os.Args[0], "-test.run", "^TestRefVerifyWorker$", "-test.v")
	cmd.Env = append(os.Environ(), "VERIF_OUT=", "C18_WORKER_CASE="+mustJSON(c))
	if !fe.refCmapOverridden {
		cmd.Env = append(cmd.Env, "C18_WORKER_CMAP_SAME=1") // the worker need not compare the character maps again
	}
	out, _ := cmd.CombinedOutput()
	// a passed verification is about this input only if the reference shaped it to the glyphs the
	// port did (glyph ids and clusters of the whole text); otherwise (fonts the loaders read
	// differently, reference-version skew, C05's findings) the reference verified something else
	comparable := true
	if i := strings.Index(string(out), "REF_GLYPHS "); i >= 0 {
		line := string(out)[i+len("REF_GLYPHS "):]
		if j := strings.IndexByte(line, '\n'); j >= 0 {
			line = line[:j]
		}
		var sb strings.Builder
		for _, g := range whole {
			fmt.Fprintf(&sb, "%d=%d,", g.ID, g.Cluster)
		}
		comparable = strings.TrimSpace(line) == sb.String()
	}
	if !comparable {
		if strings.Contains(string(out), "REF_VERIFY_OK") {
			ev.Label("reference_passes_on_other_glyphs_verdict_not_used")
			return false, false
		}
		ev.Label("reference_fails_on_other_glyphs")
	}
	switch {
	case strings.Contains(string(out), "REF_VERIFY_OK"):
		return true, true
	case strings.Contains(string(out), "REF_VERIFY_FAIL"):
		return false, true
	case strings.Contains(string(out), "Assertion") || strings.Contains(string(out), "SIGABRT"):
		ev.Label("reference_verify_aborts")
		return false, true
	}
	return false, false
}

func mustJSON(v any) string {
	b, _ := json.Marshal(v)
	return string(b)
}

func refInput(c *Case, extraFlags int) hbref.Input {
	in := hbref.Input{Text: c.runes(), ItemOffset: c.Offset, ItemLength: c.Length, Direction: c.Dir, Language: langOf(c),
		Flags: c.Flags&0xF | extraFlags, ClusterLevel: c.Cluster}
	if c.Script != "" {
		in.Script = tag32(c.Script)
	}
	for _, f := range c.Features {
		end := uint32(0xFFFFFFFF)
		if f.End >= 0 {
			end = uint32(f.End)
		}
		in.Features = append(in.Features, hbref.Feature{Tag: tag32(f.Tag), Value: f.Value, Start: uint32(f.Start), End: end})
	}
	return in
}

// TestRefVerifyWorker is the worker side of referenceVerifies (not a test of its own).
func TestRefVerifyWorker(t *testing.T) {
	s := os.Getenv("C18_WORKER_CASE")
	if s == "" {
		t.Skip("worker only")
	}
	var c Case
	if err := json.Unmarshal([]byte(s), &c); err != nil || c.wellFormed() != nil {
		fmt.Println("REF_VERIFY_BADCASE")
		return
	}
	fe, err := caseFont(&c)
	if err != nil || fe.refFace() == nil {
		fmt.Println("REF_VERIFY_UNAVAILABLE")
		return
	}
	applyRefInstance(fe.refFace(), &c) // the instance the port shaped: coordinates, ppem, ptem
	// the plain shaping first (what the reference makes of the input), then the verification, which
	// may abort the process
	var sb strings.Builder
	for _, g := range fe.refFace().Shape(refInput(&c, 0)).Glyphs {
		fmt.Fprintf(&sb, "%d=%d,", g.ID, g.Cluster)
	}
	fmt.Println("REF_GLYPHS " + sb.String())
	if fe.refFace().Shape(refInput(&c, hbref.FlagVerify)).OK {
		fmt.Println("REF_VERIFY_OK")
	} else {
		fmt.Println("REF_VERIFY_FAIL")
	}
}

// checkCase is the property for one decoded case.
func checkCase(t ev.TB, fe *fontEntry, c *Case, survey func(check string, f failure)) {
	if err := c.wellFormed(); err != nil {
		t.Fatalf("malformed case: %v", err)
	}
	s, err := newShaper(fe, c)
	if err != nil {
		t.Fatalf("%v", err)
	}
	text := c.runes()
	itemStart, itemEnd := c.Offset, c.Offset+c.Length
	flags := harfbuzz.ShappingOptions(c.Flags & 0xF)
	whole, err := s.shapePiece(c, text, itemStart, c.Length, flags)
	labels := []string{fmt.Sprintf("cluster_level_%d", c.Cluster)}
	if err != nil {
		// totality is C01's property; a panic cannot be judged here
		ev.Case(false, c, append(labels, "port_panic")...)
		return
	}
	if c.Cluster == 1 && graphemesReversed(s.props.Script, s.props.Direction) && ev.Known(fLevel1) {
		ev.Excluded(fLevel1)
		ev.Case(false, c, append(labels, "excluded_level1_reversed")...)
		return
	}
	if s.props.Direction == harfbuzz.LeftToRight && rtlScripts[s.props.Script] && ev.Known(fGenCat) {
		for _, r := range text[itemStart:itemEnd] {
			if firstLastRange(r) {
				ev.Excluded(fGenCat)
				ev.Case(false, c, append(labels, "excluded_gencat_ranges")...)
				return
			}
		}
	}
	// unspecified: a runaway (recursive lookups multiplying glyphs until the operation / length
	// budget, which depends on the buffer length, is exhausted) is cut off at a place upstream
	// does not specify (GSUB-3 expects "*"); the whole text and a piece have different budgets
	if len(whole) > 32*c.Length+256 {
		ev.Excluded("unspecified:operation-budget-exhausted")
		ev.Case(false, c, append(labels, "excluded_runaway")...)
		return
	}
	forward := s.props.Direction == harfbuzz.LeftToRight || s.props.Direction == harfbuzz.TopToBottom
	if forward {
		labels = append(labels, "forward")
	} else {
		labels = append(labels, "backward")
	}
	if len(c.Features) > 0 {
		labels = append(labels, "features")
	}
	if s.props.Direction == harfbuzz.LeftToRight && rtlScripts[s.props.Script] {
		// class label: left-to-right item of a right-to-left script with letters and a digit (or
		// regional indicator) directly followed by a mark
		letter, digitMark := false, false
		for i := itemStart; i < itemEnd; i++ {
			r := text[i]
			if unicode.IsLetter(r) {
				letter = true
			}
			if (unicode.Is(unicode.Nd, r) || r >= 0x1F1E6 && r <= 0x1F1FF) && i+1 < itemEnd && unicode.IsMark(text[i+1]) {
				digitMark = true
			}
		}
		if letter && digitMark {
			labels = append(labels, "ltr_item_rtl_script_letters_and_digit_with_mark")
		}
	}
	labels = append(labels, syllLabels(text[itemStart:itemEnd])...)
	if fe.synth != nil {
		labels = append(labels, synthLabels(fe, graphemesReversed(s.props.Script, s.props.Direction))...)
	}
	labels = append(labels, instanceLabels(fe, c, s.face, text[itemStart:itemEnd])...)
	n := len(whole)

	fail := func(check string, pieces []G, cuts []int, format string, args ...any) {
		up := "reference verdict not available or not comparable (the reference shapes this input to other glyphs)"
		if ok, avail := referenceVerifies(fe, c, whole); avail {
			if ok {
				up = "reference passes its own verification on this input: port defect"
			} else {
				up = "reference fails its own verification too: upstream-inherited"
				if ev.Known(fUpstream) {
					ev.Excluded(fUpstream)
					ev.Label("upstream_inherited")
					return
				}
			}
		}
		if survey != nil {
			survey(check, failure{Case: c, Whole: fmtGlyphs(whole), Pieces: fmtGlyphs(pieces), Cuts: cuts, Upstream: up})
			return
		}
		ev.Fail(t, check, c, "%s#%d %s: %s\n whole  %s\n pieces %s\n cuts %v\n %s", c.Font, c.Index, check, fmt.Sprintf(format, args...),
			fmtGlyphs(whole), fmtGlyphs(pieces), cuts, up)
	}

	// clause 2: flags uniform within a cluster
	for i := 1; i < n; i++ {
		if whole[i].Cluster == whole[i-1].Cluster && whole[i].Unsafe != whole[i-1].Unsafe {
			ev.Case(true, c, append(labels, "flags_not_uniform")...)
			fail("uniform", nil, nil, "glyphs %d and %d share cluster %d but differ in the unsafe-to-break flag", i-1, i, whole[i].Cluster)
			return
		}
	}
	// monotone clusters (precondition of the cut procedure; upstream verifies it as well)
	for i := 1; i < n; i++ {
		if whole[i-1].Cluster != whole[i].Cluster && (whole[i-1].Cluster < whole[i].Cluster) != forward {
			ev.Case(true, c, append(labels, "not_monotone")...)
			fail("monotone", nil, nil, "clusters are not monotone at glyph %d", i)
			return
		}
	}

	// clause 1: cut at every safe boundary, reshape, concatenate
	var recon []G
	var cuts []int
	safe, unsafe := 0, 0
	textStart, textEnd := itemStart, itemStart
	if !forward {
		textStart, textEnd = itemEnd, itemEnd
	}
	for end := 1; end <= n; end++ {
		if end < n {
			if whole[end].Cluster == whole[end-1].Cluster {
				continue
			}
			decider := end
			if !forward {
				decider = end - 1
			}
			if whole[decider].Unsafe {
				unsafe++
				continue
			}
			safe++
		}
		// text range of the fragment
		if end == n {
			if forward {
				textEnd = itemEnd
			} else {
				textStart = itemStart
			}
		} else if forward {
			textEnd = whole[end].Cluster
		} else {
			textStart = whole[end-1].Cluster
		}
		if !(textStart < textEnd) || textStart < itemStart || textEnd > itemEnd {
			ev.Case(true, c, labels...)
			fail("ranges", recon, cuts, "fragment text range [%d,%d) is empty or outside the item", textStart, textEnd)
			return
		}
		f := flags
		if textStart > itemStart {
			f &^= harfbuzz.Bot
		}
		if textEnd < itemEnd {
			f &^= harfbuzz.Eot
		}
		piece, err := s.shapePiece(c, text, textStart, textEnd-textStart, f)
		if err != nil {
			ev.Case(false, c, append(labels, "port_panic")...)
			return
		}
		recon = append(recon, piece...)
		if forward {
			cuts = append(cuts, textEnd)
			textStart = textEnd
		} else {
			cuts = append(cuts, textStart)
			textEnd = textStart
		}
	}
	nontrivial := safe >= 1 && unsafe >= 1
	if safe == 0 {
		labels = append(labels, "no_safe_inner_boundary")
	}
	if unsafe == 0 {
		labels = append(labels, "no_unsafe_boundary")
	}
	ev.Case(nontrivial, c, labels...)
	ev.LabelN("safe_boundaries", int64(safe))
	ev.LabelN("unsafe_boundaries", int64(unsafe))
	if ev.WantSample() {
		ev.Sample(map[string]any{"case": c, "whole": fmtGlyphs(whole), "safe": safe, "unsafe": unsafe})
	}
	if n == 0 {
		return
	}
	same := len(recon) == n
	for i := 0; same && i < n; i++ {
		same = recon[i].same(whole[i])
	}
	if !same {
		// inputs on which upstream fails its own verification come first (one listed finding);
		// the structural matchers below only see what the reference handles correctly
		if ok, avail := referenceVerifies(fe, c, whole); avail && !ok && ev.Known(fUpstream) {
			ev.Excluded(fUpstream)
			ev.Label("upstream_inherited")
			return
		}
		if dc, ok := fe.face.NominalGlyph(0x25CC); ok && ev.Known(fSerialWrap) {
			strip := func(gs []G) []G {
				var out []G
				for _, g := range gs {
					if g.ID != uint32(dc) {
						out = append(out, g)
					}
				}
				return out
			}
			a, b := strip(whole), strip(recon)
			eq := len(a) == len(b) && len(whole) != len(recon)
			for i := 0; eq && i < len(a); i++ {
				eq = a[i].same(b[i])
			}
			if eq {
				ev.Excluded(fSerialWrap)
				return
			}
		}
		if markOffsetsOnly(fe, whole, recon) && ev.Known(fMarkCache) {
			ev.Excluded(fMarkCache)
			return
		}
		for _, ft := range fe.feats {
			if ft == "rand" && ev.Known(fRand) {
				ev.Excluded(fRand)
				return
			}
		}
		fail("cut", recon, cuts, "shaping the pieces cut at safe boundaries does not reproduce the whole-text shaping")
	}
}

// markOffsetsOnly: the font has mark-to-base or mark-to-ligature lookups and the two sequences
// differ only in the offsets of glyphs of GDEF class mark.
func markOffsetsOnly(fe *fontEntry, a, b []G) bool {
	if len(a) != len(b) || fe.face.GDEF.GlyphClassDef == nil {
		return false
	}
	has := false
	for _, l := range fe.face.GPOS.Lookups {
		for _, st := range l.Subtables {
			switch st.(type) {
			case tables.MarkBasePos, tables.MarkLigPos:
				has = true
			}
		}
	}
	if !has {
		return false
	}
	for i := range a {
		x, y := a[i], b[i]
		if x.same(y) {
			continue
		}
		if x.ID != y.ID || x.Cluster != y.Cluster || x.XAdv != y.XAdv || x.YAdv != y.YAdv {
			return false
		}
		if cl, _ := fe.face.GDEF.GlyphClassDef.Class(tables.GlyphID(x.ID)); cl != 3 {
			return false
		}
	}
	return true
}

// ---- generator ----

// genWords draws "words": runs of 1-6 runes taken from one neighbourhood of the font's own (sorted)
// cmap sample or from one alphabet of the font's scripts (so that joining, ligating, kerning and
// mark-attaching sequences of one script meet), separated by spaces or not. Spaces give safe
// boundaries, the inside of words unsafe ones.
func genWords(t *rapid.T, fe *fontEntry, maxLen int) []rune {
	var out []rune
	nwords := rapid.IntRange(1, 8).Draw(t, "nwords")
	var alphabet []rune
	pickAlphabet := func() {
		if len(fe.pool) > 0 && rapid.IntRange(0, 9).Draw(t, "poolOrScript") < 6 {
			// a window of the sorted pool: runes of one block
			c := rapid.IntRange(0, len(fe.pool)-1).Draw(t, "poolCentre")
			lo, hi := c-30, c+30
			if lo < 0 {
				lo = 0
			}
			if hi > len(fe.pool) {
				hi = len(fe.pool)
			}
			alphabet = fe.pool[lo:hi]
			return
		}
		scripts := fe.scripts
		if len(scripts) == 0 {
			scripts = textgen.ScriptNames
		}
		alphabet = textgen.Alphabets[rapid.SampledFrom(scripts).Draw(t, "wordScript")]
	}
	pickAlphabet()
	for w := 0; w < nwords && len(out) < maxLen; w++ {
		if w > 0 && rapid.IntRange(0, 4).Draw(t, "newAlphabet") == 0 {
			pickAlphabet()
		}
		n := rapid.IntRange(2, 6).Draw(t, "wordLen")
		for i := 0; i < n; i++ {
			if rapid.IntRange(0, 9).Draw(t, "snippet") == 0 {
				out = append(out, rapid.SampledFrom(textgen.Snippets).Draw(t, "snippetValue")...)
			} else {
				out = append(out, rapid.SampledFrom(alphabet).Draw(t, "wordRune"))
			}
		}
		switch rapid.IntRange(0, 9).Draw(t, "separator") {
		case 0, 1, 2, 3, 4:
			out = append(out, ' ')
		case 5:
			out = append(out, rapid.SampledFrom([]rune{'.', ',', '-', '1', 0x00A0, 0x200C, 0x200D, 0x060C, 0x0964, '/'}).Draw(t, "separatorRune"))
		case 6:
			// a digit run (or regional indicators), possibly carrying a combining mark: no letter, so
			// cut out on its own it keeps the direction of the buffer where the whole text of a
			// right-to-left script is reversed (ensureNativeDirection), and marks after non-letters
			// are where reordering/fallback positioning see a different neighbourhood in a piece
			nd := rapid.IntRange(1, 3).Draw(t, "digits")
			base := rapid.SampledFrom([]rune{'0', '0', 0x0660, 0x06F0, 0x0966, 0x1F1E6}).Draw(t, "digitBase")
			for i := 0; i < nd; i++ {
				out = append(out, base+rune(rapid.IntRange(0, 9).Draw(t, "digit")))
				if rapid.IntRange(0, 2).Draw(t, "digitMark") == 0 {
					out = append(out, rapid.SampledFrom([]rune{0x0301, 0x0308, 0x0323, 0x064E, 0x0651, 0x0670, 0x05B4, 0x05BC, 0x0711, 0x093C, 0x094D, 0x0DDA, 0x0E31, 0x20DD, 0xFE0F}).Draw(t, "digitMarkRune"))
				}
			}
			if rapid.Bool().Draw(t, "digitSpace") {
				out = append(out, ' ')
			}
		}
	}
	if len(out) > maxLen {
		out = out[:maxLen]
	}
	return out
}

var commonFeatures = []string{"kern", "liga", "frac", "smcp", "dlig", "calt", "clig", "onum", "sups", "numr", "dnom", "ccmp", "locl", "mark", "mkmk", "init", "rlig", "salt", "ss01", "aalt", "zero", "c2sc", "hlig", "curs", "rclt", "cswh"}

func genCase(t *rapid.T, fonts []*fontEntry) (*fontEntry, *Case) {
	// a solid stratum of generated fonts (synth_test.go): 1 case in 6
	if rapid.IntRange(0, 5).Draw(t, "synthStratum") == 0 {
		return genSynthCase(t)
	}
	fe := fonts[rapid.IntRange(0, len(fonts)-1).Draw(t, "font")]
	c := &Case{Font: fe.rel, Index: fe.index}
	opts := textgen.Opts{MaxLen: ev.Scale(32, 64), FontPool: fe.pool, Hostile: 4, NoInvalid: true}
	if len(fe.scripts) > 0 && rapid.IntRange(0, 19).Draw(t, "ownScripts") < 19 {
		opts.Scripts = fe.scripts
	}
	var text []rune
	var syll *syllScript
	// low-frequency stratum: long homogeneous texts of one syllabic script (syll_test.go); fonts
	// that cover such a script or for which upstream has test texts get it in 1 of 10 cases (syllables built from the script's classes, or drawn from pieces of those texts), the others in 1 of 60 (on .notdef)
	long := false
	var units [][]rune
	if (len(fe.syll) > 0 || len(fe.units) > 0) && rapid.IntRange(0, 9).Draw(t, "syllableText") == 0 {
		long = true
		if len(fe.units) > 0 && (len(fe.syll) == 0 || rapid.Bool().Draw(t, "upstreamUnits")) {
			units = fe.units
		}
		if len(fe.syll) > 0 {
			syll = rapid.SampledFrom(fe.syll).Draw(t, "syllableScript")
		}
	} else if len(fe.syll) == 0 && len(fe.units) == 0 && rapid.IntRange(0, 59).Draw(t, "syllableTextAny") == 0 {
		long = true
		syll = rapid.SampledFrom(syllScriptsAny()).Draw(t, "syllableScriptAny")
	}
	// fonts that list kerning pairs: a quarter of the texts (half on variable and device-table
	// fonts) are made of listed pairs, so that pair positioning is dense
	pairShare := 0
	if len(fe.pairs) > 0 {
		pairShare = 2
		if len(fe.axes) > 0 || fe.device {
			pairShare = 4
		}
	}
	if !long && pairShare > 0 && rapid.IntRange(0, 7).Draw(t, "pairText") < pairShare {
		text = genPairText(t, fe, opts.MaxLen)
	} else if long {
		text, _ = genSyllableText(t, syll, units, ev.Scale(1, 2))
		if units != nil {
			syll = nil // script and direction: the ordinary draws
		}
	} else if rapid.IntRange(0, 9).Draw(t, "textMode") < 8 {
		text = genWords(t, fe, opts.MaxLen)
	} else {
		text = textgen.Text(t, opts)
	}
	c.Text = make([]int, len(text))
	for i, r := range text {
		c.Text[i] = int(r)
	}
	c.Offset, c.Length = 0, len(text)
	if len(text) > 2 && !long && rapid.IntRange(0, 5).Draw(t, "subrun") == 0 {
		c.Offset = rapid.IntRange(0, len(text)-1).Draw(t, "itemOffset")
		c.Length = rapid.IntRange(1, len(text)-c.Offset).Draw(t, "itemLength")
	}
	c.Dir = rapid.SampledFrom([]int{0, 0, 0, 0, 0, 4, 5, 5, 6, 7}).Draw(t, "direction")
	switch sm := rapid.IntRange(0, 9).Draw(t, "scriptMode"); {
	case syll != nil:
		if sm < 5 {
			c.Script = syll.tag
		}
		if c.Dir != 0 && sm%2 == 0 {
			c.Dir = 0
		}
	case sm <= 5:
	default:
		if len(fe.scripts) > 0 {
			c.Script = alphabetScript[rapid.SampledFrom(fe.scripts).Draw(t, "ownScript")][0]
		}
	}
	if rapid.IntRange(0, 3).Draw(t, "langMode") == 0 && len(fe.scripts) > 0 {
		c.Lang = alphabetScript[rapid.SampledFrom(fe.scripts).Draw(t, "ownLang")][1]
	}
	nf := rapid.SampledFrom([]int{0, 0, 0, 1, 1, 2}).Draw(t, "nfeatures")
	for i := 0; i < nf; i++ {
		var tag string
		if len(fe.feats) > 0 && rapid.IntRange(0, 9).Draw(t, "featSrc") < 7 {
			tag = rapid.SampledFrom(fe.feats).Draw(t, "featTag")
		} else {
			tag = rapid.SampledFrom(commonFeatures).Draw(t, "featCommon")
		}
		f := Feat{Tag: tag, Value: rapid.SampledFrom([]uint32{1, 1, 1, 0, 2}).Draw(t, "featValue"), Start: 0, End: -1}
		if rapid.IntRange(0, 3).Draw(t, "featRanged") == 0 {
			f.Start = rapid.IntRange(0, len(text)).Draw(t, "featStart")
			if rapid.Bool().Draw(t, "featClosed") {
				f.End = rapid.IntRange(f.Start, len(text)+1).Draw(t, "featEnd")
			}
		}
		c.Features = append(c.Features, f)
	}
	c.Cluster = rapid.SampledFrom([]int{0, 0, 0, 1}).Draw(t, "clusterLevel")
	c.Flags = rapid.SampledFrom([]int{3, 3, 3, 3, 3, 0, 1, 2, 3 | 4, 3 | 8}).Draw(t, "flags")
	genInstance(t, fe, c)
	return fe, c
}

// ---- tests ----

func requireReference() {
	v := hbref.Version()
	if v == "" || v[0] < '0' || v[0] > '9' {
		fmt.Println("INFRASTRUCTURE: libharfbuzz reference (used for triage) not available")
		os.Exit(2)
	}
}

func TestPropSafeToBreak(t *testing.T) {
	requireReference()
	fonts := pickFonts(ev.Scale(12, 44))
	if len(fonts) == 0 {
		fmt.Println("INFRASTRUCTURE: no corpus font available to this shard")
		os.Exit(2)
	}
	rapid.Check(t, func(t *rapid.T) {
		fe, c := genCase(t, fonts)
		checkCase(t, fe, c, nil)
	})
}

// TestSurvey (triage aid, not part of any tier): C18_SURVEY=<file> collects every failure over all
// fonts without failing.
func TestSurvey(t *testing.T) {
	out := os.Getenv("C18_SURVEY")
	if out == "" {
		t.Skip("set C18_SURVEY")
	}
	requireReference()
	synthOnly := os.Getenv("C18_SURVEY_SYNTH") != "" // generated fonts only (the shard's pool)
	var fonts []*fontEntry
	if !synthOnly {
		fonts = pickFonts(100000)
	}
	f, err := os.Create(out)
	if err != nil {
		t.Fatal(err)
	}
	defer f.Close()
	enc := json.NewEncoder(f)
	counts := map[string]int{}
	rapid.Check(t, func(t *rapid.T) {
		var fe *fontEntry
		var c *Case
		if synthOnly {
			fe, c = genSynthCase(t)
		} else {
			fe, c = genCase(t, fonts)
		}
		checkCase(t, fe, c, func(check string, fl failure) {
			counts[check+" / "+fl.Upstream]++
			enc.Encode(map[string]any{"check": check, "failure": fl})
		})
	})
	for k, v := range counts {
		t.Logf("%6d %s", v, k)
	}
}

func TestReplay(t *testing.T) {
	requireReference()
	var files []string
	if p := ev.ReplayPath(); p != "" {
		files = []string{p}
	} else if d := os.Getenv("VERIF_REPLAY_DIR"); d != "" {
		files, _ = filepath.Glob(filepath.Join(d, "*.json"))
		sort.Strings(files)
	}
	for _, p := range files {
		_, raw, err := ev.LoadReplay(p)
		if err != nil {
			t.Fatalf("replay %s: %v", p, err)
		}
		var c Case
		if err := json.Unmarshal(raw, &c); err != nil {
			t.Fatalf("replay %s: %v", p, err)
		}
		fe, err := caseFont(&c)
		if err != nil {
			t.Fatalf("replay %s: %v", p, err)
		}
		checkCase(t, fe, &c, nil)
	}
}
