package c18

import (
	"fmt"
	"os"
	"reflect"
	"sort"
	"testing"

	"github.com/go-text/typesetting/font/opentype/tables"

	"verif/internal/corpus"
)

// hintingDevices counts the hinting Device tables (ppem-indexed deltas) reachable from v: value
// records, anchors (format 3) of GPOS, caret values and others of GDEF.
func hintingDevices(v reflect.Value, depth int, n *int) {
	if depth > 30 || *n > 0 {
		return
	}
	// (class-based pair records are kept as raw bytes by the loader: there the value format tells)
	if v.Type() == reflect.TypeOf(tables.ValueFormat(0)) && v.Uint()&0x00F0 != 0 {
		*n++
		return
	}
	switch v.Kind() {
	case reflect.Interface, reflect.Ptr:
		if !v.IsNil() {
			hintingDevices(v.Elem(), depth+1, n)
		}
	case reflect.Struct:
		if v.Type() == reflect.TypeOf(tables.DeviceHinting{}) {
			*n++
			return
		}
		for i := 0; i < v.NumField(); i++ {
			hintingDevices(v.Field(i), depth+1, n)
		}
	case reflect.Slice, reflect.Array:
		if k := v.Type().Elem().Kind(); k == reflect.Uint8 || k == reflect.Uint16 || k == reflect.Int8 || k == reflect.Int16 || k == reflect.Uint32 {
			return
		}
		for i := 0; i < v.Len(); i++ {
			hintingDevices(v.Index(i), depth+1, n)
		}
	}
}

// deviceFonts: corpus faces whose GPOS or GDEF carry hinting Device tables (found by
// TestFindDeviceFonts over the whole corpus; the list is static because finding them means parsing
// every font). They form a stratum of their own so that every run shapes them with a ppem set.
var deviceFonts = []string{
	"opentype/common/FreeSerif.ttf#0",
}

// TestFindDeviceFonts (development aid): C18_FIND_DEVICES=1 prints the list for deviceFonts.
func TestFindDeviceFonts(t *testing.T) {
	if os.Getenv("C18_FIND_DEVICES") == "" {
		t.Skip("set C18_FIND_DEVICES")
	}
	var out []string
	for _, rel := range corpus.Files() {
		faces, err := corpus.Faces(rel)
		if err != nil {
			continue
		}
		for i, f := range faces {
			tr := corpus.TraitsOf(rel, i)
			if tr.Morx || tr.Fvar { // (in a variable font the device offsets are variation indexes)
				continue
			}
			n := 0
			hintingDevices(reflect.ValueOf(f.Font.GPOS.Lookups), 0, &n)
			if n == 0 {
				hintingDevices(reflect.ValueOf(f.Font.GDEF), 0, &n)
			}
			if n > 0 {
				out = append(out, fmt.Sprintf("%s#%d", rel, i))
			}
		}
	}
	sort.Strings(out)
	fmt.Printf("scanned %d files\n", len(corpus.Files()))
	for _, s := range out {
		fmt.Printf("DEVICE\t%q,\n", s)
	}
}
