package c18

// Font instance settings per case: variation coordinates (design values through SetVariations, or
// normalized coordinates through SetCoords), x/y ppem (hinting Device tables of GPOS/GDEF apply),
// point size (trak). The whole text and every piece are shaped by one harfbuzz.Font carrying the
// settings; the reference gets the same settings for its VERIFY verdict.

import (
	"math"
	"sort"

	"github.com/go-text/typesetting/font"
	ot "github.com/go-text/typesetting/font/opentype"
	"github.com/go-text/typesetting/font/opentype/tables"
	"pgregory.net/rapid"

	"verif/internal/corpus"
	"verif/internal/ev"
	"verif/internal/hbref"
)

type Var struct {
	Tag   string  `json:"tag"`
	Value float32 `json:"value"`
}

type axis struct {
	Tag           string
	Min, Def, Max float32
}

// loadAxes reads the fvar axes of a corpus face through the public table parser.
func loadAxes(rel string, index int) []axis {
	lds, err := corpus.Loaders(rel)
	if err != nil || index >= len(lds) {
		return nil
	}
	raw, err := lds[index].RawTable(ot.MustNewTag("fvar"))
	if err != nil {
		return nil
	}
	fv, _, err := tables.ParseFvar(raw)
	if err != nil {
		return nil
	}
	var out []axis
	for _, a := range fv.FvarRecords.Axis {
		out = append(out, axis{Tag: a.Tag.String(), Min: a.Minimum, Def: a.Default, Max: a.Maximum})
	}
	return out
}

// applyInstance puts the settings of the case on a fresh port face.
func applyInstance(face *font.Face, c *Case) {
	switch {
	case len(c.Vars) > 0:
		vs := make([]font.Variation, len(c.Vars))
		for i, v := range c.Vars {
			vs[i] = font.Variation{Tag: ot.MustNewTag(v.Tag), Value: v.Value}
		}
		face.SetVariations(vs)
	case len(c.Coords) > 0:
		cs := make([]tables.Coord, len(c.Coords))
		for i, v := range c.Coords {
			cs[i] = tables.Coord(v)
		}
		face.SetCoords(cs)
	}
	if c.XPpem != 0 || c.YPpem != 0 {
		face.SetPpem(uint16(c.XPpem), uint16(c.YPpem))
	}
}

// applyRefInstance: the same settings on the reference font (worker process: never reset).
func applyRefInstance(hb *hbref.Face, c *Case) {
	switch {
	case len(c.Vars) > 0:
		vs := make([]hbref.Variation, len(c.Vars))
		for i, v := range c.Vars {
			vs[i] = hbref.Variation{Tag: tag32(v.Tag), Value: v.Value}
		}
		hb.SetVariations(vs)
	case len(c.Coords) > 0:
		cs := make([]int32, len(c.Coords))
		for i, v := range c.Coords {
			cs[i] = int32(v)
		}
		hb.SetNormalizedCoords(cs)
	}
	if c.XPpem != 0 || c.YPpem != 0 {
		hb.SetPpem(c.XPpem, c.YPpem)
	}
	if c.Ptem != 0 {
		hb.SetPtem(c.Ptem)
	}
}

func (c *Case) instanceWellFormed() bool {
	for _, v := range c.Vars {
		if len(v.Tag) != 4 || v.Value != v.Value || math.IsInf(float64(v.Value), 0) {
			return false
		}
	}
	for _, v := range c.Coords {
		if v < -16384 || v > 16384 {
			return false
		}
	}
	return c.XPpem >= 0 && c.XPpem <= 0xFFFF && c.YPpem >= 0 && c.YPpem <= 0xFFFF && c.Ptem == c.Ptem && c.Ptem >= 0 && !(len(c.Vars) > 0 && len(c.Coords) > 0)
}

// genInstance draws the instance settings of a case.
func genInstance(t *rapid.T, fe *fontEntry, c *Case) {
	if len(fe.axes) > 0 && rapid.IntRange(0, 9).Draw(t, "instanceMode") < 7 {
		if rapid.IntRange(0, 3).Draw(t, "normalizedCoords") == 0 {
			// normalized coordinates, by axis order
			for range fe.axes {
				c.Coords = append(c.Coords, rapid.SampledFrom([]int{0, 16384, -16384, 8192, -8192, 1, -1, 4096, 12288, -12288}).Draw(t, "coord"))
			}
			if rapid.IntRange(0, 2).Draw(t, "coordRandom") == 0 {
				for i := range c.Coords {
					c.Coords[i] = rapid.IntRange(-16384, 16384).Draw(t, "coordValue")
				}
			}
		} else {
			for _, a := range fe.axes {
				var v float32
				switch rapid.IntRange(0, 7).Draw(t, "axisMode") {
				case 0:
					continue // axis not named: default
				case 1:
					v = a.Min
				case 2:
					v = a.Max
				case 3:
					v = a.Def
				case 4: // between the default and an extreme: between masters
					v = (a.Def + a.Min) / 2
				case 5:
					v = (a.Def + a.Max) / 2
				default:
					v = a.Min + (a.Max-a.Min)*float32(rapid.IntRange(0, 1000).Draw(t, "axisPermille"))/1000
				}
				c.Vars = append(c.Vars, Var{Tag: a.Tag, Value: v})
			}
		}
	}
	ppemShare := 5 // of 20
	if fe.device {
		ppemShare = 16
	}
	if rapid.IntRange(0, 19).Draw(t, "ppemMode") < ppemShare {
		c.XPpem = rapid.SampledFrom([]int{8, 9, 10, 11, 12, 13, 14, 15, 16, 17, 18, 19, 20, 24, 32, 100}).Draw(t, "xppem")
		c.YPpem = c.XPpem
		if rapid.IntRange(0, 3).Draw(t, "ppemAnisotropic") == 0 {
			c.YPpem = rapid.SampledFrom([]int{0, 9, 12, 16, 20}).Draw(t, "yppem")
		}
	}
	if rapid.IntRange(0, 9).Draw(t, "ptemMode") == 0 {
		c.Ptem = rapid.SampledFrom([]float32{6, 9, 12, 24, 72, 144}).Draw(t, "ptem")
	}
}

// ---- kerning pairs the font lists ----

// loadPairs maps the pairs of the PairPos subtables back to runes: first glyphs from the
// coverage, second glyphs from the pair sets (format 1) or the non-zero classes (format 2).
func loadPairs(fe *fontEntry) {
	var pairSubtables []tables.PairPos
	for _, l := range fe.face.GPOS.Lookups {
		for _, st := range l.Subtables {
			if pp, ok := st.(tables.PairPos); ok {
				pairSubtables = append(pairSubtables, pp)
			}
		}
	}
	if len(pairSubtables) == 0 || fe.face.Cmap == nil {
		return
	}
	type gr struct {
		g tables.GlyphID
		r rune
	}
	var cands []gr
	seen := map[tables.GlyphID]bool{}
	for it := fe.face.Cmap.Iter(); it.Next() && len(cands) < 4000; {
		r, gid := it.Char()
		g := tables.GlyphID(gid)
		if g != 0 && !seen[g] && r >= 0x20 && !(r >= 0xD800 && r <= 0xDFFF) {
			seen[g] = true
			cands = append(cands, gr{g, r})
		}
	}
	sort.Slice(cands, func(i, j int) bool { return cands[i].r < cands[j].r })
	rnd := ev.NewRand(uint64(len(cands))*7919 + uint64(len(pairSubtables)))
	pick := func(in []gr, n int) []gr {
		if len(in) <= n {
			return in
		}
		out := make([]gr, n)
		for i := range out {
			out[i] = in[rnd.Intn(len(in))]
		}
		return out
	}
	set := map[[2]rune]bool{}
	for _, pp := range pairSubtables {
		if len(set) >= 600 {
			break
		}
		switch d := pp.Data.(type) {
		case tables.PairPosData1:
			var firsts []gr
			var idx []int
			for _, c := range cands {
				if i, ok := d.Cov().Index(c.g); ok && i < len(d.PairSets) {
					firsts, idx = append(firsts, c), append(idx, i)
				}
			}
			for k, f := range firsts {
				if len(set) >= 600 {
					break
				}
				n := 0
				for _, s := range cands {
					if _, ok := d.PairSets[idx[k]].FindGlyph(s.g); ok {
						set[[2]rune{f.r, s.r}] = true
						if n++; n >= 6 {
							break
						}
					}
				}
			}
		case tables.PairPosData2:
			if d.Cov() == nil || d.ClassDef2 == nil {
				continue
			}
			var firsts, seconds []gr
			for _, c := range cands {
				if _, ok := d.Cov().Index(c.g); ok {
					firsts = append(firsts, c)
				}
				if cl, _ := d.ClassDef2.Class(c.g); cl != 0 {
					seconds = append(seconds, c)
				}
			}
			for _, f := range pick(firsts, 60) {
				for _, s := range pick(seconds, 5) {
					set[[2]rune{f.r, s.r}] = true
				}
			}
		}
	}
	for p := range set {
		fe.pairs = append(fe.pairs, p)
	}
	sort.Slice(fe.pairs, func(i, j int) bool {
		if fe.pairs[i][0] != fe.pairs[j][0] {
			return fe.pairs[i][0] < fe.pairs[j][0]
		}
		return fe.pairs[i][1] < fe.pairs[j][1]
	})
	fe.pairSet = set
}

// genPairText: 1-10 listed pairs, sometimes chained (the second glyph of one is the first of the
// next when the font lists such a pair), sometimes separated.
func genPairText(t *rapid.T, fe *fontEntry, maxLen int) []rune {
	var out []rune
	n := rapid.IntRange(1, 10).Draw(t, "npairs")
	for i := 0; i < n && len(out)+2 <= maxLen; i++ {
		p := rapid.SampledFrom(fe.pairs).Draw(t, "pair")
		out = append(out, p[0], p[1])
		switch rapid.IntRange(0, 5).Draw(t, "pairSeparator") {
		case 0:
			out = append(out, ' ')
		case 1:
			out = append(out, rapid.SampledFrom([]rune{'.', ',', '-', 0x200D, 0x0301}).Draw(t, "pairSeparatorRune"))
		}
	}
	return out
}

// instanceLabels classifies the settings of a case.
func instanceLabels(fe *fontEntry, c *Case, face *font.Face, item []rune) []string {
	var out []string
	nonDefault := false
	for _, v := range face.Coords() {
		nonDefault = nonDefault || v != 0
	}
	if len(c.Vars) > 0 || len(c.Coords) > 0 {
		out = append(out, "variation_settings_given")
		if len(c.Coords) > 0 {
			out = append(out, "normalized_coords_given")
		}
	}
	if nonDefault {
		out = append(out, "variable_non_default_instance")
	}
	if c.XPpem != 0 || c.YPpem != 0 {
		out = append(out, "ppem_set")
		if fe.device {
			out = append(out, "ppem_set_font_has_device_tables")
		}
	}
	if c.Ptem != 0 {
		out = append(out, "ptem_set")
	}
	if fe.pairSet != nil {
		for i := 0; i+1 < len(item); i++ {
			if fe.pairSet[[2]rune{item[i], item[i+1]}] {
				out = append(out, "pair_from_pairpos_coverage")
				if nonDefault {
					out = append(out, "pair_from_pairpos_coverage_non_default_instance")
				}
				break
			}
		}
	}
	return out
}
