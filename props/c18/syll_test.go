package c18

// Long homogeneous complex-script texts ("sizes beyond internal constants"): N consecutive short
// syllables (or clusters) of ONE script, N around the powers of two the shapers count in (the
// 4-bit syllable serial wraps after 15 syllables, 8-bit fields after 255), built from the font's
// own coverage. The same file (package clause aside) is used by props/c05 and props/c18.

import (
	"pgregory.net/rapid"
)

type syllKind int

const (
	syllIndic  syllKind = iota // consonant, consonant + vowel sign, consonant + virama, + nukta/finals
	syllHangul                 // conjoining jamo L V (T)
	syllSaraAm                 // Thai / Lao consonant (+ tone mark) + SARA AM / vowel above
	syllArabic                 // one long joined word: letters with marks
)

type syllScript struct {
	name    string // label
	tag     string // ISO 15924
	kind    syllKind
	cons    []rune // consonants (L jamo; Arabic letters)
	vowels  []rune // dependent vowel signs (V jamo; SARA AM and vowels; Arabic marks)
	finals  []rune // nukta, anusvara/visarga, tone marks, T jamo, medials
	virama  rune   // virama / coeng / sakot / pangkon (0: none)
	special []rune // other letters of the block: independent vowels, placeholders, signs
}

func rr(lo, hi rune) []rune {
	out := make([]rune, 0, hi-lo+1)
	for r := lo; r <= hi; r++ {
		out = append(out, r)
	}
	return out
}

func rcat(parts ...[]rune) []rune {
	var out []rune
	for _, p := range parts {
		out = append(out, p...)
	}
	return out
}

// indicBlock: the ISCII-derived layout shared by the nine blocks U+0900..U+0D7F.
func indicBlock(name, tag string, base rune) syllScript {
	return syllScript{name: name, tag: tag, kind: syllIndic,
		cons: rr(base+0x15, base+0x39), vowels: rr(base+0x3E, base+0x4C), finals: []rune{base + 0x3C, base + 0x01, base + 0x02, base + 0x03},
		virama: base + 0x4D, special: rcat(rr(base+0x05, base+0x14), []rune{base + 0x3D, base + 0x50, base + 0x60, base + 0x61, base + 0x71, base + 0x72})}
}

var allSyllScripts = []syllScript{
	indicBlock("devanagari", "Deva", 0x0900), indicBlock("bengali", "Beng", 0x0980), indicBlock("gurmukhi", "Guru", 0x0A00),
	indicBlock("gujarati", "Gujr", 0x0A80), indicBlock("oriya", "Orya", 0x0B00), indicBlock("tamil", "Taml", 0x0B80),
	indicBlock("telugu", "Telu", 0x0C00), indicBlock("kannada", "Knda", 0x0C80), indicBlock("malayalam", "Mlym", 0x0D00),
	{name: "sinhala", tag: "Sinh", kind: syllIndic, cons: rr(0x0D9A, 0x0DC6), vowels: rr(0x0DCF, 0x0DDF), finals: []rune{0x0D82, 0x0D83}, virama: 0x0DCA, special: rr(0x0D85, 0x0D96)},
	{name: "khmer", tag: "Khmr", kind: syllIndic, cons: rr(0x1780, 0x17A2), vowels: rr(0x17B6, 0x17C5), finals: rr(0x17C6, 0x17D1), virama: 0x17D2, special: rr(0x17A3, 0x17B3)},
	{name: "myanmar", tag: "Mymr", kind: syllIndic, cons: rr(0x1000, 0x1020), vowels: rcat(rr(0x102B, 0x1032), []rune{0x1036}), finals: []rune{0x1037, 0x1038, 0x103A, 0x103B, 0x103C, 0x103D, 0x103E}, virama: 0x1039, special: rr(0x1021, 0x102A)},
	{name: "tibetan", tag: "Tibt", kind: syllIndic, cons: rr(0x0F40, 0x0F6C), vowels: rcat(rr(0x0F71, 0x0F7D), []rune{0x0F80}), finals: rcat(rr(0x0F90, 0x0FBC), []rune{0x0F7E, 0x0F7F}), virama: 0x0F84, special: []rune{0x0F00, 0x0F0B, 0x0F88, 0x0F89}},
	{name: "balinese", tag: "Bali", kind: syllIndic, cons: rr(0x1B13, 0x1B33), vowels: rr(0x1B35, 0x1B43), finals: rr(0x1B00, 0x1B04), virama: 0x1B44, special: rr(0x1B05, 0x1B12)},
	{name: "javanese", tag: "Java", kind: syllIndic, cons: rr(0xA98F, 0xA9B2), vowels: rr(0xA9B4, 0xA9BC), finals: rcat(rr(0xA980, 0xA983), []rune{0xA9B3, 0xA9BD, 0xA9BE, 0xA9BF}), virama: 0xA9C0, special: rr(0xA984, 0xA98E)},
	{name: "sundanese", tag: "Sund", kind: syllIndic, cons: rr(0x1B8A, 0x1BA0), vowels: rr(0x1BA4, 0x1BA9), finals: rcat(rr(0x1B80, 0x1B82), rr(0x1BA1, 0x1BA3)), virama: 0x1BAA, special: rr(0x1B83, 0x1B89)},
	{name: "taitham", tag: "Lana", kind: syllIndic, cons: rr(0x1A20, 0x1A4C), vowels: rr(0x1A61, 0x1A73), finals: rcat(rr(0x1A55, 0x1A5E), rr(0x1A74, 0x1A7C)), virama: 0x1A60, special: rr(0x1A4D, 0x1A54)},
	{name: "buginese", tag: "Bugi", kind: syllIndic, cons: rr(0x1A00, 0x1A16), vowels: rr(0x1A17, 0x1A1B)},
	{name: "batak", tag: "Batk", kind: syllIndic, cons: rr(0x1BC0, 0x1BE3), vowels: rr(0x1BE7, 0x1BEF), finals: []rune{0x1BE6, 0x1BF0, 0x1BF1}, virama: 0x1BF2, special: []rune{0x1BE4, 0x1BE5}},
	{name: "cham", tag: "Cham", kind: syllIndic, cons: rr(0xAA06, 0xAA28), vowels: rr(0xAA29, 0xAA32), finals: rcat(rr(0xAA33, 0xAA36), rr(0xAA40, 0xAA4D)), special: rr(0xAA00, 0xAA05)},
	{name: "brahmi", tag: "Brah", kind: syllIndic, cons: rr(0x11013, 0x11037), vowels: rr(0x11038, 0x11045), finals: rr(0x11000, 0x11002), virama: 0x11046, special: rr(0x11003, 0x11012)},
	{name: "kaithi", tag: "Kthi", kind: syllIndic, cons: rr(0x1108D, 0x110AF), vowels: rr(0x110B0, 0x110B8), finals: []rune{0x11080, 0x11081, 0x11082, 0x110BA}, virama: 0x110B9, special: rr(0x11083, 0x1108C)},
	{name: "chakma", tag: "Cakm", kind: syllIndic, cons: rr(0x11107, 0x11126), vowels: rr(0x11127, 0x11132), finals: rr(0x11100, 0x11102), virama: 0x11133, special: rr(0x11103, 0x11106)},
	{name: "sharada", tag: "Shrd", kind: syllIndic, cons: rr(0x11191, 0x111B2), vowels: rr(0x111B3, 0x111BF), finals: rcat(rr(0x11180, 0x11182), []rune{0x111CA}), virama: 0x111C0, special: rr(0x11183, 0x11190)},
	{name: "grantha", tag: "Gran", kind: syllIndic, cons: rr(0x11315, 0x11339), vowels: rr(0x1133E, 0x1134C), finals: []rune{0x11300, 0x11301, 0x11302, 0x11303, 0x1133C}, virama: 0x1134D, special: rr(0x11305, 0x11314)},
	{name: "hangul-jamo", tag: "Hang", kind: syllHangul, cons: rr(0x1100, 0x1112), vowels: rr(0x1161, 0x1175), finals: rr(0x11A8, 0x11C2), special: []rune{0x115F, 0x1160, 0x302E, 0x302F, 0xAC00, 0xAC01, 0xD7A3}},
	{name: "thai", tag: "Thai", kind: syllSaraAm, cons: rr(0x0E01, 0x0E2E), vowels: []rune{0x0E33, 0x0E33, 0x0E33, 0x0E31, 0x0E34, 0x0E35, 0x0E36, 0x0E37, 0x0E38, 0x0E39, 0x0E4D}, finals: rr(0x0E47, 0x0E4C), special: []rune{0x0E30, 0x0E32, 0x0E40, 0x0E41, 0x0E42, 0x0E43, 0x0E44}},
	{name: "lao", tag: "Laoo", kind: syllSaraAm, cons: rcat(rr(0x0E81, 0x0E82), []rune{0x0E84}, rr(0x0E87, 0x0E8A), rr(0x0E94, 0x0EA3), []rune{0x0EA5, 0x0EA7}, rr(0x0EAA, 0x0EAE)), vowels: []rune{0x0EB3, 0x0EB3, 0x0EB3, 0x0EB1, 0x0EB4, 0x0EB5, 0x0EB6, 0x0EB7, 0x0EB8, 0x0EB9, 0x0ECD}, finals: rr(0x0EC8, 0x0ECB), special: []rune{0x0EB0, 0x0EB2, 0x0EC0, 0x0EC1, 0x0EC2, 0x0EC3, 0x0EC4}},
	{name: "arabic", tag: "Arab", kind: syllArabic, cons: rcat([]rune{0x0626, 0x0628}, rr(0x062A, 0x062E), rr(0x0633, 0x063A), rr(0x0641, 0x0647), []rune{0x064A, 0x067E, 0x0686, 0x06A9, 0x06AF, 0x06CC}), vowels: rcat(rr(0x064B, 0x0652), []rune{0x0670, 0x0653, 0x0654}), finals: []rune{0x0640, 0x200D}, special: []rune{0x0627, 0x062F, 0x0631, 0x0648, 0x0644, 0x0622}},
	{name: "syriac", tag: "Syrc", kind: syllArabic, cons: rcat([]rune{0x0712, 0x0713}, rr(0x071A, 0x071D), rr(0x071F, 0x0727), []rune{0x0729, 0x072B}), vowels: rr(0x0730, 0x074A), finals: []rune{0x0640, 0x0711}, special: []rune{0x0710, 0x0715, 0x0717, 0x0718, 0x072A, 0x072C}},
	{name: "nko", tag: "Nkoo", kind: syllArabic, cons: rr(0x07CA, 0x07EA), vowels: rr(0x07EB, 0x07F3), finals: []rune{0x07FA}, special: rr(0x07C0, 0x07C9)},
	{name: "mongolian", tag: "Mong", kind: syllArabic, cons: rr(0x1820, 0x1842), vowels: []rune{0x180B, 0x180C, 0x180D, 0x18A9}, finals: []rune{0x180E, 0x202F, 0x200D}, special: rr(0x1843, 0x1877)},
}

// syllScriptsFor keeps, of every script, the runes the font maps; a script is eligible with one
// consonant and one more rune (the small test fonts of upstream map a handful of characters, the
// ones their lookups are about).
func syllScriptsFor(has func(rune) bool) []*syllScript {
	keep := func(in []rune) []rune {
		var out []rune
		for _, r := range in {
			if r == 0x200D || r == 0x202F || has(r) {
				out = append(out, r)
			}
		}
		return out
	}
	var out []*syllScript
	for i := range allSyllScripts {
		s := allSyllScripts[i]
		s.cons, s.vowels, s.finals, s.special = keep(s.cons), keep(s.vowels), keep(s.finals), keep(s.special)
		if s.virama != 0 && !has(s.virama) {
			s.virama = 0
		}
		n := len(s.cons) + len(s.vowels) + len(s.special)
		if s.virama != 0 {
			n++
		}
		if len(s.cons) >= 1 && n >= 2 {
			out = append(out, &s)
		}
	}
	return out
}

// syllScriptsAny: every script unfiltered (fonts without coverage: the shapers run on .notdef too).
func syllScriptsAny() []*syllScript {
	out := make([]*syllScript, len(allSyllScripts))
	for i := range allSyllScripts {
		out[i] = &allSyllScripts[i]
	}
	return out
}

// syllable counts around the constants: 15/16 (4-bit serial), 32, 64, 255/256 (8-bit fields); the
// large ones are rare (weight 1 of 18 in the quick tier, 2 of 19 in the thorough one)
var syllCountClasses = [][]int{{16, 17}, {16, 17}, {16, 17}, {16, 17}, {16, 17}, {16, 17}, {16, 17}, {16, 17},
	{31, 32, 33, 48}, {31, 32, 33, 48}, {31, 32, 33, 48}, {31, 32, 33, 48}, {31, 32, 33, 48}, {31, 32, 33, 48},
	{64, 65}, {64, 65}, {64, 65}, {255, 256, 257}, {255, 256, 257}}

// genSyllableText draws nsyll short syllables of the script (few distinct consonants, so that the
// same sequences recur at different syllable indexes), optionally one irregular element at a drawn
// position. Labels are derived from the decoded case (syllLabels). bigWeight: 1 or 2.
//
// With units != nil the syllables are not built from the script's classes but drawn from a
// working set of 1-4 of the given short sequences (pieces of the texts upstream's own tests shape
// with this font: sequences its lookups are known to react to); s may then be nil.
func genSyllableText(t *rapid.T, s *syllScript, units [][]rune, bigWeight int) (text []rune, nsyll int) {
	if s == nil {
		s = &syllScript{kind: syllIndic}
	}
	classes := syllCountClasses[:len(syllCountClasses)-2+bigWeight]
	nsyll = rapid.SampledFrom(rapid.SampledFrom(classes).Draw(t, "syllableClass")).Draw(t, "syllables")
	// 0-2 leading syllables shift which one is the 16th
	nsyll += rapid.IntRange(0, 2).Draw(t, "extraSyllables")
	// a small working set: 1-4 consonants, 1-2 vowel signs
	pick := func(pool []rune, n int, label string) []rune {
		if len(pool) == 0 {
			return nil
		}
		out := make([]rune, n)
		for i := range out {
			out[i] = rapid.SampledFrom(pool).Draw(t, label)
		}
		return out
	}
	var work [][]rune
	if len(units) > 0 {
		for i, n := 0, rapid.IntRange(1, 4).Draw(t, "nUnits"); i < n; i++ {
			work = append(work, rapid.SampledFrom(units).Draw(t, "unit"))
		}
	}
	cons := pick(s.cons, rapid.IntRange(1, 4).Draw(t, "nCons"), "cons")
	vowels := pick(s.vowels, rapid.IntRange(1, 2).Draw(t, "nVowels"), "vowel")
	finals := pick(s.finals, 1, "final")
	// shape of the regular syllable: weights of C / C+V / C+virama / C+final / special
	shape := rapid.SampledFrom([][5]int{{1, 0, 0, 0, 0}, {0, 1, 0, 0, 0}, {2, 2, 0, 0, 0}, {3, 3, 1, 1, 0}, {2, 2, 2, 1, 1}, {4, 2, 0, 0, 2}, {1, 1, 1, 1, 1}}).Draw(t, "syllableShape")
	total := 0
	for _, w := range shape {
		total += w
	}
	// separator between syllables, one kind per text: nothing (mostly), or a default-ignorable the
	// lookups skip but the syllable machines do not (it ends the syllable, so sequences that would
	// ligate or match a context in one syllable sit in different ones), after every syllable or
	// after about half of them
	sep := rapid.SampledFrom([]rune{0, 0, 0, 0, 0, 0x034F, 0x034F, 0x200D, 0x200C, 0x2060, 0x00AD, 0xFE00}).Draw(t, "syllableSeparator")
	sepAlways := rapid.Bool().Draw(t, "separatorAlways")
	irregularAt := -1
	if rapid.IntRange(0, 2).Draw(t, "irregular") == 0 {
		irregularAt = rapid.IntRange(0, nsyll-1).Draw(t, "irregularAt")
	}
	one := func(pool []rune, label string) (rune, bool) {
		if len(pool) == 0 {
			return 0, false
		}
		return rapid.SampledFrom(pool).Draw(t, label), true
	}
	for i := 0; i < nsyll; i++ {
		if i > 0 && sep != 0 && (sepAlways || rapid.Bool().Draw(t, "separatorHere")) {
			text = append(text, sep)
		}
		if i == irregularAt {
			switch rapid.IntRange(0, 5).Draw(t, "irregularKind") {
			case 0: // broken syllable: a dependent sign with no base (dotted-circle trigger)
				if v, ok := one(append(append([]rune{}, vowels...), finals...), "lone"); ok {
					text = append(text, ' ', v)
				}
			case 1:
				if s.virama != 0 {
					text = append(text, s.virama)
				}
			case 2:
				text = append(text, rapid.SampledFrom([]rune{0x200D, 0x200C, 0x034F}).Draw(t, "joiner"))
			case 3:
				if v, ok := one(s.special, "specialAt"); ok {
					text = append(text, v)
				}
			case 4:
				text = append(text, rapid.SampledFrom([]rune{0x25CC, 0x00A0, '-', '1', 0x0964}).Draw(t, "placeholder"))
				if v, ok := one(vowels, "placeholderSign"); ok && len(work) == 0 {
					text = append(text, v)
				}
			case 5:
				text = append(text, ' ')
			}
		}
		if len(work) > 0 {
			text = append(text, rapid.SampledFrom(work).Draw(t, "u")...)
			continue
		}
		if len(cons) == 0 {
			break
		}
		c := rapid.SampledFrom(cons).Draw(t, "c")
		switch s.kind {
		case syllHangul:
			text = append(text, c)
			if v, ok := one(vowels, "v"); ok {
				text = append(text, v)
			}
			if len(finals) > 0 && rapid.IntRange(0, 2).Draw(t, "t") == 0 {
				text = append(text, finals[0])
			}
			continue
		case syllSaraAm:
			text = append(text, c)
			if len(finals) > 0 && rapid.IntRange(0, 2).Draw(t, "tone") == 0 {
				text = append(text, finals[0])
			}
			if v, ok := one(vowels, "v"); ok {
				text = append(text, v)
			}
			continue
		}
		k := rapid.IntRange(0, total-1).Draw(t, "shapePick")
		kind := 0
		for kind = 0; kind < 5; kind++ {
			if k < shape[kind] {
				break
			}
			k -= shape[kind]
		}
		switch kind {
		case 0:
			text = append(text, c)
		case 1:
			text = append(text, c)
			if v, ok := one(vowels, "v"); ok {
				text = append(text, v)
			}
		case 2:
			text = append(text, c)
			if s.virama != 0 {
				text = append(text, s.virama)
			}
		case 3:
			text = append(text, c)
			if len(finals) > 0 {
				text = append(text, finals[0])
			}
		default:
			if v, ok := one(s.special, "special"); ok {
				text = append(text, v)
			} else {
				text = append(text, c)
			}
		}
	}
	return text, nsyll
}

var syllRuneScript = func() map[rune][2]int { // rune -> (script index, 1 if consonant)
	m := map[rune][2]int{}
	for i, s := range allSyllScripts {
		for _, r := range rcat(s.vowels, s.finals, s.special, []rune{s.virama}) {
			if r != 0 && r != 0x200D && r != 0x202F && r != 0x0640 {
				m[r] = [2]int{i, 0}
			}
		}
		for _, r := range s.cons {
			m[r] = [2]int{i, 1}
		}
	}
	return m
}()

// syllLabels classifies a decoded text: at least 16 consonants (leading jamo, joining letters) of
// one script that makes up at least 80 % of the runes other than default ignorables.
func syllLabels(text []rune) (out []string) {
	if len(text) < 16 {
		return nil
	}
	// long texts made of few distinct runes (repetitions of a few short units), whatever the script
	if len(text) >= 32 {
		distinct := map[rune]bool{}
		for _, r := range text {
			distinct[r] = true
		}
		if len(distinct) <= 10 {
			out = append(out, "long_repetitive_text")
			if len(text) >= 256 {
				out = append(out, "long_repetitive_text_256_runes_or_more")
			}
		}
	}
	cons := map[int]int{}
	all := map[int]int{}
	ignorable := 0
	for _, r := range text {
		if e, ok := syllRuneScript[r]; ok {
			all[e[0]]++
			cons[e[0]] += e[1]
		} else if r == 0x034F || r == 0x200C || r == 0x200D || r == 0x2060 || r == 0x00AD || r >= 0xFE00 && r <= 0xFE0F {
			ignorable++
		}
	}
	for i, n := range cons {
		if n < 16 || all[i]*10 < (len(text)-ignorable)*8 {
			continue
		}
		size := "16_to_30"
		switch {
		case n >= 255:
			size = "255_or_more"
		case n >= 64:
			size = "64_to_254"
		case n >= 31:
			size = "31_to_63"
		}
		out = append(out, "long_syllable_text", "long_syllable_text_"+size, "long_syllable_text_"+allSyllScripts[i].name)
		if ignorable >= 8 {
			out = append(out, "long_syllable_text_ignorable_separated")
		}
		return out
	}
	return out
}

// upstreamUnits cuts the upstream test texts of a font into short units: whole texts of up to 4
// runes and every window of 1-3 runes (spaces left out).
func upstreamUnits(texts [][]rune) [][]rune {
	seen := map[string]bool{}
	var out [][]rune
	add := func(u []rune) {
		for _, r := range u {
			if r == ' ' {
				return
			}
		}
		if k := string(u); !seen[k] && len(out) < 2000 {
			seen[k] = true
			out = append(out, u)
		}
	}
	for _, tx := range texts {
		if len(tx) <= 4 {
			add(tx)
		}
		for l := 1; l <= 3; l++ {
			for i := 0; i+l <= len(tx); i++ {
				add(tx[i : i+l])
			}
		}
	}
	return out
}
