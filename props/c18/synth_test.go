package c18

// Generated fonts (internal/synthfont, generated-rules kinds): lookup structures the corpus lacks
// - contextual rules of all formats with backtrack/lookahead calling Single / Multiple (empty
// sequence = deletion, 1 -> k) / Ligature / Alternate lookups, rules without action before less
// constrained ones, nesting up to ten levels, lookup flags with mark filtering sets, attachment
// positioning - shaped in native and reversed directions. The reference reads the same bytes.

import (
	"bytes"
	"fmt"
	"reflect"
	"sort"
	"sync"

	"github.com/go-text/typesetting/font"
	"github.com/go-text/typesetting/font/opentype/tables"
	"pgregory.net/rapid"

	"verif/internal/corpus"
	"verif/internal/ev"
	"verif/internal/hbref"
	"verif/internal/synthfont"
)

var (
	synthMu    sync.Mutex
	synthCache = map[synthfont.Spec]*fontEntry{}
)

func loadSynth(sp synthfont.Spec) (*fontEntry, error) {
	synthMu.Lock()
	defer synthMu.Unlock()
	if fe, ok := synthCache[sp]; ok {
		return fe, nil
	}
	data, err := synthfont.Build(sp)
	if err != nil {
		return nil, err
	}
	face, err := font.ParseTTF(bytes.NewReader(data))
	if err != nil {
		return nil, fmt.Errorf("generated font rejected by the port's loader: %v", err)
	}
	fe := &fontEntry{rel: fmt.Sprintf("synth:%s/%s/n%d/d%d/s%d/m%d/%d", sp.Kind, sp.Feature, sp.N, sp.Depth, sp.Scripts, sp.Mix, sp.Seed), face: face, synth: &sp}
	fe.traits = corpus.Traits{GSUB: len(face.GSUB.Lookups) > 0, GPOS: len(face.GPOS.Lookups) > 0, Glyf: true}
	fe.hb = hbref.NewFace(data, 0)
	if fe.hb.GlyphCount() == 0 {
		return nil, fmt.Errorf("reference rejects the generated font")
	}
	if g, p := fe.hb.LookupCount(tag32("GSUB")), fe.hb.LookupCount(tag32("GPOS")); g != len(face.GSUB.Lookups) || p != len(face.GPOS.Lookups) {
		return nil, fmt.Errorf("lookup counts differ: port GSUB %d GPOS %d, reference %d %d", len(face.GSUB.Lookups), len(face.GPOS.Lookups), g, p)
	}
	seen := map[string]bool{}
	for _, l := range []font.Layout{face.GSUB.Layout, face.GPOS.Layout} {
		for _, f := range l.Features {
			if s := f.Tag.String(); !seen[s] {
				seen[s] = true
				fe.feats = append(fe.feats, s)
			}
		}
	}
	sort.Strings(fe.feats)
	covered, _ := sp.Letters()
	fe.pool = covered
	fe.scripts = []string{"latin"}
	for _, l := range face.GSUB.Lookups {
		for _, st := range l.Subtables {
			if s, ok := st.(tables.MultipleSubs); ok {
				for _, seq := range s.Sequences {
					if len(seq.SubstituteGlyphIDs) == 0 {
						fe.synthDeletes = true
					}
					if len(seq.SubstituteGlyphIDs) > 1 {
						fe.synthGrows = true
					}
				}
			}
		}
	}
	nd := 0
	hintingDevices(reflect.ValueOf(face.GPOS.Lookups), 0, &nd)
	fe.device = nd > 0
	if len(synthCache) >= 512 {
		synthCache = map[synthfont.Spec]*fontEntry{}
	}
	synthCache[sp] = fe
	return fe, nil
}

// caseFont loads the font a decoded case names.
func caseFont(c *Case) (*fontEntry, error) {
	if c.Synth != nil {
		return loadSynth(*c.Synth)
	}
	return loadFont(c.Font, c.Index)
}

type randChooser struct{ r *ev.Rand }

func (c randChooser) Intn(_ string, n int) int { return c.r.Intn(n) }

type rapidChooser struct{ t *rapid.T }

func (c rapidChooser) Intn(label string, n int) int { return rapid.IntRange(0, n-1).Draw(c.t, label) }

var (
	synthPoolOnce sync.Once
	synthPool     []synthfont.Spec
)

// synthSpecs: the generated fonts of this shard (seeded pool).
func synthSpecs() []synthfont.Spec {
	synthPoolOnce.Do(func() {
		shard, _ := ev.Shard()
		r := ev.NewRand(uint64(ev.Seed())*0x51ED27 + uint64(shard)*7919 + 1818)
		for len(synthPool) < ev.Scale(96, 320) {
			sp := synthfont.DrawRuleSpec(randChooser{r})
			if _, err := loadSynth(sp); err != nil {
				fmt.Printf("INFRASTRUCTURE: generated font %+v: %v\n", sp, err)
				panic("synthfont")
			}
			synthPool = append(synthPool, sp)
		}
	})
	return synthPool
}

func genSynthCase(t *rapid.T) (*fontEntry, *Case) {
	specs := synthSpecs()
	sp := specs[rapid.IntRange(0, len(specs)-1).Draw(t, "synthFont")]
	fe, err := loadSynth(sp)
	if err != nil {
		t.Fatalf("generated font: %v", err)
	}
	c := &Case{Font: fe.rel, Synth: &sp}
	text := sp.DrawText(rapidChooser{t}, ev.Scale(24, 48))
	c.Text = make([]int, len(text))
	for i, r := range text {
		c.Text[i] = int(r)
	}
	c.Offset, c.Length = 0, len(text)
	if len(text) > 2 && rapid.IntRange(0, 7).Draw(t, "subrun") == 0 {
		c.Offset = rapid.IntRange(0, len(text)-1).Draw(t, "itemOffset")
		c.Length = rapid.IntRange(1, len(text)-c.Offset).Draw(t, "itemLength")
	}
	// native and reversed directions alike
	c.Dir = rapid.SampledFrom([]int{0, 4, 4, 5, 5, 5, 6, 7}).Draw(t, "direction")
	c.Script = rapid.SampledFrom([]string{"", "", "Latn", "Latn", "Zyyy", "Grek"}).Draw(t, "script")
	nf := rapid.SampledFrom([]int{0, 0, 0, 1, 1, 2}).Draw(t, "nfeatures")
	for i := 0; i < nf; i++ {
		var tag string
		if len(fe.feats) > 0 && rapid.IntRange(0, 9).Draw(t, "featSrc") < 7 {
			tag = rapid.SampledFrom(fe.feats).Draw(t, "featTag")
		} else {
			tag = rapid.SampledFrom(commonFeatures).Draw(t, "featCommon")
		}
		f := Feat{Tag: tag, Value: rapid.SampledFrom([]uint32{1, 1, 1, 0, 2}).Draw(t, "featValue"), Start: 0, End: -1}
		if rapid.IntRange(0, 3).Draw(t, "featRanged") == 0 {
			f.Start = rapid.IntRange(0, len(text)).Draw(t, "featStart")
			if rapid.Bool().Draw(t, "featClosed") {
				f.End = rapid.IntRange(f.Start, len(text)+1).Draw(t, "featEnd")
			}
		}
		c.Features = append(c.Features, f)
	}
	c.Cluster = rapid.SampledFrom([]int{0, 0, 1}).Draw(t, "clusterLevel")
	c.Flags = rapid.SampledFrom([]int{3, 3, 3, 3, 3, 0, 1, 2, 3 | 4, 3 | 8}).Draw(t, "flags")
	genInstance(t, fe, c)
	return fe, c
}

func synthLabels(fe *fontEntry, reversed bool) []string {
	sp := fe.synth
	out := []string{"synth_font", "synth_kind_" + sp.Kind}
	if sp.Mix == 1 {
		out = append(out, "synth_cursive_mix")
	}
	if d := sp.Nesting(); d > 0 {
		out = append(out, fmt.Sprintf("synth_nesting_depth_%02d", d))
	}
	if fe.synthDeletes {
		out = append(out, "synth_font_has_deletion")
	}
	if fe.synthGrows {
		out = append(out, "synth_font_has_one_to_many")
	}
	if reversed {
		out = append(out, "synth_reversed_direction")
		if fe.synthDeletes {
			out = append(out, "synth_reversed_direction_font_has_deletion")
		}
	}
	return out
}
