package c18

import (
	"os"
	"path/filepath"
	"sort"
	"strconv"
	"strings"
	"sync"

	"verif/internal/corpus"
)

var (
	upstreamOnce  sync.Once
	upstreamTexts map[string][][]rune
)

// upstreamFor returns the texts the upstream expectation files (harfbuzz_reference/*/tests/*.tests,
// lines "font;options;text;expected") shape with this font: sequences the font's own lookups
// are known to react to.
func upstreamFor(rel string) [][]rune {
	upstreamOnce.Do(func() {
		upstreamTexts = map[string][][]rune{}
		root := corpus.Dir()
		files, _ := filepath.Glob(filepath.Join(root, "harfbuzz", "harfbuzz_reference", "*", "tests", "*.tests"))
		sort.Strings(files)
		for _, f := range files {
			b, err := os.ReadFile(f)
			if err != nil {
				continue
			}
			for _, line := range strings.Split(string(b), "\n") {
				if strings.HasPrefix(line, "#") {
					continue
				}
				parts := strings.Split(line, ";")
				if len(parts) < 4 {
					continue
				}
				font := parts[0]
				if i := strings.IndexByte(font, '@'); i >= 0 {
					font = font[:i]
				}
				rel, err := filepath.Rel(root, filepath.Join(filepath.Dir(f), font))
				if err != nil {
					continue
				}
				var text []rune
				ok := true
				for _, u := range strings.Split(parts[2], ",") {
					u = strings.TrimPrefix(strings.TrimSpace(u), "U+")
					v, err := strconv.ParseInt(u, 16, 32)
					if err != nil || v < 0 || v > 0x10FFFF || v >= 0xD800 && v <= 0xDFFF {
						ok = false
						break
					}
					text = append(text, rune(v))
				}
				if ok && len(text) > 0 && len(text) <= 48 && len(upstreamTexts[rel]) < 400 {
					upstreamTexts[rel] = append(upstreamTexts[rel], text)
				}
			}
		}
	})
	return upstreamTexts[rel]
}
