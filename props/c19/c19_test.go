// Package c19 decides property C19: written font files read back unchanged.
//
// Generator: lists of distinctly tagged tables sorted by tag (the documented precondition of
// WriteTTF), 0..40 tables, lengths 0..4096 hitting every residue mod 4, arbitrary bytes, slices
// with spare capacity filled with a canary pattern and aliasing one shared arena; plus every
// corpus font's own tables re-written and re-parsed.
// Oracle: an independent structural reader written from the OpenType specification (header search
// fields, directory order, bounds, non-overlap, content equality, spec checksum), the library's own
// loader as round trip, and a byte-for-byte comparison of the caller's buffers including the bytes
// between len and cap.
package c19

import (
	"bytes"
	"encoding/binary"
	"encoding/json"
	"fmt"
	"os"
	"path/filepath"
	"sort"
	"testing"

	"github.com/go-text/typesetting/font"
	ot "github.com/go-text/typesetting/font/opentype"
	"pgregory.net/rapid"

	"verif/internal/corpus"
	"verif/internal/ev"
)

func TestMain(m *testing.M) { ev.Main(m) }

// tableCase is the decoded, replayable form of one generated table.
type tableCase struct {
	Tag     uint32 `json:"tag"`
	Content []byte `json:"content"` // base64 in JSON
	Spare   int    `json:"spare"`   // spare capacity after the content inside the shared arena
}

type listCase struct {
	Tables []tableCase `json:"tables"`
}

const canary = 0xA5

// materialise lays all tables out in ONE arena, each followed by `spare` canary bytes, so that the
// slices handed to WriteTTF have spare capacity that aliases the following tables' data.
func materialise(c listCase) (tables []ot.Table, arena []byte) {
	total := 0
	for _, t := range c.Tables {
		total += len(t.Content) + t.Spare
	}
	arena = make([]byte, total)
	for i := range arena {
		arena[i] = canary
	}
	off := 0
	for _, t := range c.Tables {
		copy(arena[off:], t.Content)
		// capacity extends to the end of the arena (aliasing all later tables) when spare > 0,
		// and is clipped to the length otherwise
		var s []byte
		if t.Spare > 0 {
			s = arena[off : off+len(t.Content)]
		} else {
			s = arena[off : off+len(t.Content) : off+len(t.Content)]
		}
		tables = append(tables, ot.Table{Tag: ot.Tag(t.Tag), Content: s})
		off += len(t.Content) + t.Spare
	}
	return tables, arena
}

// specChecksum: OpenType spec table checksum (sum of big-endian uint32 words of the content
// zero-padded to a multiple of four).
func specChecksum(b []byte) uint32 {
	var sum uint32
	for i := 0; i < len(b); i += 4 {
		var w [4]byte
		copy(w[:], b[i:])
		sum += binary.BigEndian.Uint32(w[:])
	}
	return sum
}

// checkList runs WriteTTF on the list and verifies every clause of C19.
func checkList(t ev.TB, check string, c listCase) {
	fail := func(format string, args ...any) { ev.Fail(t, check, c, format, args...) }
	tables, arena := materialise(c)
	before := append([]byte(nil), arena...)
	var out []byte
	func() {
		defer func() {
			if r := recover(); r != nil {
				fail("WriteTTF panicked: %v", r)
			}
		}()
		out = ot.WriteTTF(tables)
	}()
	// --- caller's buffers unchanged, including bytes between len and cap
	if !bytes.Equal(before, arena) {
		i := 0
		for i < len(arena) && arena[i] == before[i] {
			i++
		}
		fail("WriteTTF modified the caller's memory at arena offset %d (was %#x, now %#x)", i, before[i], arena[i])
	}
	n := len(c.Tables)
	// --- independent structural reader
	if len(out) < 12+16*n {
		fail("file too short: %d bytes for %d tables", len(out), n)
	}
	if v := binary.BigEndian.Uint32(out[0:]); v != 0x00010000 {
		fail("sfnt version %#x, want 0x00010000", v)
	}
	if got := int(binary.BigEndian.Uint16(out[4:])); got != n {
		fail("numTables %d, want %d", got, n)
	}
	if n >= 1 {
		es := 0
		for (1 << (es + 1)) <= n {
			es++
		}
		sr := (1 << es) * 16
		rs := n*16 - sr
		gsr, ges, grs := int(binary.BigEndian.Uint16(out[6:])), int(binary.BigEndian.Uint16(out[8:])), int(binary.BigEndian.Uint16(out[10:]))
		if gsr != sr || ges != es || grs != rs {
			fail("header search fields searchRange/entrySelector/rangeShift = %d/%d/%d, spec says %d/%d/%d for %d tables", gsr, ges, grs, sr, es, rs, n)
		}
	}
	type span struct{ off, end uint32 }
	var spans []span
	var prevTag uint32
	for i := 0; i < n; i++ {
		e := out[12+16*i:]
		tag, cs, off, ln := binary.BigEndian.Uint32(e), binary.BigEndian.Uint32(e[4:]), binary.BigEndian.Uint32(e[8:]), binary.BigEndian.Uint32(e[12:])
		if tag != c.Tables[i].Tag {
			fail("directory entry %d has tag %#x, want %#x (input order, sorted by tag)", i, tag, c.Tables[i].Tag)
		}
		if i > 0 && tag <= prevTag {
			fail("directory not sorted by tag at entry %d", i)
		}
		prevTag = tag
		if int(ln) != len(c.Tables[i].Content) {
			fail("entry %d length %d, want %d", i, ln, len(c.Tables[i].Content))
		}
		if uint64(off)+uint64(ln) > uint64(len(out)) || int(off) < 12+16*n {
			fail("entry %d [%d,%d) outside the table data area of a %d-byte file", i, off, uint64(off)+uint64(ln), len(out))
		}
		if !bytes.Equal(out[off:off+ln], c.Tables[i].Content) {
			fail("entry %d: bytes in file differ from the input content", i)
		}
		if want := specChecksum(c.Tables[i].Content); cs != want {
			fail("entry %d (length %d): checksum %#x, spec checksum %#x", i, ln, cs, want)
		}
		if ln > 0 {
			spans = append(spans, span{off, off + ln})
		}
	}
	sort.Slice(spans, func(i, j int) bool { return spans[i].off < spans[j].off })
	for i := 1; i < len(spans); i++ {
		if spans[i].off < spans[i-1].end {
			fail("tables overlap in the file: [%d,%d) and [%d,%d)", spans[i-1].off, spans[i-1].end, spans[i].off, spans[i].end)
		}
	}
	// --- the library's loader returns the same tags and contents
	var ld *ot.Loader
	var err error
	func() {
		defer func() {
			if r := recover(); r != nil {
				fail("NewLoader panicked on the written file: %v", r)
			}
		}()
		ld, err = ot.NewLoader(bytes.NewReader(out))
	}()
	if err != nil {
		fail("NewLoader rejects the written file: %v", err)
	}
	tags := ld.Tables()
	if len(tags) != n {
		fail("loader reports %d tables, want %d", len(tags), n)
	}
	for i, tc := range c.Tables {
		if uint32(tags[i]) != tc.Tag {
			fail("loader tag %d = %#x, want %#x", i, uint32(tags[i]), tc.Tag)
		}
		got, err := ld.RawTable(ot.Tag(tc.Tag))
		if err != nil {
			fail("RawTable(%#x) (length %d) failed on the written file: %v", tc.Tag, len(tc.Content), err)
		}
		if !bytes.Equal(got, tc.Content) {
			fail("RawTable(%#x) returns different bytes", tc.Tag)
		}
	}
	// --- loading is a function of the bytes, not of where a previous load left the reader: the
	// same reader is loaded again without rewinding it by hand (NewLoader twice, then NewLoaders,
	// then NewLoader)
	shared := bytes.NewReader(out)
	for round, how := range []string{"NewLoader", "NewLoader", "NewLoaders", "NewLoader"} {
		var l2 *ot.Loader
		var err2 error
		func() {
			defer func() {
				if r := recover(); r != nil {
					fail("%s panicked on a reader already used by %d earlier loads: %v", how, round, r)
				}
			}()
			if how == "NewLoaders" {
				var ls []*ot.Loader
				ls, err2 = ot.NewLoaders(shared)
				if err2 == nil && len(ls) == 1 {
					l2 = ls[0]
				} else if err2 == nil {
					err2 = fmt.Errorf("%d fonts", len(ls))
				}
			} else {
				l2, err2 = ot.NewLoader(shared)
			}
		}()
		if err2 != nil {
			fail("%s on a reader already used by %d earlier loads fails: %v", how, round, err2)
		}
		if tg := l2.Tables(); len(tg) != n {
			fail("%s on a reader already used by %d earlier loads: %d tables, want %d", how, round, len(tg), n)
		}
		for _, tc := range c.Tables {
			got, err := l2.RawTable(ot.Tag(tc.Tag))
			if err != nil || !bytes.Equal(got, tc.Content) {
				fail("%s on a reader already used by %d earlier loads: RawTable(%#x): err=%v, %d bytes, want %d", how, round, tc.Tag, err, len(got), len(tc.Content))
			}
		}
	}
	// --- the other loading entry point: NewLoaders (fonts and collections) must see the written
	// file as exactly one font with the same tags and contents
	var lds []*ot.Loader
	func() {
		defer func() {
			if r := recover(); r != nil {
				fail("NewLoaders panicked on the written file: %v", r)
			}
		}()
		lds, err = ot.NewLoaders(bytes.NewReader(out))
	}()
	if err != nil {
		fail("NewLoaders rejects the written file (%d tables, %d bytes): %v", n, len(out), err)
	}
	if len(lds) != 1 {
		fail("NewLoaders sees %d fonts in the written file, want 1", len(lds))
	}
	if tg := lds[0].Tables(); len(tg) != n {
		fail("NewLoaders: %d tables, want %d", len(tg), n)
	}
	for _, tc := range c.Tables {
		got, err := lds[0].RawTable(ot.Tag(tc.Tag))
		if err != nil || !bytes.Equal(got, tc.Content) {
			fail("NewLoaders: RawTable(%#x): err=%v, %d bytes, want the %d bytes written", tc.Tag, err, len(got), len(tc.Content))
		}
	}
	// --- the same through RawTableTo with recycled storage (the documented way to avoid
	// allocations, used by font.NewFont and the font scanner): the returned slice, not the
	// storage, is the table; tables are read in two orders so that a short or empty table follows
	// a longer one and vice versa
	var buf []byte
	readTo := func(i int) {
		tc := c.Tables[i]
		got, err := ld.RawTableTo(ot.Tag(tc.Tag), buf)
		if err != nil {
			fail("RawTableTo(%#x) (length %d) with recycled storage failed: %v", tc.Tag, len(tc.Content), err)
		}
		if !bytes.Equal(got, tc.Content) {
			fail("RawTableTo(%#x) with recycled storage (cap %d): got %d bytes, want the %d bytes written", tc.Tag, cap(buf), len(got), len(tc.Content))
		}
		if cap(got) > 0 {
			buf = got[:cap(got)]
		}
	}
	for i := range c.Tables {
		readTo(i)
	}
	for i := len(c.Tables) - 1; i >= 0; i-- {
		readTo(i)
	}
	// --- the answers are the caller's: whatever the caller does with the slices it received
	// (filtering the tag list in place, re-sorting it, scribbling over table bytes or over the
	// recycled storage), asking the same loader again still returns what was written
	for i, j := 0, len(tags)-1; i < j; i, j = i+1, j-1 {
		tags[i], tags[j] = tags[j], tags[i]
	}
	kept := tags[:0]
	for i, tg := range tags {
		if i%2 == 1 {
			kept = append(kept, tg)
		}
	}
	for i := range kept {
		kept[i] = 0
	}
	_ = append(tags[:0], 0xFFFFFFFF)
	for i := range buf {
		buf[i] = 0x5A
	}
	firstReads := make([][]byte, n)
	for i, tc := range c.Tables {
		firstReads[i], _ = ld.RawTable(ot.Tag(tc.Tag))
	}
	for _, b := range firstReads {
		for i := range b {
			b[i] ^= 0xFF
		}
	}
	tagsAgain := ld.Tables()
	if len(tagsAgain) != n {
		fail("second listing reports %d tables, want %d (the caller had modified the first listing in place)", len(tagsAgain), n)
	}
	for i, tc := range c.Tables {
		if uint32(tagsAgain[i]) != tc.Tag {
			fail("second listing, after the caller modified the first one in place: tag %d = %#x, want %#x", i, uint32(tagsAgain[i]), tc.Tag)
		}
		if !ld.HasTable(ot.Tag(tc.Tag)) {
			fail("HasTable(%#x) false for a written table", tc.Tag)
		}
		got, err := ld.RawTable(tagsAgain[i])
		if err != nil || !bytes.Equal(got, tc.Content) {
			fail("second RawTable(%#x), after the caller overwrote the bytes it received the first time: err=%v, %d bytes, want the %d bytes written", tc.Tag, err, len(got), len(tc.Content))
		}
	}
	// classification
	residues := map[int]bool{}
	spare := false
	for _, tc := range c.Tables {
		residues[len(tc.Content)%4] = true
		if tc.Spare > 0 && len(tc.Content)%4 != 0 {
			spare = true
		}
	}
	nonMultiple := residues[1] || residues[2] || residues[3]
	nontrivial := n >= 2 && nonMultiple && spare
	var key []byte
	if nontrivial {
		key, _ = json.Marshal(c)
	}
	labels := []string{fmt.Sprintf("ntables_%s", bucket(n))}
	for r := 1; r < 4; r++ {
		if residues[r] {
			labels = append(labels, fmt.Sprintf("has_len_mod4_%d", r))
		}
	}
	if spare {
		labels = append(labels, "spare_capacity_after_unaligned")
	}
	ev.Case(nontrivial, key, labels...)
	if nontrivial && ev.WantSample() {
		var lens []int
		var tg []string
		for _, tc := range c.Tables {
			lens = append(lens, len(tc.Content))
			tg = append(tg, ot.Tag(tc.Tag).String())
		}
		if len(lens) > 8 {
			lens, tg = lens[:8], tg[:8]
		}
		ev.Sample(map[string]any{"ntables": n, "first_tags": tg, "first_lengths": lens, "file_size": len(out)})
	}
}

func bucket(n int) string {
	switch {
	case n == 0:
		return "0"
	case n == 1:
		return "1"
	case n <= 4:
		return "2-4"
	case n <= 16:
		return "5-16"
	default:
		return "17-40"
	}
}

func genList(t *rapid.T) listCase {
	n := rapid.IntRange(0, 40).Draw(t, "ntables")
	if rapid.IntRange(0, 3).Draw(t, "small") != 0 {
		n = rapid.IntRange(0, 6).Draw(t, "ntables_small")
	}
	// distinct tags, sorted ascending
	tagset := map[uint32]bool{}
	tagGen := rapid.OneOf(
		rapid.Map(rapid.StringMatching(`[A-Za-z0-9 /]{4}`), func(s string) uint32 { return binary.BigEndian.Uint32([]byte(s)) }),
		rapid.Uint32(),
		rapid.SampledFrom([]uint32{0, 1, 0xFFFFFFFF, 0x80000000, 0x7FFFFFFF, binary.BigEndian.Uint32([]byte("head")), binary.BigEndian.Uint32([]byte("cmap")), binary.BigEndian.Uint32([]byte("OS/2"))}),
	)
	for len(tagset) < n {
		tagset[tagGen.Draw(t, "tag")] = true
	}
	var tags []uint32
	for k := range tagset {
		tags = append(tags, k)
	}
	sort.Slice(tags, func(i, j int) bool { return tags[i] < tags[j] })
	var c listCase
	for _, tg := range tags {
		var ln int
		switch rapid.IntRange(0, 5).Draw(t, "lenclass") {
		case 0:
			ln = rapid.IntRange(0, 8).Draw(t, "len")
		case 1, 2:
			ln = rapid.IntRange(0, 64).Draw(t, "len")
		case 3:
			ln = 4*rapid.IntRange(0, 16).Draw(t, "len4") + rapid.IntRange(1, 3).Draw(t, "res")
		default:
			ln = rapid.IntRange(0, 4096).Draw(t, "len")
		}
		var content []byte
		switch rapid.IntRange(0, 3).Draw(t, "fill") {
		case 0:
			content = bytes.Repeat([]byte{0xFF}, ln)
		case 1:
			content = make([]byte, ln)
			for i := range content {
				content[i] = byte(i*31 + 7)
			}
		default:
			content = rapid.SliceOfN(rapid.Byte(), ln, ln).Draw(t, "content")
		}
		spare := 0
		if rapid.Bool().Draw(t, "hasspare") {
			spare = rapid.IntRange(1, 9).Draw(t, "spare")
		}
		c.Tables = append(c.Tables, tableCase{Tag: tg, Content: content, Spare: spare})
	}
	return c
}

// TestPropWriteRead: generated table lists.
func TestPropWriteRead(t *testing.T) {
	rapid.Check(t, func(t *rapid.T) {
		checkList(t, "list", genList(t))
	})
}

// TestPropResidues: small exhaustive scope — every combination of lengths 0..9 for 1..3 tables,
// with and without spare capacity (covers every residue mod 4 at every position).
func TestPropResidues(t *testing.T) {
	tags := []uint32{binary.BigEndian.Uint32([]byte("aaaa")), binary.BigEndian.Uint32([]byte("bbbb")), binary.BigEndian.Uint32([]byte("cccc"))}
	mk := func(ln, salt int) []byte {
		b := make([]byte, ln)
		for i := range b {
			b[i] = byte(0x80 + 17*i + salt)
		}
		return b
	}
	for n := 1; n <= 3; n++ {
		var rec func(i int, c listCase)
		rec = func(i int, c listCase) {
			if i == n {
				checkList(t, "list", c)
				return
			}
			for ln := 0; ln <= 9; ln++ {
				for _, sp := range []int{0, 5} {
					cc := listCase{Tables: append(append([]tableCase(nil), c.Tables...), tableCase{Tag: tags[i], Content: mk(ln, i), Spare: sp})}
					rec(i+1, cc)
				}
			}
		}
		rec(0, listCase{})
	}
}

type fontCase struct {
	File  string `json:"file"`
	Index int    `json:"index"`
}

// checkFont re-writes the tables of one corpus font and re-parses the result.
func checkFont(t ev.TB, fc fontCase) {
	lds, err := corpus.Loaders(fc.File)
	if err != nil || fc.Index >= len(lds) {
		ev.Label("font_not_loadable")
		return
	}
	ld := lds[fc.Index]
	var c listCase
	for _, tag := range ld.Tables() { // sorted by tag
		content, err := ld.RawTable(tag)
		if err != nil {
			ev.Label("font_table_unreadable")
			return
		}
		c.Tables = append(c.Tables, tableCase{Tag: uint32(tag), Content: content, Spare: 0})
	}
	// the structural part, on the real tables (case recorded as the font, not the bytes)
	small := fc
	tables, _ := materialise(c)
	var out []byte
	func() {
		defer func() {
			if r := recover(); r != nil {
				ev.Fail(t, "font", small, "WriteTTF panicked: %v", r)
			}
		}()
		out = ot.WriteTTF(tables)
	}()
	ld2, err := ot.NewLoader(bytes.NewReader(out))
	if err != nil {
		ev.Fail(t, "font", small, "re-written font rejected by NewLoader: %v", err)
	}
	tags2 := ld2.Tables()
	if len(tags2) != len(c.Tables) {
		ev.Fail(t, "font", small, "re-written font has %d tables, want %d", len(tags2), len(c.Tables))
	}
	for i, tc := range c.Tables {
		got, err := ld2.RawTable(ot.Tag(tc.Tag))
		if uint32(tags2[i]) != tc.Tag || err != nil || !bytes.Equal(got, tc.Content) {
			ev.Fail(t, "font", small, "table %s differs after rewrite (err=%v)", ot.Tag(tc.Tag), err)
		}
		e := out[12+16*i:]
		if cs, want := binary.BigEndian.Uint32(e[4:]), specChecksum(tc.Content); cs != want && ot.Tag(tc.Tag).String() != "head" {
			// (the 'head' table's stored checksum is specified over a zeroed checkSumAdjustment
			// by font tools, but WriteTTF documents no such treatment: compare plainly except there)
			ev.Fail(t, "font", small, "table %s (length %d): checksum %#x, spec checksum %#x", ot.Tag(tc.Tag), len(tc.Content), cs, want)
		}
	}
	// the rewritten file describes the same font
	f1, err1 := font.NewFont(ld)
	f2, err2 := font.NewFont(ld2)
	if (err1 == nil) != (err2 == nil) {
		ev.Fail(t, "font", small, "NewFont: original err=%v, rewritten err=%v", err1, err2)
	}
	nontrivial := false
	if err1 == nil {
		nontrivial = true
		if f1.Upem() != f2.Upem() {
			ev.Fail(t, "font", small, "upem differs after rewrite: %d vs %d", f1.Upem(), f2.Upem())
		}
		fa1, fa2 := font.NewFace(f1), font.NewFace(f2)
		for _, g := range []font.GID{0, 1, 2, 3, 10, 100, 1000} {
			if fa1.HorizontalAdvance(g) != fa2.HorizontalAdvance(g) || f1.GlyphName(g) != f2.GlyphName(g) {
				ev.Fail(t, "font", small, "advance or name of glyph %d differs after rewrite", g)
			}
		}
		for _, r := range []rune{' ', 'A', 'a', '0', 0xE9, 0x3B1, 0x5D0, 0x627, 0x915, 0x4E00, 0x1F600} {
			g1, ok1 := f1.NominalGlyph(r)
			g2, ok2 := f2.NominalGlyph(r)
			if g1 != g2 || ok1 != ok2 {
				ev.Fail(t, "font", small, "NominalGlyph(%U) differs after rewrite", r)
			}
		}
	}
	ev.Case(nontrivial, fc.File+fmt.Sprint(fc.Index), "corpus_font")
	if ev.WantSample() {
		ev.Sample(map[string]any{"font": fc.File, "index": fc.Index, "tables": len(c.Tables), "file_size": len(out)})
	}
}

// TestPropCorpusFonts: every (quick: a seeded sample of 40) corpus font re-written and re-parsed.
func TestPropCorpusFonts(t *testing.T) {
	files := corpus.Files()
	shard, n := ev.Shard()
	rnd := ev.NewRand(uint64(ev.Seed()))
	for i, f := range files {
		pick := ev.Thorough() || rnd.Intn(len(files)) < 48
		if !pick || i%n != shard {
			continue
		}
		lds, err := corpus.Loaders(f)
		if err != nil {
			continue
		}
		for idx := range lds {
			checkFont(t, fontCase{File: f, Index: idx})
		}
	}
}

// TestReplay re-runs saved cases.
func TestReplay(t *testing.T) {
	var paths []string
	if p := ev.ReplayPath(); p != "" {
		paths = []string{p}
	} else if d := os.Getenv("VERIF_REPLAY_DIR"); d != "" {
		paths, _ = filepath.Glob(filepath.Join(d, "*.json"))
		sort.Strings(paths)
	}
	for _, p := range paths {
		check, raw, err := ev.LoadReplay(p)
		if err != nil {
			t.Fatalf("replay %s: %v", p, err)
		}
		switch check {
		case "list":
			var c listCase
			if err := json.Unmarshal(raw, &c); err != nil {
				t.Fatalf("replay %s: %v", p, err)
			}
			checkList(t, "list", c)
		case "font":
			var c fontCase
			if err := json.Unmarshal(raw, &c); err != nil {
				t.Fatalf("replay %s: %v", p, err)
			}
			checkFont(t, c)
		default:
			t.Fatalf("replay %s: unknown check %q", p, check)
		}
	}
}
