// Package c20 decides property C20: Unicode and language lookups are coherent total functions.
//
// The code-point clauses are decided by exhaustive enumeration of all 0x110000 code points (plus
// out-of-range values for totality); language tags by the full table plus rapid-generated tags;
// directions by all 256 byte values.
package c20

import (
	"fmt"
	"sort"
	"strings"
	"sync"
	"testing"
	"unicode"

	"github.com/go-text/typesetting/di"
	hb "github.com/go-text/typesetting/harfbuzz"
	"github.com/go-text/typesetting/language"
	ucd "github.com/go-text/typesetting/unicodedata"
	"golang.org/x/text/unicode/norm"
	"pgregory.net/rapid"

	"verif/internal/ev"
)

func TestMain(m *testing.M) { ev.Main(m) }

type cpCase struct {
	Rune  string `json:"rune"`
	What  string `json:"what"`
	Extra string `json:"extra,omitempty"`
}

func u(r rune) string { return fmt.Sprintf("U+%04X", r) }

// linearOne scans tables and returns the index of the single table containing r, -1 if none and
// -2 if more than one does.
func linearOne(tables []*unicode.RangeTable, r rune) int {
	found := -1
	for i, t := range tables {
		if t == nil {
			continue
		}
		if isLinear(t, r) {
			if found >= 0 {
				return -2
			}
			found = i
		}
	}
	return found
}

// isLinear is a plain linear membership test over the ranges of the table (independent of
// unicode.Is, which bisects and has a Latin-1 fast path).
func isLinear(t *unicode.RangeTable, r rune) bool {
	if r < 0 {
		return false
	}
	for _, x := range t.R16 {
		if uint32(r) >= uint32(x.Lo) && uint32(r) <= uint32(x.Hi) && (uint32(r)-uint32(x.Lo))%uint32(x.Stride) == 0 {
			return true
		}
	}
	for _, x := range t.R32 {
		if uint32(r) >= x.Lo && uint32(r) <= x.Hi && (uint32(r)-x.Lo)%x.Stride == 0 {
			return true
		}
	}
	return false
}

var categoryTables []*unicode.RangeTable

func init() {
	var names []string
	for cat := range unicode.Categories {
		if len(cat) == 2 {
			names = append(names, cat)
		}
	}
	sort.Strings(names)
	for _, n := range names {
		categoryTables = append(categoryTables, unicode.Categories[n])
	}
}

func checkCodePoint(t ev.TB, r rune) (assigned bool) {
	fail := func(what, format string, args ...any) {
		ev.Fail(t, "codepoint", cpCase{Rune: u(r), What: what, Extra: fmt.Sprintf(format, args...)}, "%s %s: "+format, append([]any{u(r), what}, args...)...)
	}
	// --- script: bisection vs linear scan, exactly one range
	want := language.Unknown
	hits := 0
	for _, e := range language.ScriptRanges {
		if e.Start <= r && r <= e.End {
			want = e.Script
			hits++
		}
	}
	if hits > 1 {
		fail("script", "contained in %d script ranges", hits)
	}
	if got := language.LookupScript(r); got != want {
		fail("script", "LookupScript=%s, linear scan=%s", got, want)
	}
	// --- general category
	ci := linearOne(categoryTables, r)
	if ci == -2 {
		fail("general category", "more than one category table contains the rune")
	}
	gc := ucd.LookupType(r)
	if ci == -1 && gc != nil || ci >= 0 && gc != categoryTables[ci] {
		fail("general category", "LookupType disagrees with linear scan (index %d)", ci)
	}
	assigned = gc != nil
	// --- line break class
	lbs := ucd.VerifLineBreaks()
	li := linearOne(lbs, r)
	if li == -2 {
		fail("line break class", "more than one class table contains the rune")
	}
	lb := ucd.LookupLineBreakClass(r)
	if li == -1 && lb != ucd.BreakXX || li >= 0 && lb != lbs[li] {
		fail("line break class", "LookupLineBreakClass disagrees with linear scan (index %d)", li)
	}
	// --- grapheme break class
	_, gbs := ucd.VerifGraphemeBreaks()
	gi := linearOne(gbs, r)
	if gi == -2 {
		fail("grapheme break class", "more than one class table contains the rune")
	}
	gb := ucd.LookupGraphemeBreakClass(r)
	if gi == -1 && gb != nil || gi >= 0 && gb != gbs[gi] {
		fail("grapheme break class", "LookupGraphemeBreakClass disagrees with linear scan (index %d)", gi)
	}
	// --- word break class
	_, wbs := ucd.VerifWordBreaks()
	wi := linearOne(wbs, r)
	if wi == -2 {
		fail("word break class", "more than one class table contains the rune")
	}
	wb := ucd.LookupWordBreakClass(r)
	if wi == -1 && wb != nil || wi >= 0 && wb != wbs[wi] {
		fail("word break class", "LookupWordBreakClass disagrees with linear scan (index %d)", wi)
	}
	// --- combining class
	ccs := ucd.VerifCombiningClasses()
	cci := linearOne(ccs, r)
	if cci == -2 {
		fail("combining class", "more than one class table contains the rune")
	}
	cc := ucd.LookupCombiningClass(r)
	if cci == -1 && cc != 0 || cci >= 0 && int(cc) != cci {
		fail("combining class", "LookupCombiningClass=%d, linear scan index=%d", cc, cci)
	}
	if sameUnicode && assigned && !(r >= 0xD800 && r <= 0xDFFF) {
		if p := norm.NFC.PropertiesString(string(r)); p.CCC() != cc {
			fail("combining class", "LookupCombiningClass=%d, x/text CCC=%d", cc, p.CCC())
		}
	}
	// --- decomposition / composition
	a, b, ok := ucd.Decompose(r)
	if !ok {
		if a != r || b != 0 {
			fail("decompose", "not decomposable but returned (%s,%s)", u(a), u(b))
		}
	} else {
		ev.Label("decomposable")
		if b != 0 {
			ev.Label("decomposable_pair")
			nfc := []rune(norm.NFC.String(string([]rune{a, b})))
			excluded := !(len(nfc) == 1 && nfc[0] == r)
			isHangul := r >= ucd.HangulSBase && r < ucd.HangulSBase+ucd.HangulSCount
			if isHangul {
				excluded = false // algorithmic, never excluded
			}
			if !sameUnicode && !isHangul {
				// cannot classify exclusions reliably with different data versions
				excluded = true
			}
			ab, ok2 := ucd.Compose(a, b)
			if !excluded {
				if !ok2 || ab != r {
					fail("compose(decompose)", "Decompose=(%s,%s) but Compose=(%s,%v)", u(a), u(b), u(ab), ok2)
				}
			} else {
				ev.Label("composition_excluded")
				if sameUnicode && ok2 && ab == r {
					fail("composition exclusion", "excluded from composition by NFC but Compose(%s,%s) returns it", u(a), u(b))
				}
			}
			if sameUnicode && assigned {
				if norm.NFD.String(string(r)) != norm.NFD.String(string([]rune{a, b})) {
					fail("decompose", "(%s,%s) is not canonically equivalent to the rune per NFD", u(a), u(b))
				}
			}
		} else if sameUnicode && assigned {
			if norm.NFD.String(string(r)) != norm.NFD.String(string(a)) {
				fail("decompose", "singleton %s is not canonically equivalent per NFD", u(a))
			}
		}
	}
	if sameUnicode && assigned && !ok && !(r >= 0xD800 && r <= 0xDFFF) {
		if d := norm.NFD.String(string(r)); d != string(r) {
			fail("decompose", "has canonical decomposition %U per NFD but Decompose reports none", []rune(d))
		}
	}
	// Code points that are unassigned in the toolchain's (and x/text's) Unicode version have no
	// decomposition there. When the library's own data is of the same version (no script is
	// given to any such code point, see dataSkew) it must not decompose them either; this is
	// also where an off-by-one of the algorithmic Hangul range shows (U+D7A4).
	if sameUnicode && !dataSkew() && !assigned && ok && r >= 0 && r <= 0x10FFFF {
		fail("decompose", "unassigned code point decomposes to (%s,%s)", u(a), u(b))
	}
	// --- the shaper's own lookups (harfbuzz/unicode.go): the same laws through the less common
	// entry point
	hbTables := hb.VerifGeneralCategories()
	hi := linearOne(hbTables, r)
	if hi == -2 {
		fail("shaper general category", "more than one category table contains the rune")
	}
	hgc := hb.VerifGeneralCategory(r)
	if hi == -1 && hgc != hb.VerifUnassigned() || hi >= 0 && int(hgc) != hi {
		fail("shaper general category", "generalCategory=%d, linear scan of its tables gives index %d (unassigned is %d)", hgc, hi, hb.VerifUnassigned())
	}
	if p := hb.VerifUnicodeProps(r); p != hgc {
		fail("shaper general category", "computeUnicodeProps stores %d, generalCategory returns %d", p, hgc)
	}
	wantMCC := hbMCC[cc]
	switch r { // the three documented exceptions of modified_combining_class
	case 0x1A60, 0x0FC6:
		wantMCC = 254
	case 0x0F39:
		wantMCC = 127
	}
	if got := hb.VerifModifiedCombiningClass(r); got != wantMCC {
		fail("shaper modified combining class", "got %d, table[%d] gives %d", got, cc, wantMCC)
	}
	if ha, hbb, hok := hb.VerifDecompose(r); ha != a || hbb != b || hok != ok {
		fail("shaper decompose", "(%s,%s,%v), unicodedata gives (%s,%s,%v)", u(ha), u(hbb), hok, u(a), u(b), ok)
	}
	if ok && b != 0 {
		x1, o1 := hb.VerifCompose(a, b)
		x2, o2 := ucd.Compose(a, b)
		if x1 != x2 || o1 != o2 {
			fail("shaper compose", "(%s,%v), unicodedata gives (%s,%v)", u(x1), o1, u(x2), o2)
		}
	}
	if m1, _ := ucd.LookupMirrorChar(r); hb.VerifMirroring(r) != m1 {
		fail("shaper mirroring", "%s, unicodedata gives %s", u(hb.VerifMirroring(r)), u(m1))
	}
	// --- mirroring
	if m, ok := ucd.LookupMirrorChar(r); ok {
		ev.Label("mirrored")
		if m == r {
			fail("mirroring", "reported mirrored but equal to itself")
		}
		mm, ok2 := ucd.LookupMirrorChar(m)
		if !ok2 || mm != r {
			fail("mirroring", "mirror(mirror)=%s,%v", u(mm), ok2)
		}
	} else if m != r {
		fail("mirroring", "not mirrored but returned %s", u(m))
	}
	return assigned
}

var sameUnicode = unicode.Version == norm.Version

var hbMCC = hb.VerifModifiedCombiningClassTable()

var (
	skewOnce sync.Once
	skew     bool
)

// dataSkew reports whether the library's tables know code points the toolchain's Unicode version
// does not (a script assigned to a code point without general category): then the library data
// is newer than the reference data and clauses about unassigned code points are not decidable.
func dataSkew() bool {
	skewOnce.Do(func() {
		n := 0
		for r := rune(0); r <= 0x10FFFF; r++ {
			if ucd.LookupType(r) == nil && language.LookupScript(r) != language.Unknown {
				n++
			}
		}
		skew = n > 16
		if skew {
			ev.Note("library script table covers %d code points unassigned in Unicode %s: clauses about unassigned code points skipped", n, unicode.Version)
		}
	})
	return skew
}

// TestPropCodePoints enumerates every code point (sharded) through all lookup clauses.
func TestPropCodePoints(t *testing.T) {
	shard, n := ev.Shard()
	if !sameUnicode {
		ev.Note("unicode.Version=%s differs from x/text norm.Version=%s: x/text cross-checks skipped", unicode.Version, norm.Version)
	}
	// script ranges sorted and disjoint: the bisection precondition
	if shard == 0 {
		for i := range language.ScriptRanges {
			e := language.ScriptRanges[i]
			if e.Start > e.End || i > 0 && language.ScriptRanges[i-1].End >= e.Start {
				ev.Fail(t, "scriptranges", cpCase{Rune: u(e.Start), What: "ScriptRanges order"}, "ScriptRanges not sorted/disjoint at index %d", i)
			}
		}
	}
	const block = 0x400
	var total, nt int64
	for base := rune(0); base <= 0x10FFFF; base += block {
		if int(base/block)%n != shard {
			continue
		}
		for r := base; r < base+block && r <= 0x10FFFF; r++ {
			assigned := checkCodePoint(t, r)
			total++
			if assigned {
				nt++
			}
			if assigned && r%0x1F3D == 0 {
				a, b, ok := ucd.Decompose(r)
				ev.Sample(map[string]any{"rune": u(r), "script": language.LookupScript(r).String(), "ccc": ucd.LookupCombiningClass(r),
					"decompose": []any{u(a), u(b), ok}})
			}
		}
	}
	// totality outside the code space
	if shard == 0 {
		for _, r := range []rune{-1, -0x80000000, 0x110000, 0x7FFFFFFF, 0x200000, 0xD800, 0xDFFF, 0xFFFF, 0xFFFE} {
			checkCodePoint(t, r)
			total++
		}
		if ev.Thorough() {
			for r := rune(0x110000); r < 0x130000; r++ {
				checkCodePoint(t, r)
				total++
			}
			for r := rune(-0x10000); r < 0; r++ {
				checkCodePoint(t, r)
				total++
			}
		}
	}
	ev.CaseEnum(total, nt)
}

// TestPropComposeTable: Compose(a,b)=ab implies Decompose(ab)=(a,b), for every entry of the
// composition table and every Hangul syllable.
func TestPropComposeTable(t *testing.T) {
	var n int64
	type pair struct{ a, b, ab rune }
	var ps []pair
	ucd.VerifComposePairs(func(a, b, ab rune) {
		if ab == 0 {
			// a zero entry means "no composition" (Compose reports it as not composable)
			if c, ok := ucd.Compose(a, b); ok {
				ev.Fail(t, "composepair", cpCase{Rune: u(a), What: "zero compose entry", Extra: u(b)}, "zero table entry but Compose returns %s", u(c))
			}
			return
		}
		ps = append(ps, pair{a, b, ab})
	})
	sort.Slice(ps, func(i, j int) bool { return ps[i].ab < ps[j].ab })
	for _, p := range ps {
		n++
		ab, ok := ucd.Compose(p.a, p.b)
		if !ok || ab != p.ab {
			ev.Fail(t, "composepair", cpCase{Rune: u(p.ab), What: "compose table"}, "Compose(%s,%s)=%s,%v; table says %s", u(p.a), u(p.b), u(ab), ok, u(p.ab))
		}
		a, b, ok := ucd.Decompose(p.ab)
		if !ok || a != p.a || b != p.b {
			ev.Fail(t, "composepair", cpCase{Rune: u(p.ab), What: "decompose(compose)"}, "Compose(%s,%s)=%s but Decompose gives (%s,%s,%v)", u(p.a), u(p.b), u(p.ab), u(a), u(b), ok)
		}
	}
	if len(ps) > 0 {
		ev.Sample(map[string]any{"compose": []string{u(ps[0].a), u(ps[0].b)}, "gives": u(ps[0].ab)})
	}
	// Hangul, algorithmically and independently computed
	for s := rune(0); s < ucd.HangulSCount; s++ {
		n++
		syl := ucd.HangulSBase + s
		var wa, wb rune
		if s%28 != 0 {
			wa, wb = syl-s%28, 0x11A7+s%28
		} else {
			wa, wb = 0x1100+s/588, 0x1161+(s%588)/28
		}
		a, b, ok := ucd.Decompose(syl)
		if !ok || a != wa || b != wb {
			ev.Fail(t, "hangul", cpCase{Rune: u(syl), What: "hangul decompose"}, "Decompose=(%s,%s,%v) want (%s,%s)", u(a), u(b), ok, u(wa), u(wb))
		}
		ab, ok := ucd.Compose(wa, wb)
		if !ok || ab != syl {
			ev.Fail(t, "hangul", cpCase{Rune: u(syl), What: "hangul compose"}, "Compose(%s,%s)=(%s,%v)", u(wa), u(wb), u(ab), ok)
		}
	}
	// jamo pairs that must NOT compose algorithmically: T base itself, LVT + T
	for _, p := range [][2]rune{{0xAC00, 0x11A7}, {0xAC01, 0x11A8}, {0x1100, 0x1160}, {0x1113, 0x1161}, {0x1100, 0x1176}, {0xAC00, 0x11C3}} {
		n++
		if ab, ok := ucd.Compose(p[0], p[1]); ok {
			ev.Fail(t, "hangul", cpCase{Rune: u(p[0]), What: "hangul compose out of range", Extra: u(p[1])}, "Compose(%s,%s) must fail, got %s", u(p[0]), u(p[1]), u(ab))
		}
	}
	ev.CaseEnum(n, n)
}

// TestPropDirection: all 256 Direction values; setters change only their own facet.
func TestPropDirection(t *testing.T) {
	var n int64
	for v := 0; v < 256; v++ {
		d := di.Direction(v)
		n++
		type facets struct {
			axis di.Axis
			prog di.Progression
			has  bool
			side bool
		}
		get := func(d di.Direction) facets {
			return facets{d.Axis(), d.Progression(), d.HasVerticalOrientation(), d.IsSideways()}
		}
		f0 := get(d)
		fail := func(format string, args ...any) {
			ev.Fail(t, "direction", map[string]any{"direction": v}, "Direction(%d): "+format, append([]any{v}, args...)...)
		}
		// SwitchAxis: toggles the axis, keeps progression; involution
		s := d.SwitchAxis()
		if s.Axis() == d.Axis() || s.Progression() != d.Progression() || s.SwitchAxis() != d {
			fail("SwitchAxis gave %d", s)
		}
		if s.HasVerticalOrientation() != d.HasVerticalOrientation() {
			fail("SwitchAxis changed the orientation-set facet")
		}
		// SetProgression: only progression changes
		for _, p := range []di.Progression{di.FromTopLeft, di.TowardTopLeft} {
			d2 := d
			d2.SetProgression(p)
			f := get(d2)
			if f.prog != p || f.axis != f0.axis || f.has != f0.has || f.side != f0.side {
				fail("SetProgression(%v): facets %+v -> %+v", p, f0, f)
			}
			d3 := d2
			d3.SetProgression(p)
			if d3 != d2 {
				fail("SetProgression not idempotent")
			}
		}
		// SetSideways: vertical, orientation set, progression preserved
		for _, sw := range []bool{false, true} {
			d2 := d
			d2.SetSideways(sw)
			f := get(d2)
			if f.axis != di.Vertical || !f.has || f.side != sw || f.prog != f0.prog {
				fail("SetSideways(%v): facets %+v -> %+v", sw, f0, f)
			}
		}
		// IsVertical agrees with Axis; IsSideways implies vertical
		if d.IsVertical() != (d.Axis() == di.Vertical) || d.IsSideways() && !d.IsVertical() {
			fail("IsVertical/IsSideways inconsistent")
		}
		// Harfbuzz depends only on axis + progression
		var want hb.Direction
		switch {
		case f0.axis == di.Horizontal && f0.prog == di.FromTopLeft:
			want = hb.LeftToRight
		case f0.axis == di.Horizontal:
			want = hb.RightToLeft
		case f0.prog == di.FromTopLeft:
			want = hb.TopToBottom
		default:
			want = hb.BottomToTop
		}
		if d.Harfbuzz() != want {
			fail("Harfbuzz()=%v want %v", d.Harfbuzz(), want)
		}
	}
	if di.DirectionLTR.Axis() != di.Horizontal || di.DirectionRTL.Progression() != di.TowardTopLeft ||
		di.DirectionTTB.Axis() != di.Vertical || di.DirectionBTT.Progression() != di.TowardTopLeft || di.DirectionTTB.Progression() != di.FromTopLeft {
		ev.Fail(t, "direction", map[string]any{"direction": "constants"}, "direction constants have wrong facets")
	}
	ev.Sample(map[string]any{"direction": 7, "harfbuzz": int(di.Direction(7).Harfbuzz())})
	ev.CaseEnum(n, n-1)
}

// TestPropLanguageTable: every entry of the language table round-trips through its tag.
func TestPropLanguageTable(t *testing.T) {
	var n int64
	for id := language.LangID(1); ; id++ {
		l := id.Language()
		if l == "<invalid language>" {
			break
		}
		n++
		got, ok := language.NewLangID(l)
		if !ok || got != id {
			ev.Fail(t, "langtable", map[string]any{"id": int(id), "lang": string(l)}, "NewLangID(%q) = %d,%v; want %d", l, got, ok, id)
		}
		if c := language.NewLanguage(string(l)); c != l {
			ev.Fail(t, "langtable", map[string]any{"id": int(id), "lang": string(l)}, "table tag %q is not canonical (canonical form %q)", l, c)
		}
		// derived languages map to their primary entry
		if !strings.Contains(string(l), "-") {
			// (documented: "Derived languages not exactly supported are mapped to their primary
			// part : for instance, 'fr-be' is mapped to 'fr'"); the suffixes sort before, among and
			// after real subtags
			for _, suffix := range []string{"-zzzz", "-aa", "-0", "-za"} {
				d := language.Language(string(l) + suffix)
				if exact, isExact := language.NewLangID(d); isExact && exact.Language() == d {
					continue // an entry of its own
				}
				got, ok := language.NewLangID(d)
				if !ok || got != id {
					ev.Fail(t, "langtable", map[string]any{"id": int(id), "lang": string(d)}, "NewLangID(%q) = %d (%q), %v; the derived language must map to its primary part %q (%d)", d, got, got.Language(), ok, l, id)
				}
			}
		}
		if n%97 == 0 {
			ev.Sample(map[string]any{"id": int(id), "lang": string(l)})
		}
	}
	if n < 100 {
		t.Fatalf("language table too small: %d", n)
	}
	ev.CaseEnum(n, n)
}

func genTag() *rapid.Generator[string] {
	piece := rapid.OneOf(
		rapid.StringMatching(`[a-zA-Z]{1,8}`),
		rapid.StringMatching(`[a-zA-Z0-9]{1,4}`),
		rapid.SampledFrom([]string{"fr", "en", "zh", "und", "x", "ar", "sr", "Latn", "BE", "hans", "419", "u", "t"}),
		rapid.StringOfN(rapid.RuneFrom(nil, unicode.Latin, unicode.Han, unicode.Cyrillic), 0, 4, -1),
		rapid.StringOfN(rapid.Rune(), 0, 3, -1),
	)
	sep := rapid.SampledFrom([]string{"-", "_", "-", "@", ".", " ", "--", ""})
	return rapid.Custom(func(t *rapid.T) string {
		n := rapid.IntRange(0, 5).Draw(t, "n")
		var sb strings.Builder
		for i := 0; i < n; i++ {
			if i > 0 {
				sb.WriteString(sep.Draw(t, "sep"))
			}
			sb.WriteString(piece.Draw(t, "piece"))
		}
		if rapid.IntRange(0, 200).Draw(t, "long") == 0 {
			return strings.Repeat(sb.String()+"-", 500)
		}
		return sb.String()
	})
}

// TestPropLanguageTags: canonicalisation is idempotent and produces only [a-z0-9-]; NewLangID is
// total and consistent with the table.
func TestPropLanguageTags(t *testing.T) {
	rapid.Check(t, func(t *rapid.T) {
		s := genTag().Draw(t, "tag")
		l := language.NewLanguage(s)
		nontrivial := string(l) != s && len(l) > 0
		ev.Case(nontrivial, s)
		if ev.WantSample() {
			ev.Sample(map[string]any{"tag": s, "canonical": string(l)})
		}
		c := map[string]any{"tag": s}
		if l2 := language.NewLanguage(string(l)); l2 != l {
			ev.Fail(t, "langtag", c, "NewLanguage not idempotent: %q -> %q -> %q", s, l, l2)
		}
		for i := 0; i < len(l); i++ {
			ch := l[i]
			if !(ch >= 'a' && ch <= 'z' || ch >= '0' && ch <= '9' || ch == '-') {
				ev.Fail(t, "langtag", c, "canonical form %q contains byte %q", l, ch)
			}
		}
		if p := l.Primary(); strings.Contains(string(p), "-") || !strings.HasPrefix(string(l), string(p)) {
			ev.Fail(t, "langtag", c, "Primary(%q)=%q", l, p)
		}
		id, ok := language.NewLangID(l)
		if ok {
			ev.Label("known_language")
			tl := id.Language()
			if tl != l && tl != l.Primary() {
				ev.Fail(t, "langtag", c, "NewLangID(%q) maps to %q, neither the tag nor its primary", l, tl)
			}
			if id2, ok2 := language.NewLangID(tl); !ok2 || id2 != id {
				ev.Fail(t, "langtag", c, "NewLangID(%q)=%d but NewLangID(%q)=%d,%v", l, id, tl, id2, ok2)
			}
		} else if id != 0 {
			ev.Fail(t, "langtag", c, "unknown language returned id %d", id)
		}
		// UseScript is total
		_ = id.UseScript(language.Latin)
		_ = language.LangID(0xFFFF).UseScript(language.Arabic)
	})
}

// TestReplay re-runs saved cases.
func TestReplay(t *testing.T) {
	// C20's code-point checks are exhaustive in every run, so a replay is the enumeration itself.
	for r := rune(0); r <= 0x10FFFF; r += 0x101 {
		checkCodePoint(t, r)
	}
}
