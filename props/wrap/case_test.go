// Package wrap decides the three line-wrapping properties C02 (conservation), C03 (break legality)
// and C04 (fit / greedy fill / truncation) of shaping.LineWrapper with one shared case space:
// synthetic shaped runs (family A), the real text -> Split -> Shape -> spacing pipeline (family B)
// and an exhaustive small-scope enumerator. The driver sets VERIF_PROPERTY; only the predicates of
// that property are enforced and counted.
package wrap

import (
	"fmt"
	"os"
	"reflect"
	"strings"

	"github.com/go-text/typesetting/di"
	"github.com/go-text/typesetting/font"
	"github.com/go-text/typesetting/language"
	"github.com/go-text/typesetting/shaping"
	"golang.org/x/image/math/fixed"

	"verif/internal/corpus"
)

// prop is the property being decided by this process ("" = all three, for ad-hoc `go test`).
var prop = os.Getenv("VERIF_PROPERTY")

func on(p string) bool { return prop == "" || prop == p }

// ---------------------------------------------------------------------------------------------
// decoded case (what is written to fail.json / read by TestReplay)
// ---------------------------------------------------------------------------------------------

// GlyphSpec is one synthetic glyph: advance and ink extent along the run axis (26.6 units).
type GlyphSpec struct {
	Adv int32  `json:"adv"`
	Ink int32  `json:"ink"` // 0 = whitespace-like (what the wrapper treats as a space)
	GID uint32 `json:"gid"`
}

// ClusterSpec is one glyph cluster: Runes input runes shaped into len(Glyphs) glyphs.
type ClusterSpec struct {
	Runes  int         `json:"runes"`
	Glyphs []GlyphSpec `json:"glyphs"`
}

// RunSpec is one synthetic shaped run; clusters are listed in logical order, the glyph slice is
// materialised in visual order exactly as the shaper does (descending clusters for RTL).
type RunSpec struct {
	RTL      bool          `json:"rtl"`
	Orient   int           `json:"orient,omitempty"` // vertical runs: 0 unset, 1 upright, 2 sideways
	Face     int           `json:"face"`
	Clusters []ClusterSpec `json:"clusters"`
}

type TruncSpec struct {
	Kind string `json:"kind"` // "zero" (zero value), "glyph" (one sentinel glyph of advance Adv), "shaped" (pipeline: shaped "…")
	Adv  int32  `json:"adv,omitempty"`
	RTL  bool   `json:"rtl,omitempty"`
}

type CfgSpec struct {
	Policy        int       `json:"policy"` // 0 WhenNecessary, 1 Never, 2 Always
	Lines         int       `json:"truncate_after_lines"`
	Truncator     TruncSpec `json:"truncator"`
	TextContinues bool      `json:"text_continues"`
	NoTrim        bool      `json:"disable_trailing_whitespace_trim"`
	RTL           bool      `json:"paragraph_rtl"`
	Orient        int       `json:"paragraph_orient,omitempty"` // vertical paragraphs: orientation bits of WrapConfig.Direction
}

// Case is the decoded input of one wrapping case.
type Case struct {
	Family string `json:"family"` // "synthetic", "pipeline", "enum"
	Text   []rune `json:"text"`   // runes as integers
	// synthetic
	Vertical bool      `json:"vertical,omitempty"`
	Runs     []RunSpec `json:"runs,omitempty"`
	// pipeline
	Fonts []string `json:"fonts,omitempty"` // corpus-relative files, face 0 of each; first is the default face
	Size  int32    `json:"size,omitempty"`  // 26.6
	// both
	WordSpacing   int32   `json:"word_spacing,omitempty"`
	LetterSpacing int32   `json:"letter_spacing,omitempty"`
	Cfg           CfgSpec `json:"config"`
	Paragraph     bool    `json:"wrap_paragraph"` // true: WrapParagraph(Widths[0]); false: Prepare + WrapNextLine(Widths[i])
	Widths        []int   `json:"widths"`         // width of the i-th call; the last one repeats
	Iter          string  `json:"iterator"`       // "slice" (NewSliceIterator), "own", "owncopy"
	// Prev, when set, is a paragraph wrapped on the SAME LineWrapper before this one (through
	// Prepare/WrapNextLine and, if its Paragraph flag is set, WrapParagraph): the wrapper is
	// documented as reusable, so what it did before must not show in this case's lines. Only the
	// lines of this case are judged.
	Prev *Case `json:"prev,omitempty"`
	// PrevShared: the predecessor's paragraph lives in the SAME []rune backing array as this one
	// (a text buffer edited in place between two wraps).
	PrevShared bool `json:"prev_shares_buffer,omitempty"`
	// informational (filled when a failure is written): the materialised input runs
	Shaped []RunDump `json:"shaped_runs,omitempty"`
}

type GlyphDump struct {
	Cluster int    `json:"c"`
	Runes   int    `json:"r"`
	Glyphs  int    `json:"g"`
	XAdv    int32  `json:"xa"`
	YAdv    int32  `json:"ya,omitempty"`
	Width   int32  `json:"w"`
	Height  int32  `json:"h,omitempty"`
	XOff    int32  `json:"xo,omitempty"`
	GID     uint32 `json:"gid"`
	StartLS int32  `json:"sls,omitempty"`
	EndLS   int32  `json:"els,omitempty"`
}

type RunDump struct {
	Offset  int         `json:"offset"`
	Count   int         `json:"count"`
	Dir     string      `json:"dir"`
	Advance int32       `json:"advance"`
	Face    string      `json:"face"`
	Glyphs  []GlyphDump `json:"glyphs"`
}

func (c *Case) width(call int) int {
	if len(c.Widths) == 0 {
		return 0
	}
	if call >= len(c.Widths) {
		call = len(c.Widths) - 1
	}
	return c.Widths[call]
}

// ---------------------------------------------------------------------------------------------
// materialisation
// ---------------------------------------------------------------------------------------------

// dummy faces: the wrapper never dereferences Output.Face; identity is all that matters.
// (font.Face is a non-zero-size struct, so distinct allocations have distinct addresses.)
var dummyFaces = [4]*font.Face{new(font.Face), new(font.Face), new(font.Face), new(font.Face)}

// sentinel identity of the truncator: its own face object and glyph id.
const truncGID = 0xFFF0

var truncFaceSynthetic = new(font.Face)

type built struct {
	text      []rune
	runs      []shaping.Output // pristine input runs (never handed to the wrapper)
	cfg       shaping.WrapConfig
	truncFace *font.Face // identity of the truncator run (nil for the zero-value truncator)
	// spacing[g] = letter spacing really added before and after the glyph g of runs (from geometry)
	spacing   map[*shaping.Glyph][2]fixed.Int26_6
	faceNames map[*font.Face]string
}

// orient applies the vertical orientation bits: 0 unset, 1 upright, 2 sideways (vertical only).
func orient(d di.Direction, o int) di.Direction {
	if d.IsVertical() {
		switch o {
		case 1:
			d.SetSideways(false)
		case 2:
			d.SetSideways(true)
		}
	}
	return d
}

// axisAdvance is the sum of the glyph advances along the run's axis, computed by the harness (the
// inputs must be right even when Output.RecomputeAdvance is not).
func axisAdvance(o *shaping.Output) fixed.Int26_6 {
	var sum fixed.Int26_6
	v := o.Direction.IsVertical()
	for i := range o.Glyphs {
		sum += gAdv(&o.Glyphs[i], v)
	}
	return sum
}

func dirOf(rtl, vertical bool) di.Direction {
	switch {
	case vertical && rtl:
		return di.DirectionBTT
	case vertical:
		return di.DirectionTTB
	case rtl:
		return di.DirectionRTL
	}
	return di.DirectionLTR
}

func (rs *RunSpec) count() int {
	n := 0
	for _, c := range rs.Clusters {
		n += c.Runes
	}
	return n
}

// output materialises the run exactly as shaping.Shape + countClusters would describe it: absolute
// cluster indices, RuneCount/GlyphCount on every glyph of the cluster, visual glyph order.
func (rs *RunSpec) output(offset int, vertical bool) shaping.Output {
	out := shaping.Output{
		Direction: orient(dirOf(rs.RTL, vertical), rs.Orient),
		Runes:     shaping.Range{Offset: offset, Count: rs.count()},
		Face:      dummyFaces[rs.Face%len(dummyFaces)],
		Size:      fixed.I(16),
	}
	starts := make([]int, len(rs.Clusters))
	p := offset
	ng := 0
	for i, c := range rs.Clusters {
		starts[i] = p
		p += c.Runes
		ng += len(c.Glyphs)
	}
	out.Glyphs = make([]shaping.Glyph, 0, ng)
	emit := func(i int) {
		c := rs.Clusters[i]
		for _, g := range c.Glyphs {
			gl := shaping.Glyph{ClusterIndex: starts[i], RuneCount: c.Runes, GlyphCount: len(c.Glyphs), GlyphID: font.GID(g.GID)}
			if vertical {
				gl.YAdvance = fixed.Int26_6(g.Adv)
				gl.Height = fixed.Int26_6(g.Ink)
				gl.Width = fixed.I(8)
			} else {
				gl.XAdvance = fixed.Int26_6(g.Adv)
				gl.Width = fixed.Int26_6(g.Ink)
				gl.Height = -fixed.I(8)
			}
			out.Glyphs = append(out.Glyphs, gl)
		}
	}
	if rs.RTL {
		for i := len(rs.Clusters) - 1; i >= 0; i-- {
			emit(i)
		}
	} else {
		for i := range rs.Clusters {
			emit(i)
		}
	}
	out.Advance = axisAdvance(&out)
	return out
}

type fontmap struct{ faces []*font.Face }

func (fm fontmap) ResolveFace(r rune) *font.Face {
	for _, f := range fm.faces {
		if _, ok := f.NominalGlyph(r); ok {
			return f
		}
	}
	return fm.faces[0]
}

var (
	pipeShaper   shaping.HarfbuzzShaper
	pipeSeg      shaping.Segmenter
	truncFaceFor = map[*font.Font]*font.Face{}
)

func loadFace(rel string) (*font.Face, error) {
	faces, err := corpus.Faces(rel)
	if err != nil {
		return nil, err
	}
	if len(faces) == 0 {
		return nil, fmt.Errorf("no face in %s", rel)
	}
	return faces[0], nil
}

func build(c *Case) (*built, error) {
	b := &built{text: c.Text, faceNames: map[*font.Face]string{}}
	paraDir := orient(dirOf(c.Cfg.RTL, c.Vertical), c.Cfg.Orient)
	var firstFace *font.Face
	switch c.Family {
	case "pipeline":
		if len(c.Text) == 0 || len(c.Fonts) == 0 {
			return nil, fmt.Errorf("pipeline case needs text and fonts")
		}
		var fm fontmap
		for _, f := range c.Fonts {
			face, err := loadFace(f)
			if err != nil {
				return nil, err
			}
			fm.faces = append(fm.faces, face)
			b.faceNames[face] = f
		}
		firstFace = fm.faces[0]
		in := shaping.Input{Text: c.Text, RunStart: 0, RunEnd: len(c.Text), Direction: paraDir, Face: firstFace,
			Size: fixed.Int26_6(c.Size), Language: language.NewLanguage("en")}
		for _, sub := range pipeSeg.Split(in, fm) {
			b.runs = append(b.runs, pipeShaper.Shape(sub))
		}
	default:
		off := 0
		for i := range c.Runs {
			o := c.Runs[i].output(off, c.Vertical)
			off += o.Runes.Count
			b.runs = append(b.runs, o)
			b.faceNames[o.Face] = fmt.Sprintf("dummy%d", c.Runs[i].Face%len(dummyFaces))
		}
		if off != len(c.Text) {
			return nil, fmt.Errorf("runs cover %d runes, text has %d", off, len(c.Text))
		}
	}
	if c.WordSpacing != 0 || c.LetterSpacing != 0 {
		// The reference for what letter spacing really added is the glyph geometry, not the
		// library's bookkeeping fields: a clone gets the word spacing only, the real runs go
		// through AddSpacing as users do, and the difference is what was added before (offset
		// shift) and after (rest of the advance increase) each glyph.
		var ref []shaping.Output
		if c.LetterSpacing != 0 {
			ref = cloneRuns(b.runs)
			if c.WordSpacing != 0 {
				for i := range ref {
					ref[i].AddWordSpacing(c.Text, fixed.Int26_6(c.WordSpacing))
				}
			}
		}
		shaping.AddSpacing(b.runs, c.Text, fixed.Int26_6(c.WordSpacing), fixed.Int26_6(c.LetterSpacing))
		for ri := range b.runs {
			b.runs[ri].Advance = axisAdvance(&b.runs[ri])
		}
		if ref != nil {
			b.spacing = map[*shaping.Glyph][2]fixed.Int26_6{}
			for ri := range b.runs {
				vertical := b.runs[ri].Direction.IsVertical()
				for gi := range b.runs[ri].Glyphs {
					g, r := &b.runs[ri].Glyphs[gi], &ref[ri].Glyphs[gi]
					before := gOff(g, vertical) - gOff(r, vertical)
					after := gAdv(g, vertical) - gAdv(r, vertical) - before
					if before != 0 || after != 0 {
						b.spacing[g] = [2]fixed.Int26_6{before, after}
					}
				}
			}
		}
	}
	b.cfg = shaping.WrapConfig{
		Direction:                     paraDir,
		TruncateAfterLines:            c.Cfg.Lines,
		TextContinues:                 c.Cfg.TextContinues,
		BreakPolicy:                   shaping.LineBreakPolicy(c.Cfg.Policy),
		DisableTrailingWhitespaceTrim: c.Cfg.NoTrim,
	}
	switch c.Cfg.Truncator.Kind {
	case "", "zero":
		b.truncFace = nil
	case "glyph":
		adv := fixed.Int26_6(c.Cfg.Truncator.Adv)
		g := shaping.Glyph{RuneCount: 1, GlyphCount: 1, GlyphID: truncGID}
		tdir := dirOf(c.Cfg.Truncator.RTL, c.Vertical)
		if c.Vertical {
			g.YAdvance, g.Height, g.Width = adv, adv, fixed.I(8)
		} else {
			g.XAdvance, g.Width, g.Height = adv, adv, -fixed.I(8)
		}
		b.truncFace = truncFaceSynthetic
		b.cfg.Truncator = shaping.Output{Advance: adv, Direction: tdir, Glyphs: []shaping.Glyph{g}, Face: truncFaceSynthetic,
			Size: fixed.I(16), Runes: shaping.Range{Count: 1}}
	case "shaped":
		if firstFace == nil {
			return nil, fmt.Errorf("shaped truncator needs a pipeline case")
		}
		tf := truncFaceFor[firstFace.Font]
		if tf == nil {
			tf = font.NewFace(firstFace.Font) // same font, own identity
			truncFaceFor[firstFace.Font] = tf
		}
		b.truncFace = tf
		tr := []rune("…")
		b.cfg.Truncator = pipeShaper.Shape(shaping.Input{Text: tr, RunStart: 0, RunEnd: 1, Direction: dirOf(c.Cfg.Truncator.RTL, false),
			Face: tf, Size: fixed.Int26_6(c.Size), Language: language.NewLanguage("en")})
	default:
		return nil, fmt.Errorf("unknown truncator kind %q", c.Cfg.Truncator.Kind)
	}
	b.faceNames[b.truncFace] = "TRUNCATOR"
	return b, nil
}

// ---------------------------------------------------------------------------------------------
// glyph field access (the letter-spacing bookkeeping fields are unexported: read by reflection)
// ---------------------------------------------------------------------------------------------

var glyphType = reflect.TypeOf(shaping.Glyph{})

var (
	fXAdvance = fieldIndex("XAdvance")
	fYAdvance = fieldIndex("YAdvance")
	fXOffset  = fieldIndex("XOffset")
	fYOffset  = fieldIndex("YOffset")
	fStartLS  = fieldIndex("startLetterSpacing")
	fEndLS    = fieldIndex("endLetterSpacing")
)

func fieldIndex(name string) int {
	f, ok := glyphType.FieldByName(name)
	if !ok {
		panic("shaping.Glyph has no field " + name)
	}
	return f.Index[0]
}

// glyphVec returns every field of the glyph as an integer vector (all fields are integer kinds).
func glyphVec(g *shaping.Glyph) []int64 {
	v := reflect.ValueOf(g).Elem()
	out := make([]int64, v.NumField())
	for i := range out {
		f := v.Field(i)
		switch f.Kind() {
		case reflect.Int, reflect.Int8, reflect.Int16, reflect.Int32, reflect.Int64:
			out[i] = f.Int()
		case reflect.Uint, reflect.Uint8, reflect.Uint16, reflect.Uint32, reflect.Uint64:
			out[i] = int64(f.Uint())
		default:
			panic("unexpected field kind in shaping.Glyph: " + f.Kind().String())
		}
	}
	return out
}

func startLS(g *shaping.Glyph) fixed.Int26_6 {
	return fixed.Int26_6(reflect.ValueOf(g).Elem().Field(fStartLS).Int())
}

func endLS(g *shaping.Glyph) fixed.Int26_6 {
	return fixed.Int26_6(reflect.ValueOf(g).Elem().Field(fEndLS).Int())
}

func gOff(g *shaping.Glyph, vertical bool) fixed.Int26_6 {
	if vertical {
		return g.YOffset
	}
	return g.XOffset
}

// trueStartLS / trueEndLS: the letter spacing actually present before / after an input glyph.
func (b *built) trueStartLS(g *shaping.Glyph) fixed.Int26_6 { return b.spacing[g][0] }
func (b *built) trueEndLS(g *shaping.Glyph) fixed.Int26_6   { return b.spacing[g][1] }

func gAdv(g *shaping.Glyph, vertical bool) fixed.Int26_6 {
	if vertical {
		return g.YAdvance
	}
	return g.XAdvance
}

// gIsSpace mirrors the only notion of "whitespace glyph" the wrapper documents: no ink extent
// along the axis.
func gIsSpace(g *shaping.Glyph, vertical bool) bool {
	if vertical {
		return g.Height == 0
	}
	return g.Width == 0
}

// ---------------------------------------------------------------------------------------------
// cloning / dumping
// ---------------------------------------------------------------------------------------------

func cloneRuns(in []shaping.Output) []shaping.Output {
	out := make([]shaping.Output, len(in))
	for i, r := range in {
		out[i] = r
		out[i].Glyphs = append(make([]shaping.Glyph, 0, len(r.Glyphs)), r.Glyphs...)
	}
	return out
}

func dirName(d di.Direction) string {
	switch d {
	case di.DirectionLTR:
		return "LTR"
	case di.DirectionRTL:
		return "RTL"
	case di.DirectionTTB:
		return "TTB"
	case di.DirectionBTT:
		return "BTT"
	}
	return fmt.Sprintf("dir(%d)", d)
}

func dumpRun(r *shaping.Output, names map[*font.Face]string) RunDump {
	d := RunDump{Offset: r.Runes.Offset, Count: r.Runes.Count, Dir: dirName(r.Direction), Advance: int32(r.Advance), Face: names[r.Face]}
	if r.Face == nil {
		d.Face = "nil"
	}
	for i := range r.Glyphs {
		g := &r.Glyphs[i]
		d.Glyphs = append(d.Glyphs, GlyphDump{Cluster: g.ClusterIndex, Runes: g.RuneCount, Glyphs: g.GlyphCount, XAdv: int32(g.XAdvance), YAdv: int32(g.YAdvance),
			Width: int32(g.Width), Height: int32(g.Height), XOff: int32(g.XOffset), GID: uint32(g.GlyphID), StartLS: int32(startLS(g)), EndLS: int32(endLS(g))})
	}
	return d
}

func dumpRuns(rs []shaping.Output, names map[*font.Face]string) []RunDump {
	out := make([]RunDump, len(rs))
	for i := range rs {
		out[i] = dumpRun(&rs[i], names)
	}
	return out
}

// describeLines renders the observed result compactly for failure messages.
func describeLines(res *result, names map[*font.Face]string) string {
	var sb strings.Builder
	for i, o := range res.obs {
		fmt.Fprintf(&sb, "\n  call %d width=%d done=%v truncated=%d next=%d:", i, o.width, o.done, o.truncated, o.nextLine)
		if o.line == nil {
			sb.WriteString(" <nil line>")
		}
		for _, r := range o.line {
			fmt.Fprintf(&sb, " {%s %s runes[%d,%d) adv=%d glyphs=[", names[r.Face], dirName(r.Direction), r.Runes.Offset, r.Runes.Offset+r.Runes.Count, r.Advance)
			for gi := range r.Glyphs {
				g := &r.Glyphs[gi]
				fmt.Fprintf(&sb, "c%d:%d/%d ", g.ClusterIndex, gAdv(g, r.Direction.IsVertical()), g.Width)
			}
			sb.WriteString("]}")
		}
	}
	return sb.String()
}

func shapingPolicy(p int) shaping.LineBreakPolicy { return shaping.LineBreakPolicy(p) }
