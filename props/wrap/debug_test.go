package wrap

import (
	"encoding/json"
	"fmt"
	"os"
	"sort"
	"strconv"
	"strings"
	"testing"

	"pgregory.net/rapid"
)

// tallyTB turns ev.Fail into a recoverable panic so that a development run can tally every
// violation class instead of stopping at the first one.
type tallyTB struct{ msg string }

type tallyStop struct{}

func (t *tallyTB) Helper() {}
func (t *tallyTB) Fatalf(format string, args ...any) {
	t.msg = fmt.Sprintf(format, args...)
	panic(tallyStop{})
}

// TestDebugTally is a development aid (WRAP_DEBUG=n cases): violation classes with one example each.
func TestDebugTally(t *testing.T) {
	n, _ := strconv.Atoi(os.Getenv("WRAP_DEBUG"))
	if n == 0 {
		t.Skip("development aid; set WRAP_DEBUG=<cases>")
	}
	os.Unsetenv("VERIF_OUT")
	counts := map[string]int{}
	example := map[string]string{}
	gen := rapid.Custom(func(t *rapid.T) *Case {
		var c *Case
		if os.Getenv("WRAP_DEBUG_FAMILY") == "pipeline" {
			c = genPipeline(t)
		} else {
			c = genSynthetic(t)
		}
		b, err := build(c)
		if err != nil {
			panic(err)
		}
		m, bad := newModel(b, c, nil)
		if bad != "" {
			c.Family = "bad:" + bad
			return c
		}
		genWidths(t, c, m)
		return c
	})
	for seed := 0; seed < n; seed++ {
		c := gen.Example(seed)
		if strings.HasPrefix(c.Family, "bad:") {
			counts[c.Family]++
			continue
		}
		tb := &tallyTB{}
		func() {
			defer func() {
				if r := recover(); r != nil {
					if _, ok := r.(tallyStop); !ok {
						panic(r)
					}
				}
			}()
			b, _ := build(c)
			m, _ := newModel(b, c, nil)
			out := evaluate(tb, c, b, m)
			for f, what := range out.excluded {
				k := "excluded " + f + " @ " + what[:strings.Index(what, ":")]
				counts[k]++
				if _, ok := example[k]; !ok {
					cj, _ := json.Marshal(c)
					example[k] = k + " " + what + "\n   CASE " + string(cj)
				}
			}
		}()
		counts["cases"]++
		if tb.msg != "" {
			k := tb.msg
			if i := strings.Index(k, "]"); i > 0 {
				k = k[:i+1]
			}
			counts[k]++
			if _, ok := example[k]; !ok || len(tb.msg) < len(example[k]) {
				cj, _ := json.Marshal(c)
				example[k] = tb.msg + "\n   CASE " + string(cj)
			}
		}
	}
	var keys []string
	for k := range counts {
		keys = append(keys, k)
	}
	sort.Strings(keys)
	for _, k := range keys {
		t.Logf("%6d %s", counts[k], k)
	}
	for _, k := range keys {
		if e, ok := example[k]; ok {
			t.Logf("EXAMPLE %s\n", e)
		}
	}
}
