package wrap

import (
	"os"
	"strconv"
	"testing"

	"verif/internal/ev"
)

// enumSyms is the 6-symbol alphabet of the exhaustive small-scope enumerator: a letter, a space, a
// hyphen, a mandatory break, a combining mark, a CJK ideograph (break opportunities on both sides),
// each with a fixed advance (integers, so that every width between 0 and the total is enumerated).
var enumSyms = []struct {
	r        rune
	adv, ink int32
}{
	{'a', 2 * 64, 2 * 64},
	{' ', 64, 0},
	{'-', 64, 64},
	{'\n', 64, 0},
	{0x0301, 0, 64},
	{'あ', 3 * 64, 3 * 64},
}

// enumLetterSpacing is a development aid (WRAP_ENUM_LETTER_SPACING=<26.6 units>): the registered
// jobs enumerate without letter spacing.
var enumLetterSpacing = func() int32 {
	v, _ := strconv.Atoi(os.Getenv("WRAP_ENUM_LETTER_SPACING"))
	return int32(v)
}()

// enumCluster builds the cluster covering text[p:p+rc].
func enumCluster(idx []int, p, rc, pattern int) ClusterSpec {
	var adv int32
	allSpace := true
	for i := p; i < p+rc; i++ {
		s := enumSyms[idx[i]]
		adv += s.adv
		allSpace = allSpace && s.ink == 0
	}
	ink := adv
	if allSpace {
		ink = 0
	} else if ink == 0 {
		ink = 64
	}
	cl := ClusterSpec{Runes: rc, Glyphs: []GlyphSpec{{Adv: adv, Ink: ink, GID: uint32(10 + idx[p])}}}
	if pattern == 1 {
		// two glyphs per cluster: a base carrying the advance and a zero-advance attachment
		cl.Glyphs = append(cl.Glyphs, GlyphSpec{Adv: 0, Ink: 64, GID: 99})
	}
	return cl
}

// runsFor materialises the run specs of one (layout, cluster mask, pattern) choice. mask bit i set
// means "cluster boundary between rune i and rune i+1".
func enumRuns(idx []int, layout int, mask uint, pattern int) []RunSpec {
	n := len(idx)
	type span struct {
		from, to int
		rtl      bool
	}
	var spans []span
	switch layout {
	case 0:
		spans = []span{{0, n, false}}
	case 1:
		spans = []span{{0, n, true}}
	case 2:
		h := (n + 1) / 2
		spans = []span{{0, h, false}, {h, n, true}}
	case 3: // first rune in a run of its own (a base whose mark is shaped with another font, ...)
		spans = []span{{0, 1, false}, {1, n, false}}
	default: // last rune in a run of its own
		spans = []span{{0, n - 1, false}, {n - 1, n, false}}
	}
	var runs []RunSpec
	for si, sp := range spans {
		rs := RunSpec{RTL: sp.rtl, Face: si}
		start := sp.from
		for i := sp.from; i < sp.to; i++ {
			if i == sp.to-1 || mask&(1<<uint(i)) != 0 {
				rs.Clusters = append(rs.Clusters, enumCluster(idx, start, i+1-start, pattern))
				start = i + 1
			}
		}
		runs = append(runs, rs)
	}
	return runs
}

// TestPropSmallScope enumerates exhaustively: every paragraph of length <= 4 (quick) / <= 5 (thorough)
// over enumSyms x run layouts {one LTR run, one RTL run, LTR+RTL split in the middle, first rune in its
// own run, last rune in its own run} x every partition of each run into
// clusters x glyphs per cluster {1, 2 (thorough)} x 3 policies x TruncateAfterLines in {0,1,2,3,9}
// (x TextContinues when truncating) x every integer width from 0 to total+1 plus two extreme widths
// (2^25-1 ... MaxInt64, rotating) plus four per-line alternations (wide,0 / 0,wide / wide,1 / 1,wide),
// through the iterative
// API (and WrapParagraph in the thorough tier). Texts are partitioned over the shards.
func TestPropSmallScope(t *testing.T) {
	shard, nshards := ev.Shard()
	maxLen := ev.Scale(4, 5)
	patterns := ev.Scale(1, 2)
	var total, nontrivial int64
	labels := map[string]int64{}
	var sampleEvery int64
	extremeTurn := 0
	textIndex := 0
	for n := 0; n <= maxLen; n++ {
		count := 1
		for i := 0; i < n; i++ {
			count *= len(enumSyms)
		}
		idx := make([]int, n)
		for ti := 0; ti < count; ti++ {
			textIndex++
			if textIndex%nshards != shard {
				continue
			}
			x := ti
			text := make([]rune, n)
			for i := 0; i < n; i++ {
				idx[i] = x % len(enumSyms)
				x /= len(enumSyms)
				text[i] = enumSyms[idx[i]].r
			}
			si := segment(text)
			layouts := 3
			if n >= 3 {
				layouts = 4 // split after the first rune differs from the middle split
			}
			if n >= 4 {
				layouts = 5 // so does the split before the last rune
			}
			if n < 2 {
				layouts = 2
			}
			if n == 0 {
				layouts = 2 // no run at all / one empty run
			}
			for layout := 0; layout < layouts; layout++ {
				nmask := uint(1)
				if n > 1 {
					nmask = 1 << uint(n-1)
				}
				for mask := uint(0); mask < nmask; mask++ {
					if layout >= 2 {
						h := (n + 1) / 2
						switch layout {
						case 3:
							h = 1
						case 4:
							h = n - 1
						}
						if mask&(1<<uint(h-1)) == 0 {
							continue // the run boundary is a cluster boundary; enumerated once
						}
					}
					for pattern := 0; pattern < patterns; pattern++ {
						c := &Case{Family: "enum", Text: text, Iter: "slice", Paragraph: ev.Thorough()}
						if n > 0 {
							c.Runs = enumRuns(idx, layout, mask, pattern)
						} else if layout == 1 {
							c.Runs = []RunSpec{{}}
						}
						bothAPIs := ev.Thorough() || n <= 1 // the edge-of-contract inputs are tiny: both APIs always
						c.Cfg.Truncator = TruncSpec{Kind: "glyph", Adv: 64}
						c.LetterSpacing = enumLetterSpacing
						if ev.Thorough() && ti%2 == 1 {
							c.Iter = "own"
						}
						b, err := build(c)
						if err != nil {
							t.Fatalf("enumerator built an invalid case: %v", err)
						}
						m, bad := newModel(b, c, si)
						if bad != "" {
							t.Fatalf("enumerator violated a precondition: %s", bad)
						}
						maxW := m.cum[m.n].Ceil() + 1
						c.Widths = []int{0}
						for policy := 0; policy < 3; policy++ {
							for _, k := range []int{0, 1, 2, 3, 9} { // 9: enabled, never reached (<= 5 runes)
								for cont := 0; cont < 2; cont++ {
									if (k == 0 || k > 2) && cont == 1 {
										continue
									}
									c.Cfg.Policy, c.Cfg.Lines, c.Cfg.TextContinues = policy, k, cont == 1
									// every integer width 0..total+1, then two of the extreme widths
									// (rotating through the list from one configuration to the next)
									// ... then four per-line alternations between a wide and a tiny width
									for wi := 0; wi <= maxW+6; wi++ {
										w := wi
										c.Widths = c.Widths[:1]
										switch {
										case wi > maxW+2:
											a, z := maxW, (wi-maxW-3)/2 // (wide,0) (0,wide) (wide,1) (1,wide)
											if (wi-maxW-3)%2 == 1 {
												a, z = z, a
											}
											c.Widths = c.Widths[:0]
											for i := 0; i < n+2; i++ {
												if i%2 == 0 {
													c.Widths = append(c.Widths, a)
												} else {
													c.Widths = append(c.Widths, z)
												}
											}
											w = c.Widths[0]
										case wi > maxW:
											extremeTurn++
											w = extremeWidths[extremeTurn%len(extremeWidths)]
										}
										c.Widths[0] = w
										c.Paragraph = bothAPIs && len(c.Widths) == 1
										// build() copied these into the wrap config: keep both in step
										b.cfg.BreakPolicy = shapingPolicy(policy)
										b.cfg.TruncateAfterLines = k
										b.cfg.TextContinues = cont == 1
										out := evaluate(t, c, b, m)
										total++
										if out.nontrivial {
											nontrivial++
										}
										for _, l := range dedupe(out.labels) {
											labels[l+"/enum"]++
										}
										for f := range out.excluded {
											ev.Excluded(f)
											labels["excluded_"+f+"/enum"]++
										}
										sampleEvery++
										if sampleEvery%200003 == 1 {
											cc := *c
											cc.Widths = append([]int(nil), c.Widths...)
											ev.Sample(&cc)
										}
									}
								}
							}
						}
						if m.unusableCandidateIn(0, m.n) {
							labels["enum_inputs_with_uax14_candidate_inside_glyph_or_grapheme_cluster"]++
						}
						labels["enum_inputs"]++
					}
				}
			}
		}
	}
	for l, v := range labels {
		ev.LabelN(l, v)
	}
	ev.LabelN("family_enum", total)
	ev.LabelN("nontrivial/enum", nontrivial)
	ev.CaseEnum(total, nontrivial)
}
