package wrap

import (
	"math"
	"sort"
	"strconv"

	"golang.org/x/image/math/fixed"
	"pgregory.net/rapid"

	"verif/internal/corpus"
)

// ---------------------------------------------------------------------------------------------
// family A: synthetic shaped runs
// ---------------------------------------------------------------------------------------------

// alphabetA hits every UAX #14 class that matters to the wrapper: letters, space (repeated, for
// weight), NBSP, hyphen, LF, CR, LINE SEPARATOR, CJK, combining mark, ZWJ, full stop, digit.
// All mandatory-break classes are represented: LF, CR, LINE SEPARATOR, PARAGRAPH SEPARATOR (BK),
// VT and FF (BK), NEL (NL).
var alphabetA = []rune{'a', 'b', 'c', ' ', ' ', 0x00A0, '-', '\n', 0x2028, 'あ', 'い', 0x0301, 0x200D, '\r', '.', '1', ' ', 'a',
	'b', ' ', 'c', 'a', ' ', 'あ', '-', 'b', 0x000B, 0x000C, 0x0085, 0x2029, 'a', ' ', 'b', 'c'}

func isSpaceRune(r rune) bool {
	switch r {
	case ' ', 0x00A0, '\n', '\r', 0x2028, 0x2029, '\t', 0x3000, 0x000B, 0x000C, 0x0085:
		return true
	}
	return false
}

func genAdvance(t *rapid.T) int32 {
	switch rapid.IntRange(0, 11).Draw(t, "advKind") {
	case 0:
		return 0
	case 1, 2, 3, 4, 5:
		return int32(rapid.IntRange(1, 6).Draw(t, "adv")) * 64
	case 6:
		return int32(rapid.IntRange(10, 40).Draw(t, "advLarge")) * 64
	case 7, 8:
		// one 64th around an integer, or a half: exercises the Ceil comparisons
		return int32(rapid.IntRange(0, 6).Draw(t, "adv"))*64 + rapid.SampledFrom([]int32{1, 63, 32, -1}).Draw(t, "frac")
	case 9:
		return int32(rapid.IntRange(1, 63).Draw(t, "advTiny"))
	case 10:
		if rapid.IntRange(0, 2).Draw(t, "neg") == 0 {
			return -int32(rapid.IntRange(1, 3*64).Draw(t, "advNeg"))
		}
		return 2 * 64
	}
	return 3 * 64
}

func genRun(t *rapid.T, text []rune, start, ln int) RunSpec {
	rs := RunSpec{RTL: rapid.IntRange(0, 2).Draw(t, "rtl") == 0, Face: rapid.IntRange(0, 2).Draw(t, "face")}
	style := rapid.IntRange(0, 3).Draw(t, "clusterStyle") // 0: plain 1:1 run
	for p := 0; p < ln; {
		rc, gc := 1, 1
		if style != 0 {
			if rapid.IntRange(0, 3).Draw(t, "multiRune") == 0 {
				rc = rapid.IntRange(1, min(4, ln-p)).Draw(t, "clusterRunes")
			}
			if rapid.IntRange(0, 4).Draw(t, "multiGlyph") == 0 {
				gc = rapid.IntRange(1, 3).Draw(t, "clusterGlyphs")
			}
		}
		cl := ClusterSpec{Runes: rc}
		for k := 0; k < gc; k++ {
			adv := genAdvance(t)
			ink := adv
			if ink <= 0 {
				ink = 64
			}
			if rc == 1 && gc == 1 && isSpaceRune(text[start+p]) {
				ink = 0
				if adv == 0 && rapid.IntRange(0, 3).Draw(t, "spaceAdv") != 0 {
					adv = 2 * 64
				}
			} else if rapid.IntRange(0, 24).Draw(t, "noInk") == 0 {
				ink = 0 // an invisible glyph (ZWJ, empty .notdef): the wrapper takes it for a space
			}
			cl.Glyphs = append(cl.Glyphs, GlyphSpec{Adv: adv, Ink: ink, GID: uint32(1 + (start+p+k)%200)})
		}
		rs.Clusters = append(rs.Clusters, cl)
		p += rc
	}
	return rs
}

func genConfig(t *rapid.T, c *Case) {
	c.Cfg.Policy = rapid.IntRange(0, 2).Draw(t, "policy")
	if rapid.IntRange(0, 1).Draw(t, "truncate") == 1 {
		// 1-3, or a limit that is enabled but (almost) never reached
		c.Cfg.Lines = rapid.SampledFrom([]int{1, 2, 3, 2, 3, 1, 40, 7}).Draw(t, "truncateAfterLines")
	}
	switch rapid.IntRange(0, 5).Draw(t, "truncatorKind") {
	case 0:
		c.Cfg.Truncator = TruncSpec{Kind: "zero"}
	case 1:
		c.Cfg.Truncator = TruncSpec{Kind: "glyph", Adv: int32(rapid.IntRange(20, 60).Draw(t, "truncAdvWide")) * 64}
	default:
		c.Cfg.Truncator = TruncSpec{Kind: "glyph", Adv: int32(rapid.IntRange(0, 8*64).Draw(t, "truncAdv"))}
		if rapid.Bool().Draw(t, "truncAdvInt") {
			c.Cfg.Truncator.Adv = c.Cfg.Truncator.Adv / 64 * 64
		}
	}
	c.Cfg.Truncator.RTL = rapid.IntRange(0, 3).Draw(t, "truncRTL") == 0
	c.Cfg.TextContinues = rapid.IntRange(0, 2).Draw(t, "textContinues") == 0
	c.Cfg.NoTrim = rapid.IntRange(0, 3).Draw(t, "noTrim") == 0
	c.Cfg.RTL = rapid.IntRange(0, 2).Draw(t, "paragraphRTL") == 0
	c.Paragraph = rapid.Bool().Draw(t, "wrapParagraphAPI")
	c.Iter = rapid.SampledFrom([]string{"slice", "slice", "own", "owncopy"}).Draw(t, "iterator")
}

func genSynthetic(t *rapid.T) *Case {
	c := &Case{Family: "synthetic"}
	var n int
	switch rapid.IntRange(0, 9).Draw(t, "lenClass") {
	case 0, 1, 2:
		n = rapid.IntRange(1, 6).Draw(t, "len")
		if rapid.IntRange(0, 40).Draw(t, "empty") == 17 {
			n = 0
		}
	case 3, 4, 5, 6:
		n = rapid.IntRange(2, 12).Draw(t, "len")
	default:
		n = rapid.IntRange(4, 24).Draw(t, "len")
	}
	c.Text = make([]rune, n)
	for i := range c.Text {
		c.Text[i] = rapid.SampledFrom(alphabetA).Draw(t, "rune")
	}
	c.Vertical = rapid.IntRange(0, 19).Draw(t, "vertical") == 7
	// 1-4 contiguous runs
	nruns := 1
	if n >= 2 && rapid.IntRange(0, 2).Draw(t, "multiRun") != 0 {
		nruns = rapid.IntRange(2, min(4, n)).Draw(t, "nruns")
	}
	cuts := []int{0, n}
	for len(cuts) < nruns+1 {
		p := rapid.IntRange(1, n-1).Draw(t, "cut")
		dup := false
		for _, q := range cuts {
			dup = dup || q == p
		}
		if !dup {
			cuts = append(cuts, p)
		}
	}
	sort.Ints(cuts)
	if n > 0 {
		for i := 0; i+1 < len(cuts); i++ {
			c.Runs = append(c.Runs, genRun(t, c.Text, cuts[i], cuts[i+1]-cuts[i]))
		}
	} else if rapid.Bool().Draw(t, "emptyRun") {
		c.Runs = []RunSpec{{}}
	}
	if rapid.IntRange(0, 3).Draw(t, "letterSpacing") == 0 {
		c.LetterSpacing = rapid.SampledFrom([]int32{128, 64, 65, 7, -64, -13, 256}).Draw(t, "ls")
	}
	if rapid.IntRange(0, 5).Draw(t, "wordSpacing") == 0 {
		c.WordSpacing = rapid.SampledFrom([]int32{128, 33, -32, 320}).Draw(t, "ws")
	}
	genConfig(t, c)
	if c.Vertical {
		// orientation bits: runs upright / sideways / unset, mixed; paragraph direction plain or flagged
		for i := range c.Runs {
			c.Runs[i].Orient = rapid.IntRange(0, 2).Draw(t, "runOrientation")
		}
		c.Cfg.Orient = rapid.SampledFrom([]int{0, 2, 1, 0}).Draw(t, "paragraphOrientation")
	}
	return c
}

// spans[m] lists the span lengths 1..m, long spans first (rapid prefers low indices when it shrinks
// and slightly when it generates: the interesting widths are the larger ones).
var spans = func() [][]int {
	out := make([][]int, 13)
	for m := 1; m <= 12; m++ {
		for k := m; k >= 1; k-- {
			out[m] = append(out[m], k)
		}
	}
	return out
}()

// extremeWidths: "unbounded"-style maximum widths. maxWidth is a plain int in pixels and the
// documentation sets no upper bound; 2^25 px is where a 26.6 fixed-point conversion of the width would
// overflow. The values above 2^31 exist on 64-bit ints only (built at run time so that the package
// still compiles where int has 32 bits).
var extremeWidths = func() []int {
	ws := []int{1<<25 - 1, 1 << 25, 1<<25 + 1, 1 << 26, 50_000_000, 1_000_000_000, 1 << 30, math.MaxInt32}
	if strconv.IntSize == 64 {
		for _, v := range []int64{1 << 31, 1 << 40, math.MaxInt64} {
			ws = append(ws, int(v))
		}
	}
	return ws
}()

// genWidths draws the per-call widths, concentrated around the cumulative advances between cluster
// boundaries (so that candidate widths land on, just below and just above the line width), with and
// without the truncator's advance; also 0, tiny and larger-than-everything widths.
func genWidths(t *rapid.T, c *Case, m *model) {
	var bounds []int
	for p := 0; p <= m.n; p++ {
		if !m.inside[p] {
			bounds = append(bounds, p)
		}
	}
	total := int((m.cum[m.n]).Ceil())
	if total < 0 {
		total = 0
	}
	tr := m.b.cfg.Truncator.Advance.Ceil()
	narrow := narrowestCluster(m)
	one := func() int {
		var w int
		// (rapid's integers lean towards the lower bound: the common kind gets the low values)
		switch rapid.IntRange(0, 18).Draw(t, "widthKind") {
		case 17, 18:
			// around the narrowest cluster: below one glyph, exactly one, one more
			return clampWidth(narrow + rapid.SampledFrom([]int{0, -1, 1}).Draw(t, "narrowDelta"))
		case 16:
			// rare: a huge width (mixes with tiny ones when the widths vary per line)
			return extremeWidths[rapid.IntRange(0, len(extremeWidths)-1).Draw(t, "extremeWidth")]
		case 11:
			w = 0
		case 12:
			w = total + 10
		case 13, 14:
			w = rapid.IntRange(0, total+10).Draw(t, "width")
		case 15:
			w = rapid.IntRange(0, 6).Draw(t, "widthTiny")
		default:
			// the width of a span of 1..12 clusters starting at a random boundary
			last := len(bounds) - 2
			if last < 0 {
				last = 0
			}
			i := rapid.IntRange(0, last).Draw(t, "from")
			maxSpan := len(bounds) - 2 // shorter than the whole text whenever possible
			if maxSpan > 12 {
				maxSpan = 12
			}
			if maxSpan < 1 {
				maxSpan = 1
			}
			j := i + spans[maxSpan][rapid.IntRange(0, len(spans[maxSpan])-1).Draw(t, "span")]
			if j > len(bounds)-1 {
				j = len(bounds) - 1
			}
			lo, hi := fixed.Int26_6(0), fixed.Int26_6(0)
			if j > i {
				lo, hi = m.measure(bounds[i], bounds[j])
			}
			d := hi
			if rapid.Bool().Draw(t, "lenientMeasure") {
				d = lo
			}
			w = d.Ceil() + rapid.SampledFrom([]int{0, 0, -1, 1}).Draw(t, "delta")
			if c.Cfg.Lines > 0 && rapid.Bool().Draw(t, "plusTruncator") {
				w += tr
			}
		}
		if w < 0 {
			w = 0
		}
		return w
	}
	if c.Paragraph {
		c.Widths = []int{one()}
		return
	}
	k := rapid.IntRange(1, 5).Draw(t, "nwidths")
	c.Widths = make([]int, k)
	for i := range c.Widths {
		c.Widths[i] = one()
	}
	alternateWidths(t, c, m, one())
}

func clampWidth(w int) int {
	if w < 0 {
		return 0
	}
	return w
}

// narrowestCluster: the smallest positive width (in pixels, rounded up) of one glyph cluster.
func narrowestCluster(m *model) int {
	best, prev := 0, 0
	for p := 1; p <= m.n; p++ {
		if m.inside[p] {
			continue
		}
		if w := (m.cum[p] - m.cum[prev]).Ceil(); w > 0 && (best == 0 || w < best) {
			best = w
		}
		prev = p
	}
	return best
}

// alternateWidths (iterative API, one case in five): widths that change from line to line between a
// wide value and a width at or below one glyph (wide, 0, wide, ... or the reverse).
func alternateWidths(t *rapid.T, c *Case, m *model, other int) {
	if c.Paragraph || rapid.IntRange(0, 4).Draw(t, "alternate") != 4 {
		return
	}
	narrow := narrowestCluster(m)
	small := clampWidth(rapid.SampledFrom([]int{0, 1, narrow - 1, narrow, narrow + 1, 0}).Draw(t, "narrowWidth"))
	wide := m.cum[m.n].Ceil() + 5
	if rapid.Bool().Draw(t, "wideIsASpan") {
		wide = other
	}
	wide = clampWidth(wide)
	n := rapid.IntRange(2, 8).Draw(t, "alternations")
	first := rapid.Bool().Draw(t, "narrowFirst")
	c.Widths = c.Widths[:0]
	for i := 0; i < n; i++ {
		if (i%2 == 0) == first {
			c.Widths = append(c.Widths, small)
		} else {
			c.Widths = append(c.Widths, wide)
		}
	}
}

// ---------------------------------------------------------------------------------------------
// family B: the real pipeline
// ---------------------------------------------------------------------------------------------

type fontSet struct {
	files  []string
	tokens [][]rune // vocabulary
}

var (
	// (soft hyphen and ZWSP are default ignorables: ligatures form across them, which puts a UAX #14
	// opportunity inside a glyph cluster; SPACE + mark is the usual way to show a mark in isolation)
	latinWords  = [][]rune{[]rune("f\u00adi"), []rune("of\u00adfi\u00adce"), []rune("f\u200bi"), []rune(" \u0301"), []rune("a"), []rune("fi"), []rune("ffi"), []rune("office"), []rune("AV"), []rune("To"), []rune("wrap"), []rune("é"), []rune("ä́"), []rune("x-y"), []rune("1/2"), []rune("mm"), []rune("i"), []rune("fl"), []rune("Wa.")}
	arabicWords = [][]rune{[]rune("ل\u200bا"), []rune("ل\u00adا"), []rune(" \u0651"), []rune("لا"), []rune("الله"), []rune("سلام"), []rune("بَّ"), []rune("كتاب"), []rune("في"), []rune("مُحَمَّد"), []rune("ا"), []rune("لل")}
	hebrewWords = [][]rune{[]rune("שלום"), []rune("בְּ"), []rune("עולם"), []rune("א")}
	separators  = [][]rune{[]rune(" "), []rune(" "), []rune(" "), []rune("  "), []rune("\n"), []rune(" "), []rune("-"), []rune(" "), []rune(", "), []rune("‍"), []rune("\r\n"), []rune("­"), []rune("​")}
)

var (
	fontSets     []fontSet
	fontSetsDone bool
)

func pipelineFontSets() []fontSet {
	if fontSetsDone {
		return fontSets
	}
	fontSetsDone = true
	have := map[string]bool{}
	for _, f := range corpus.Files() {
		have[f] = true
	}
	pick := func(cands ...string) string {
		for _, c := range cands {
			if have[c] {
				if _, err := loadFace(c); err == nil {
					return c
				}
			}
		}
		return ""
	}
	latin := pick("opentype/common/Roboto-BoldItalic.ttf", "harfbuzz/perf_reference/fonts/Roboto-Regular.ttf", "opentype/common/DejaVuSans.ttf")
	dejavu := pick("opentype/common/DejaVuSans.ttf", "opentype/common/DejaVuSansMono.ttf")
	amiri := pick("harfbuzz/perf_reference/fonts/Amiri-Regular.ttf", "opentype/common/NotoSansArabic.ttf")
	notoAr := pick("opentype/common/NotoSansArabic.ttf", "harfbuzz/perf_reference/fonts/Amiri-Regular.ttf")
	cat := func(a ...[][]rune) (out [][]rune) {
		for _, x := range a {
			out = append(out, x...)
		}
		return
	}
	if latin != "" {
		fontSets = append(fontSets, fontSet{files: []string{latin}, tokens: latinWords})
	}
	if dejavu != "" {
		fontSets = append(fontSets, fontSet{files: []string{dejavu}, tokens: cat(latinWords, hebrewWords, arabicWords)})
	}
	if amiri != "" {
		fontSets = append(fontSets, fontSet{files: []string{amiri}, tokens: cat(arabicWords, arabicWords, latinWords[:4])})
	}
	if latin != "" && amiri != "" {
		fontSets = append(fontSets, fontSet{files: []string{latin, amiri}, tokens: cat(latinWords, arabicWords)})
	}
	if dejavu != "" && notoAr != "" {
		fontSets = append(fontSets, fontSet{files: []string{notoAr, dejavu}, tokens: cat(arabicWords, hebrewWords, latinWords)})
	}
	return fontSets
}

func genPipeline(t *rapid.T) *Case {
	sets := pipelineFontSets()
	if len(sets) == 0 {
		return nil
	}
	c := &Case{Family: "pipeline"}
	fs := sets[rapid.IntRange(0, len(sets)-1).Draw(t, "fontSet")]
	c.Fonts = fs.files
	c.Size = rapid.SampledFrom([]int32{16 * 64, 16 * 64, 10 * 64, 12*64 + 32, 33 * 64}).Draw(t, "size")
	nt := rapid.IntRange(1, 9).Draw(t, "tokens")
	for i := 0; i < nt && len(c.Text) < 40; i++ {
		c.Text = append(c.Text, fs.tokens[rapid.IntRange(0, len(fs.tokens)-1).Draw(t, "word")]...)
		if i+1 < nt || rapid.IntRange(0, 3).Draw(t, "trailingSep") == 0 {
			c.Text = append(c.Text, separators[rapid.IntRange(0, len(separators)-1).Draw(t, "sep")]...)
		}
	}
	if rapid.IntRange(0, 2).Draw(t, "letterSpacing") == 0 {
		c.LetterSpacing = rapid.SampledFrom([]int32{128, 64, 65, -32, 256}).Draw(t, "ls")
	}
	if rapid.IntRange(0, 3).Draw(t, "wordSpacing") == 0 {
		c.WordSpacing = rapid.SampledFrom([]int32{128, 33, -32, 320}).Draw(t, "ws")
	}
	genConfig(t, c)
	if rapid.IntRange(0, 2).Draw(t, "shapedTruncator") == 0 {
		c.Cfg.Truncator = TruncSpec{Kind: "shaped", RTL: c.Cfg.Truncator.RTL}
	}
	return c
}

// genPrev optionally gives the case an earlier paragraph wrapped on the same LineWrapper: either an
// unrelated synthetic paragraph, or a variant of this very paragraph with the same text and run
// boundaries but re-drawn cluster structures (what a cache keyed by run index / rune range would
// confuse). Pipeline cases get a synthetic predecessor as well (the wrapper does not care).
func genPrev(t *rapid.T, c *Case) {
	switch rapid.IntRange(0, 9).Draw(t, "prevKind") {
	case 4:
		// the same buffer edited in place: same length, some runes re-drawn, one plain run
		if c.Family == "pipeline" || len(c.Text) == 0 {
			return
		}
		p := &Case{Family: "synthetic", Text: append([]rune(nil), c.Text...)}
		for i := range p.Text {
			if rapid.Bool().Draw(t, "edit") {
				p.Text[i] = rapid.SampledFrom(alphabetA).Draw(t, "editedRune")
			}
		}
		p.Runs = []RunSpec{genRun(t, p.Text, 0, len(p.Text))}
		genConfig(t, p)
		p.Widths = []int{rapid.IntRange(0, 40).Draw(t, "prevWidth")}
		c.Prev, c.PrevShared = p, true
	case 0, 1:
		p := genSynthetic(t)
		p.Widths = []int{rapid.IntRange(0, 40).Draw(t, "prevWidth")}
		c.Prev = p
		c.PrevShared = rapid.Bool().Draw(t, "sameBuffer") // same array, (usually) another length
	case 2, 3:
		if c.Family != "synthetic" || len(c.Runs) == 0 || len(c.Text) == 0 {
			return
		}
		p := &Case{Family: "synthetic", Text: append([]rune(nil), c.Text...), Vertical: c.Vertical}
		off := 0
		for i := range c.Runs {
			ln := c.Runs[i].count()
			r := genRun(t, p.Text, off, ln)
			r.RTL, r.Face = c.Runs[i].RTL, c.Runs[i].Face
			p.Runs = append(p.Runs, r)
			off += ln
		}
		genConfig(t, p)
		p.Widths = []int{rapid.IntRange(0, 40).Draw(t, "prevWidth")}
		c.Prev = p
	}
}
