package wrap

import (
	"pgregory.net/rapid"
)

// ---------------------------------------------------------------------------------------------
// stratum H of family A: legal but unusual structure. Run boundaries inside graphemes and next to
// combining marks / ZWJ / variation selectors (base and mark shaped with different fonts), clusters
// that cover [mark, space], [space, mark], whole words or a line-break opportunity, and widths below
// the narrowest segment, so that every fallback level of the wrapper (UAX #14 segment -> grapheme ->
// forced single cluster / whole segment) is exercised under every policy.
// ---------------------------------------------------------------------------------------------

var alphabetHostile = []rune{'a', 0x0301, ' ', 0x0301, 'f', ' ', 0x200D, 'b', 0xFE0F, ' ', 0x0308, 'a', 0x00A0, '-', 0x0301, ' ', 'あ', 'b', 0x0301, '\n', ' ', 0x200D}

func isAttaching(r rune) bool {
	switch r {
	case 0x0301, 0x0308, 0x200D, 0xFE0F:
		return true
	}
	return false
}

var hostileAdvances = []int32{2 * 64, 64, 3 * 64, 5 * 64, 33, 2*64 - 1, 0, 4*64 + 1}

var attaching = []rune{0x0301, 0x200D, 0x0308, 0xFE0F}

// genUnsplittable builds the text and runs around one UAX #14 segment that can only be placed whole
// although it spans two runs: [prefix run] [base letters, one cluster] | [marks + SPACE, one cluster]
// [mark ...] [tail]. The break opportunity after the space is not a grapheme boundary (a mark follows),
// the grapheme boundary before the space is inside a cluster, the run boundary is inside the grapheme.
func genUnsplittable(t *rapid.T, c *Case) {
	hadv := func() int32 { return hostileAdvances[rapid.IntRange(0, len(hostileAdvances)-1).Draw(t, "adv")] }
	one := func(r rune) ClusterSpec {
		adv := hadv()
		ink := adv
		if ink == 0 {
			ink = 64
		}
		if isSpaceRune(r) {
			ink = 0
		}
		return ClusterSpec{Runes: 1, Glyphs: []GlyphSpec{{Adv: adv, Ink: ink, GID: 7}}}
	}
	rtl := rapid.IntRange(0, 3).Draw(t, "rtl") == 3
	face := 0
	// optional prefix run: letters and spaces, 1:1
	if k := rapid.IntRange(0, 3).Draw(t, "prefix"); k > 0 {
		rs := RunSpec{RTL: rtl, Face: face}
		face++
		for i := 0; i < k; i++ {
			r := rapid.SampledFrom([]rune{'a', ' ', 'b', 'a'}).Draw(t, "prefixRune")
			c.Text = append(c.Text, r)
			rs.Clusters = append(rs.Clusters, one(r))
		}
		c.Runs = append(c.Runs, rs)
	}
	// the base: 1-2 letters as one cluster, in a run of its own
	nb := rapid.IntRange(1, 2).Draw(t, "baseLetters")
	for i := 0; i < nb; i++ {
		c.Text = append(c.Text, rapid.SampledFrom([]rune{'f', 'a', 'あ'}).Draw(t, "base"))
	}
	c.Runs = append(c.Runs, RunSpec{RTL: rtl, Face: face, Clusters: []ClusterSpec{{Runes: nb, Glyphs: []GlyphSpec{{Adv: hadv() + 64, Ink: 64, GID: 8}}}}})
	face++
	// marks + space as one cluster, then a mark (so that the space does not end a grapheme), then a tail
	rs := RunSpec{RTL: rtl, Face: face % 3}
	nm := rapid.IntRange(1, 2).Draw(t, "marks")
	for i := 0; i < nm; i++ {
		c.Text = append(c.Text, attaching[rapid.IntRange(0, len(attaching)-1).Draw(t, "mark")])
	}
	c.Text = append(c.Text, ' ')
	cl := ClusterSpec{Runes: nm + 1, Glyphs: []GlyphSpec{{Adv: hadv() + 64, Ink: 64, GID: 9}}}
	if rapid.Bool().Draw(t, "twoGlyphs") {
		cl.Glyphs = append(cl.Glyphs, GlyphSpec{Adv: hadv(), Ink: 64, GID: 10})
	}
	rs.Clusters = append(rs.Clusters, cl)
	r := attaching[rapid.IntRange(0, len(attaching)-1).Draw(t, "markAfterSpace")]
	c.Text = append(c.Text, r)
	rs.Clusters = append(rs.Clusters, one(r))
	for i, k := 0, rapid.IntRange(0, 3).Draw(t, "tail"); i < k; i++ {
		r := rapid.SampledFrom([]rune{'a', 'b', ' ', 'a'}).Draw(t, "tailRune")
		c.Text = append(c.Text, r)
		rs.Clusters = append(rs.Clusters, one(r))
	}
	c.Runs = append(c.Runs, rs)
}

func genHostile(t *rapid.T) *Case {
	c := &Case{Family: "hostile"}
	if rapid.IntRange(0, 3).Draw(t, "unsplittable") == 3 {
		genUnsplittable(t, c)
		genConfig(t, c)
		c.Cfg.RTL = c.Runs[0].RTL
		if rapid.IntRange(0, 5).Draw(t, "paragraphOpposite") == 5 {
			c.Cfg.RTL = !c.Cfg.RTL
		}
		if rapid.IntRange(0, 4).Draw(t, "noTruncation") <= 2 {
			c.Cfg.Lines = 0
		}
		return c
	}
	n := rapid.IntRange(2, 10).Draw(t, "len")
	c.Text = make([]rune, n)
	for i := range c.Text {
		c.Text[i] = alphabetHostile[rapid.IntRange(0, len(alphabetHostile)-1).Draw(t, "rune")]
	}
	// run boundaries: likely right before / after an attaching rune (inside the grapheme), possible anywhere
	cuts := []int{0}
	for p := 1; p < n && len(cuts) < 6; p++ {
		limit := 1 // 1 in 5
		if isAttaching(c.Text[p]) || isAttaching(c.Text[p-1]) {
			limit = 2 // 1 in 2 (0..3 -> 2,3)
		}
		v := rapid.IntRange(0, 4).Draw(t, "runCut")
		if limit == 2 && v >= 2 && v <= 3 || limit == 1 && v == 4 {
			cuts = append(cuts, p)
		}
	}
	cuts = append(cuts, n)
	baseRTL := rapid.IntRange(0, 3).Draw(t, "baseRTL") == 3
	for i := 0; i+1 < len(cuts); i++ {
		rtl := baseRTL
		if rapid.IntRange(0, 5).Draw(t, "oppositeRun") == 5 {
			rtl = !rtl
		}
		rs := RunSpec{RTL: rtl, Face: i % 3}
		start, end := cuts[i], cuts[i+1]
		for p := start; p < end; {
			rc := rapid.SampledFrom([]int{2, 1, 3, 1, 2, 4, 99}).Draw(t, "clusterRunes") // 99: the rest of the run
			if rc > end-p {
				rc = end - p
			}
			gc := 1
			if rapid.IntRange(0, 4).Draw(t, "twoGlyphs") == 4 {
				gc = 2
			}
			cl := ClusterSpec{Runes: rc}
			for k := 0; k < gc; k++ {
				adv := hostileAdvances[rapid.IntRange(0, len(hostileAdvances)-1).Draw(t, "adv")]
				ink := adv
				if ink == 0 {
					ink = 64
				}
				if rc == 1 && gc == 1 && isSpaceRune(c.Text[p]) {
					ink = 0
				}
				cl.Glyphs = append(cl.Glyphs, GlyphSpec{Adv: adv, Ink: ink, GID: uint32(1 + p + k)})
			}
			rs.Clusters = append(rs.Clusters, cl)
			p += rc
		}
		c.Runs = append(c.Runs, rs)
	}
	genConfig(t, c)
	c.Cfg.RTL = baseRTL
	if rapid.IntRange(0, 5).Draw(t, "paragraphOpposite") == 5 {
		c.Cfg.RTL = !baseRTL
	}
	if rapid.IntRange(0, 4).Draw(t, "noTruncation") <= 2 {
		c.Cfg.Lines = 0
	}
	return c
}

// genHostileWidths: 0, 1, the advance of one glyph / one cluster, the measure of one UAX #14 segment,
// each +-1: mostly below the narrowest segment.
func genHostileWidths(t *rapid.T, c *Case, m *model) {
	choices := []int{}
	add := func(v int) {
		for _, d := range []int{0, -1, 1} {
			if v+d >= 0 {
				choices = append(choices, v+d)
			}
		}
	}
	prevB, prevO := 0, 0
	for p := 1; p <= m.n; p++ {
		if m.inside[p] {
			continue
		}
		_, hi := m.measure(prevB, p) // one cluster
		add(hi.Ceil())
		prevB = p
		if m.validOpp(p) {
			_, hi := m.measure(prevO, p) // one segment
			add(hi.Ceil())
			prevO = p
		}
	}
	choices = append(choices, 0, 1, 2, 0, 1)
	one := func() int {
		if rapid.IntRange(0, 24).Draw(t, "otherWidth") == 24 {
			return rapid.SampledFrom([]int{m.cum[m.n].Ceil() + 3, extremeWidths[0], 40}).Draw(t, "width")
		}
		w := choices[rapid.IntRange(0, len(choices)-1).Draw(t, "width")]
		if w < 0 {
			w = 0
		}
		return w
	}
	if c.Paragraph {
		c.Widths = []int{one()}
		return
	}
	c.Widths = make([]int, rapid.IntRange(1, 4).Draw(t, "nwidths"))
	for i := range c.Widths {
		c.Widths[i] = one()
	}
	alternateWidths(t, c, m, m.cum[m.n].Ceil()+3)
}
