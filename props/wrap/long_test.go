package wrap

import (
	"testing"

	"pgregory.net/rapid"

	"verif/internal/ev"
)

// ---------------------------------------------------------------------------------------------
// family L: long paragraphs with many runs (sizes beyond the wrapper's internal constants: its line
// storage starts with 100 run pieces, its paragraph storage with 10 lines, its candidate storage
// with 10 runs)
// ---------------------------------------------------------------------------------------------

// alphabetLong is word-like: mostly letters, frequent spaces, some hyphens and ideographs (break
// opportunities without space), rare combining marks and mandatory breaks.
var alphabetLong = []rune{'a', 'b', ' ', 'c', 'd', 'a', ' ', 'e', 'b', '-', 'c', ' ', 'あ', 'd', 'a', ' ', 'b', 'e', 'c', ' ',
	'a', 'い', 'd', ' ', 'b', 'a', 0x0301, 'c', ' ', 'e', 'a', 'b', ' ', 'd', '\n', 'c', 'a', ' ', 0x00A0, 'b'}

var longAdvances = []int32{2 * 64, 3 * 64, 64, 4 * 64, 2*64 + 32, 5 * 64, 3*64 - 1, 2*64 + 1, 6 * 64, 40}

func genLongRun(t *rapid.T, text []rune, start, ln int, rtl bool, face int) RunSpec {
	rs := RunSpec{RTL: rtl, Face: face}
	complexRun := rapid.IntRange(0, 5).Draw(t, "complexRun") == 5
	for p := 0; p < ln; {
		rc, gc := 1, 1
		if complexRun {
			if ln-p >= 2 && rapid.IntRange(0, 2).Draw(t, "multiRune") == 2 {
				rc = 2
			}
			if rapid.IntRange(0, 3).Draw(t, "multiGlyph") == 3 {
				gc = 2
			}
		}
		cl := ClusterSpec{Runes: rc}
		for k := 0; k < gc; k++ {
			adv := longAdvances[rapid.IntRange(0, len(longAdvances)-1).Draw(t, "adv")]
			ink := adv
			if rc == 1 && gc == 1 && isSpaceRune(text[start+p]) {
				ink = 0
			}
			cl.Glyphs = append(cl.Glyphs, GlyphSpec{Adv: adv, Ink: ink, GID: uint32(1 + (start+p+k)%200)})
		}
		rs.Clusters = append(rs.Clusters, cl)
		p += rc
	}
	return rs
}

// genLongBody draws the paragraph and its runs: 20-200 runs of 1-6 runes (total <= ~600), a base
// direction with some runs of the opposite one, faces alternating so that neighbouring runs differ.
func genLongBody(t *rapid.T) *Case {
	c := &Case{Family: "long"}
	var nruns int
	switch rapid.IntRange(0, 5).Draw(t, "sizeClass") {
	case 0, 1:
		nruns = rapid.IntRange(101, 200).Draw(t, "nruns") // more run pieces than the initial line storage
	case 2, 3:
		nruns = rapid.IntRange(40, 130).Draw(t, "nruns")
	default:
		nruns = rapid.IntRange(12, 60).Draw(t, "nruns")
	}
	baseRTL := rapid.IntRange(0, 3).Draw(t, "baseRTL") == 3
	maxRun := rapid.IntRange(2, 6).Draw(t, "maxRunLen")
	lens := make([]int, nruns)
	total := 0
	for i := range lens {
		lens[i] = rapid.IntRange(1, maxRun).Draw(t, "runLen")
		total += lens[i]
	}
	c.Text = make([]rune, total)
	for i := range c.Text {
		c.Text[i] = alphabetLong[rapid.IntRange(0, len(alphabetLong)-1).Draw(t, "rune")]
	}
	off := 0
	for i, ln := range lens {
		rtl := baseRTL
		if rapid.IntRange(0, 6).Draw(t, "oppositeRun") == 6 {
			rtl = !rtl
		}
		c.Runs = append(c.Runs, genLongRun(t, c.Text, off, ln, rtl, i%3))
		off += ln
	}
	if rapid.IntRange(0, 9).Draw(t, "letterSpacing") == 9 {
		c.LetterSpacing = rapid.SampledFrom([]int32{64, 128, -32}).Draw(t, "ls")
	}
	if rapid.IntRange(0, 9).Draw(t, "wordSpacing") == 9 {
		c.WordSpacing = rapid.SampledFrom([]int32{128, 33, -32}).Draw(t, "ws")
	}
	genConfig(t, c)
	c.Cfg.RTL = baseRTL
	if rapid.IntRange(0, 5).Draw(t, "paragraphOpposite") == 5 {
		c.Cfg.RTL = !baseRTL
	}
	// truncation: mostly off or deep in the paragraph (after the first few lines nothing is left)
	switch rapid.IntRange(0, 9).Draw(t, "truncationClass") {
	case 0, 1, 2, 3, 4, 5:
		c.Cfg.Lines = 0
	case 6, 7, 8:
		c.Cfg.Lines = rapid.IntRange(4, 90).Draw(t, "truncateAfterLines")
	}
	return c
}

// genLongWidths: widths such that a line holds about 2-6 run pieces (the measure of 2-6 consecutive
// runs +-1), occasionally the generic width kinds.
func genLongWidths(t *rapid.T, c *Case, m *model) {
	var rb []int
	for p := 0; p <= m.n; p++ {
		if m.runStart[p] {
			rb = append(rb, p)
		}
	}
	one := func() int {
		if len(rb) < 2 || rapid.IntRange(0, 19).Draw(t, "genericWidth") == 19 {
			total := m.cum[m.n].Ceil()
			if total < 0 {
				total = 0
			}
			if rapid.IntRange(0, 2).Draw(t, "extreme") == 2 {
				return extremeWidths[rapid.IntRange(0, len(extremeWidths)-1).Draw(t, "extremeWidth")]
			}
			return rapid.SampledFrom([]int{0, 3, total / 2, total + 10, 7}).Draw(t, "width")
		}
		k := rapid.SampledFrom([]int{3, 4, 2, 5, 6, 3, 4}).Draw(t, "piecesPerLine")
		i := rapid.IntRange(0, len(rb)-2).Draw(t, "fromRun")
		j := i + k
		if j > len(rb)-1 {
			j = len(rb) - 1
		}
		_, hi := m.measure(rb[i], rb[j])
		w := hi.Ceil() + rapid.SampledFrom([]int{0, 1, -1, 2}).Draw(t, "delta")
		if w < 0 {
			w = 0
		}
		return w
	}
	if c.Paragraph {
		c.Widths = []int{one()}
		return
	}
	c.Widths = make([]int, rapid.IntRange(1, 4).Draw(t, "nwidths"))
	for i := range c.Widths {
		c.Widths[i] = one()
	}
	alternateWidths(t, c, m, one())
}

func genLong(t *rapid.T) (*Case, *built, *model) {
	c := genLongBody(t)
	b, err := build(c)
	if err != nil {
		t.Fatalf("generator produced an unbuildable case: %v", err)
	}
	m, bad := newModel(b, c, nil)
	if bad != "" {
		t.Fatalf("generator violated a precondition: %s", bad)
	}
	genLongWidths(t, c, m)
	// wrapper reuse across long paragraphs: the first one grows the wrapper's buffers (or not)
	switch rapid.IntRange(0, 9).Draw(t, "prevKind") {
	case 0, 1, 2:
		p := genLongBody(t)
		if pb, err := build(p); err == nil {
			if pm, bad := newModel(pb, p, nil); bad == "" {
				genLongWidths(t, p, pm)
				c.Prev = p
			}
		}
	case 3:
		p := genSynthetic(t)
		p.Widths = []int{rapid.IntRange(0, 40).Draw(t, "prevWidth")}
		c.Prev = p
	}
	return c, b, m
}

// TestPropLong: family L. Long paragraphs (up to ~200 runs / ~600 runes), several run pieces per
// line, both APIs, every iterator, wrapper reuse after another long paragraph; same predicates.
func TestPropLong(t *testing.T) {
	rapid.Check(t, func(t *rapid.T) {
		c, b, m := genLong(t)
		ev.Journal("C02/termination", c)
		out := evaluate(t, c, b, m)
		ev.JournalDone()
		classify(c, m, &out)
		if len(b.runs) > 100 {
			out.label("long_more_than_100_runs")
		}
		if out.pieces > 100 {
			out.label("long_more_than_100_run_pieces_on_the_lines")
		}
		if out.lines > 10 {
			out.label("long_more_than_10_lines")
		}
		switch {
		case out.maxPieces >= 10:
			out.label("long_some_line_with_10_or_more_run_pieces")
		case out.maxPieces >= 3:
			out.label("long_some_line_with_3_to_9_run_pieces")
		}
		if c.Prev != nil && c.Prev.Family == "long" {
			out.label("long_wrapper_reused_after_long_paragraph")
		}
		record(c, &out)
	})
}
