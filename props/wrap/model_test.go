package wrap

import (
	"fmt"

	"github.com/go-text/typesetting/di"
	"github.com/go-text/typesetting/segmenter"
	"github.com/go-text/typesetting/shaping"
	"golang.org/x/image/math/fixed"
)

// model is everything the oracles know about the *input*: the paragraph, the pristine runs, the
// break opportunities of the segmenter and the cluster structure.
type model struct {
	b        *built
	c        *Case
	n        int
	runOf    []int  // run index of every rune
	runStart []bool // position is the start of an input run (or n)
	inside   []bool // position lies strictly inside a glyph cluster
	opp      []bool // UAX #14 opportunity before position p (opp[n] always)
	mand     []bool // ... and mandatory
	graph    []bool // UAX #29 grapheme boundary at p
	cum      []fixed.Int26_6
	// glyphs the wrapper's measure looks at, by position (only meaningful at cluster boundaries):
	startG0 []*shaping.Glyph // lowest-index glyph of the cluster starting at p
	endG0   []*shaping.Glyph // lowest-index glyph of the cluster ending at p
	endG1   []*shaping.Glyph // highest-index glyph of the cluster ending at p
	hasNeg  bool             // some glyph has a negative advance
	hasLS   bool             // some glyph carries start letter spacing
	complex bool             // some cluster is not 1 rune : 1 glyph
}

// segInfo caches the segmenter's answer for a paragraph (the enumerator wraps each text many times).
type segInfo struct{ opp, mand, graph []bool }

func segment(text []rune) *segInfo {
	n := len(text)
	si := &segInfo{opp: make([]bool, n+1), mand: make([]bool, n+1), graph: make([]bool, n+1)}
	var seg segmenter.Segmenter
	seg.Init(text)
	for it := seg.LineIterator(); it.Next(); {
		l := it.Line()
		e := l.Offset + len(l.Text)
		si.opp[e] = true
		si.mand[e] = l.IsMandatoryBreak
	}
	for it := seg.GraphemeIterator(); it.Next(); {
		g := it.Grapheme()
		si.graph[g.Offset+len(g.Text)] = true
	}
	si.opp[n] = true
	si.graph[n] = true
	si.graph[0] = true
	return si
}

// newModel indexes the input and verifies the wrapper's implicit preconditions (what C01 states
// about shaper output): runs contiguous from 0 to n, clusters monotone in the run's direction,
// glyphs of a cluster adjacent and carrying the same RuneCount/GlyphCount, GlyphCount equal to the
// real size, cluster rune counts summing to the run's rune count. A non-empty string names the
// violated precondition (such a case is not a wrapping case).
func newModel(b *built, c *Case, si *segInfo) (*model, string) {
	n := len(b.text)
	if si == nil {
		si = segment(b.text)
	}
	m := &model{b: b, c: c, n: n, opp: si.opp, mand: si.mand, graph: si.graph}
	m.runOf = make([]int, n)
	m.runStart = make([]bool, n+1)
	m.inside = make([]bool, n+1)
	m.cum = make([]fixed.Int26_6, n+1)
	m.startG0 = make([]*shaping.Glyph, n+1)
	m.endG0 = make([]*shaping.Glyph, n+1)
	m.endG1 = make([]*shaping.Glyph, n+1)
	pos := 0
	for ri := range b.runs {
		r := &b.runs[ri]
		if r.Runes.Offset != pos {
			return nil, fmt.Sprintf("run %d starts at %d, expected %d", ri, r.Runes.Offset, pos)
		}
		if r.Runes.Count < 0 || (r.Runes.Count == 0 && n > 0) {
			return nil, fmt.Sprintf("run %d has %d runes", ri, r.Runes.Count)
		}
		end := pos + r.Runes.Count
		if end > n {
			return nil, fmt.Sprintf("run %d ends at %d beyond the text (%d)", ri, end, n)
		}
		if r.Runes.Count > 0 && len(r.Glyphs) == 0 {
			return nil, fmt.Sprintf("run %d has runes but no glyph", ri)
		}
		vertical := r.Direction.IsVertical()
		if vertical != c.Vertical && n > 0 {
			return nil, "mixed axes"
		}
		rtl := r.Direction.Progression() == di.TowardTopLeft
		m.runStart[pos] = true
		for i := pos; i < end; i++ {
			m.runOf[i] = ri
		}
		// walk clusters in logical order
		L := len(r.Glyphs)
		expect := pos // next cluster start expected
		var sum fixed.Int26_6
		for k := 0; k < L; {
			// k counts glyphs consumed in logical order; translate to slice indices
			var g0, g1 int // inclusive slice range of this cluster
			var cl int
			if rtl {
				g1 = L - 1 - k
				cl = r.Glyphs[g1].ClusterIndex
				g0 = g1
				for g0-1 >= 0 && r.Glyphs[g0-1].ClusterIndex == cl {
					g0--
				}
			} else {
				g0 = k
				cl = r.Glyphs[g0].ClusterIndex
				g1 = g0
				for g1+1 < L && r.Glyphs[g1+1].ClusterIndex == cl {
					g1++
				}
			}
			gc := g1 - g0 + 1
			rc := r.Glyphs[g0].RuneCount
			if cl != expect {
				return nil, fmt.Sprintf("run %d: cluster %d where %d was expected (deleted or non-monotone clusters)", ri, cl, expect)
			}
			if rc <= 0 || cl+rc > end {
				return nil, fmt.Sprintf("run %d: cluster %d has RuneCount %d", ri, cl, rc)
			}
			for gi := g0; gi <= g1; gi++ {
				g := &r.Glyphs[gi]
				if g.RuneCount != rc || g.GlyphCount != gc {
					return nil, fmt.Sprintf("run %d: cluster %d has inconsistent counts", ri, cl)
				}
				a := gAdv(g, vertical)
				sum += a
				if a < 0 {
					m.hasNeg = true
				}
				if b.trueStartLS(g) != 0 || b.trueEndLS(g) != 0 {
					m.hasLS = true
				}
			}
			if rc != 1 || gc != 1 {
				m.complex = true
			}
			for p := cl + 1; p < cl+rc; p++ {
				m.inside[p] = true
			}
			m.startG0[cl] = &r.Glyphs[g0]
			m.endG0[cl+rc] = &r.Glyphs[g0]
			m.endG1[cl+rc] = &r.Glyphs[g1]
			for p := cl + 1; p <= cl+rc; p++ {
				m.cum[p] = m.cum[pos] + sum
			}
			expect = cl + rc
			k += gc
		}
		if expect != end {
			return nil, fmt.Sprintf("run %d: clusters cover up to %d, run ends at %d", ri, expect, end)
		}
		if r.Advance != sum {
			return nil, fmt.Sprintf("run %d: Advance %d != glyph sum %d", ri, r.Advance, sum)
		}
		pos = end
	}
	if pos != n {
		return nil, fmt.Sprintf("runs cover %d of %d runes", pos, n)
	}
	m.runStart[n] = true
	return m, ""
}

func (m *model) policy() shaping.LineBreakPolicy { return m.b.cfg.BreakPolicy }

// validOpp / validGr: candidates that do not cut a glyph cluster.
func (m *model) validOpp(p int) bool { return p > 0 && p <= m.n && m.opp[p] && !m.inside[p] }
func (m *model) validGr(p int) bool  { return p > 0 && p <= m.n && m.graph[p] && !m.inside[p] }

// candidate tells whether p is a valid candidate; words: UAX #14 only, otherwise UAX #14 or grapheme.
func (m *model) candidate(p int, wordsOnly bool) bool {
	if wordsOnly {
		return m.validOpp(p)
	}
	return m.validOpp(p) || m.validGr(p)
}

func (m *model) nextCandidate(p int, wordsOnly bool) int {
	for q := p + 1; q <= m.n; q++ {
		if m.candidate(q, wordsOnly) {
			return q
		}
	}
	return -1
}

func (m *model) prevValidOpp(p int) int {
	for q := p - 1; q > 0; q-- {
		if m.validOpp(q) {
			return q
		}
	}
	return 0
}

// measure returns the admissible measures of the piece [s,e) (both cluster boundaries, s<e): the sum
// of the input glyphs' advances, minus the trailing discount the statement defines (a whitespace
// glyph, else the end letter spacing, of the logically last glyph when its run has the paragraph
// direction), minus optionally the start letter spacing of the first glyph of the line (the
// implementation applies that trim on some paths only). lenient is the smallest admissible value,
// strict the largest. When the last run does not have the paragraph direction nothing is discounted:
// its logically last glyph is not "at the line end in paragraph direction" (it is visually interior and
// keeps its advance; advanceSpaceAware documents the same). An earlier version read the statement
// both ways there, which hid a fit decision that ignores such a space (seeded change c04-D).
func (m *model) measure(s, e int) (lenient, strict fixed.Int26_6) {
	base := m.cum[e] - m.cum[s]
	lastRun := &m.b.runs[m.runOf[e-1]]
	vertical := lastRun.Direction.IsVertical()
	rtl := lastRun.Direction.Progression() == di.TowardTopLeft
	lastG := m.endG1[e]
	if rtl {
		lastG = m.endG0[e]
	}
	var trail fixed.Int26_6
	if lastG != nil && sameProgression(lastRun.Direction, m.b.cfg.Direction) {
		if gIsSpace(lastG, vertical) {
			trail = gAdv(lastG, vertical)
		} else {
			trail = m.b.trueEndLS(lastG)
		}
	}
	lo, hi := base-trail, base-trail
	// a trailing glyph with a negative advance (negative word spacing larger than the space): not
	// counting it widens the line; the statement's discount is read as optional there.
	if trail < 0 {
		if base < lo {
			lo = base
		}
		if base > hi {
			hi = base
		}
	}
	// optional start trim
	if m.hasLS {
		firstRun := &m.b.runs[m.runOf[s]]
		var firstG *shaping.Glyph
		if firstRun.Direction.Progression() == di.TowardTopLeft {
			pe := firstRun.Runes.Offset + firstRun.Runes.Count
			if e < pe {
				pe = e
			}
			firstG = m.endG0[pe]
		} else {
			firstG = m.startG0[s]
		}
		if firstG != nil {
			d := m.b.trueStartLS(firstG)
			if firstG == lastG && gIsSpace(lastG, vertical) && sameProgression(lastRun.Direction, m.b.cfg.Direction) {
				d = 0 // the whole glyph is already discounted
			}
			if d > 0 {
				lo -= d
			} else {
				hi -= d
			}
		}
	}
	return lo, hi
}

// measureBeforeTruncator is the largest admissible measure of [s,e) when the truncator follows it:
// the sum of the advances, minus the white space glyph that logically ends it only if the library is
// going to trim it (trimming enabled, run of the paragraph direction, positive advance); the end
// letter spacing counts (it separates the text from the truncator); a negative start letter spacing
// may have been removed.
func (m *model) measureBeforeTruncator(s, e int) fixed.Int26_6 {
	base := m.cum[e] - m.cum[s]
	lastRun := &m.b.runs[m.runOf[e-1]]
	vertical := lastRun.Direction.IsVertical()
	if sameProgression(lastRun.Direction, m.b.cfg.Direction) && !m.b.cfg.DisableTrailingWhitespaceTrim {
		lastG := m.endG1[e]
		if lastRun.Direction.Progression() == di.TowardTopLeft {
			lastG = m.endG0[e]
		}
		if lastG != nil && gIsSpace(lastG, vertical) && gAdv(lastG, vertical) > 0 {
			base -= gAdv(lastG, vertical)
		}
	}
	if m.hasLS {
		firstRun := &m.b.runs[m.runOf[s]]
		var firstG *shaping.Glyph
		if firstRun.Direction.Progression() == di.TowardTopLeft {
			pe := firstRun.Runes.Offset + firstRun.Runes.Count
			if e < pe {
				pe = e
			}
			firstG = m.endG0[pe]
		} else {
			firstG = m.startG0[s]
		}
		if firstG != nil {
			if d := m.b.trueStartLS(firstG); d < 0 {
				base -= d
			}
		}
	}
	return base
}

// slack is the widening applied to the measures of [s,e) when the known finding
// C02-letterspacing-trim-aliasing is listed: candidate evaluation may have removed the start letter
// spacing of any glyph the wrapper looked at, so the implementation's own measure can be off by up
// to the sum of those spacings.
func (m *model) lsSlack(s, e int) fixed.Int26_6 {
	var sl fixed.Int26_6
	for ri := m.runOf[s]; ri <= m.runOf[e-1]; ri++ {
		r := &m.b.runs[ri]
		for gi := range r.Glyphs {
			g := &r.Glyphs[gi]
			if g.ClusterIndex >= s && g.ClusterIndex < e {
				d := m.b.trueStartLS(g)
				if d < 0 {
					d = -d
				}
				sl += d
			}
		}
	}
	return sl
}

// hardSegments lists the spans [w0,w1) between consecutive valid UAX #14 candidates that offer the
// grapheme fallback nothing: no valid grapheme candidate strictly inside and none at the end (the end
// is not a grapheme boundary, e.g. SPACE followed by a combining mark). Such a segment can only be
// placed whole. multiRun tells whether one of them spans a run boundary.
func (m *model) hardSegments() (segs [][2]int, multiRun bool) {
	w0 := 0
	for w1 := 1; w1 <= m.n; w1++ {
		if !m.validOpp(w1) {
			continue
		}
		usable := false
		for p := w0 + 1; p <= w1 && !usable; p++ {
			usable = m.validGr(p)
		}
		if !usable {
			segs = append(segs, [2]int{w0, w1})
			if m.runOf[w0] != m.runOf[w1-1] {
				multiRun = true
			}
		}
		w0 = w1
	}
	return
}

// sameProgression: a run is "in the paragraph direction" when the progressions agree; the vertical
// orientation flags (upright / sideways / unset) of runs and paragraph usually differ and do not
// matter (advanceSpaceAware compares the progressions only).
func sameProgression(a, b di.Direction) bool { return a.Progression() == b.Progression() }
