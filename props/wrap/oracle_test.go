package wrap

import (
	"fmt"
	"math"

	"github.com/go-text/typesetting/di"
	"github.com/go-text/typesetting/shaping"
	"golang.org/x/image/math/fixed"

	"verif/internal/ev"
)

// Known findings. Four root causes in shaping/wrapping.go + spacing.go, each listed once per
// property it makes fail (the driver prints KNOWN-FINDING lines per property). The structural
// matchers live next to the predicates they qualify.
const (
	// R1: trimStartLetterSpacing (called by cutRun for every candidate that starts a line) mutates a
	// glyph shared with the input run.
	findingAliasC02 = "C02-letterspacing-trim-aliasing"
	findingAliasC03 = "C03-letterspacing-trim-aliasing"
	findingAliasC04 = "C04-letterspacing-trim-aliasing"
	// R2: on the truncating line, "does not fit next to the truncator" commits the prefix of whole
	// runs gathered by fillUntil although nobody checked it.
	findingRunBoundaryC03 = "C03-truncation-run-boundary"
	findingRunBoundaryC04 = "C04-truncation-run-boundary"
	// R3/R4: a UAX #14 candidate the grapheme fallback cannot use (inside a glyph cluster or inside a
	// grapheme cluster): empty line without progress, skipped grapheme candidates.
	findingUnusableC02 = "C02-empty-line-unusable-candidate"
	findingUnusableC03 = "C03-unusable-candidate"
	findingUnusableC04 = "C04-unusable-candidate"
	// On the truncated line the fit decision discounts the trailing white space / end letter spacing of
	// the kept text although the truncator follows it: laid out (white space only when trimming is
	// disabled), the line exceeds maxWidth by that amount.
	findingUntrimmedSpaceC04 = "C04-truncated-line-trailing-discount"
)

type violation struct {
	check string
	msg   string
}

// reporter collects the first violation that is not matched by a listed known finding.
type reporter struct {
	viol     *violation
	excluded map[string]string // finding -> first excused violation
}

// report files a violation. finding names the known finding whose structural matcher matched this
// very violation ("" if none did); it is excused only when that finding is listed as open.
func (r *reporter) report(check, finding, format string, args ...any) {
	if finding != "" && ev.Known(finding) {
		r.exclude(finding, check+": "+fmt.Sprintf(format, args...))
		return
	}
	if r.viol == nil {
		r.viol = &violation{check: check, msg: fmt.Sprintf(format, args...)}
	}
}

func (r *reporter) exclude(finding, what string) {
	if r.excluded == nil {
		r.excluded = map[string]string{}
	}
	if _, ok := r.excluded[finding]; !ok {
		r.excluded[finding] = what
	}
}

// ---------------------------------------------------------------------------------------------
// reading the result
// ---------------------------------------------------------------------------------------------

type lineInfo struct {
	o        *obs
	call     int // index of the call that returned it
	idx      int // index among the non-empty lines
	s, e     int // visible rune range [s,e)
	pieces   []int
	trunc    int // index of the truncator run in the line, -1 if absent
	truncN   int // number of truncator runs on the line
	lastCall bool
}

type parsed struct {
	lines    []lineInfo
	nilCalls []int // calls that returned an empty line
	keptEnd  int
	broken   string // structure not readable (C02's business); C03/C04 skip such a result
}

func (m *model) isTrunc(r *shaping.Output) bool { return r.Face == m.b.truncFace }

func (m *model) parse(res *result) *parsed {
	p := &parsed{}
	pos := 0
	for ci := range res.obs {
		o := &res.obs[ci]
		if len(o.line) == 0 {
			p.nilCalls = append(p.nilCalls, ci)
			continue
		}
		li := lineInfo{o: o, call: ci, idx: len(p.lines), s: pos, trunc: -1, lastCall: ci == len(res.obs)-1}
		for ri := range o.line {
			r := &o.line[ri]
			if m.isTrunc(r) {
				li.trunc = ri
				li.truncN++
				continue
			}
			if r.Runes.Offset != pos && p.broken == "" {
				p.broken = fmt.Sprintf("call %d run %d starts at rune %d, expected %d", ci, ri, r.Runes.Offset, pos)
			}
			if r.Runes.Count < 0 && p.broken == "" {
				p.broken = fmt.Sprintf("call %d run %d has rune count %d", ci, ri, r.Runes.Count)
			}
			li.pieces = append(li.pieces, ri)
			pos = r.Runes.Offset + r.Runes.Count
		}
		li.e = pos
		if (li.e < li.s || li.e > m.n) && p.broken == "" {
			p.broken = fmt.Sprintf("call %d covers runes [%d,%d) of %d", ci, li.s, li.e, m.n)
		}
		p.lines = append(p.lines, li)
	}
	p.keptEnd = pos
	return p
}

// badCandidate is the structural core of the empty-line family of findings: a UAX #14 opportunity
// (not the end of the text) that the grapheme fallback cannot use, because it lies strictly inside a
// glyph cluster or strictly inside a UAX #29 grapheme cluster (e.g. SPACE + combining mark: LB10/LB18
// allow a break after the space, GB9 forbids one).
func (m *model) badCandidate(p int) bool {
	return p > 0 && p < m.n && m.opp[p] && (m.inside[p] || !m.graph[p])
}

// unusableCandidateIn tells whether a badCandidate lies in [from,to).
func (m *model) unusableCandidateIn(from, to int) bool {
	for p := from; p < to && p <= m.n; p++ {
		if m.badCandidate(p) {
			return true
		}
	}
	return false
}

// nearBadCandidate is the matcher shared by the findings of that family for a line [s,e) (or a
// candidate e): a badCandidate lies between the start of the previous line (the breaker's carry-over
// state spans one line) and the second valid UAX #14 candidate after e.
func (m *model) nearBadCandidate(prevStart, e int) bool {
	to := m.nextValidOppOrEnd(e)
	to = m.nextValidOppOrEnd(to)
	return m.unusableCandidateIn(prevStart, to+1)
}

// ---------------------------------------------------------------------------------------------
// C02 — conservation
// ---------------------------------------------------------------------------------------------

type c02info struct {
	nontrivial   bool
	twoLines     bool
	multiRunLine bool
	clusterAtEnd bool
	trimmedSpace int
	trimmedStart int
}

func (m *model) checkC02(res *result, p *parsed, rep *reporter) (info c02info) {
	cfg := &m.b.cfg
	if res.panicked != nil {
		rep.report("C02/panic", "", "wrapper panicked: %v", res.panicked)
		return
	}
	if res.nonterm != "" {
		rep.report("C02/termination", "", "wrapping does not terminate: %s", res.nonterm)
		return
	}
	if res.proto != "" {
		rep.report("C02/iterator-protocol", "", "RunIterator protocol: %s", res.proto)
	}
	// every line non-empty; through the iterative API every call that is not the last makes progress
	if res.api == "iterative" {
		prev, prevStart := 0, 0
		for ci := range res.obs {
			o := &res.obs[ci]
			if !o.done && (len(o.line) == 0 || o.nextLine <= prev) {
				f := ""
				// matcher: the grapheme fallback ran (policy allows it) and a UAX #14 candidate it
				// cannot use lies in the segment being split
				if m.policy() != shaping.Never && m.nearBadCandidate(prevStart, prev) {
					f = findingUnusableC02
				}
				rep.report("C02/progress", f, "call %d returned done=false with %d runs and NextLine=%d (previous %d): empty line / no progress", ci, len(o.line), o.nextLine, prev)
			}
			if o.nextLine > prev {
				prevStart = prev
				prev = o.nextLine
			}
		}
	} else {
		for ci := range res.obs {
			if len(res.obs[ci].line) == 0 {
				rep.report("C02/empty-line", "", "WrapParagraph returned an empty line at index %d", ci)
			}
		}
	}
	if p.broken != "" {
		rep.report("C02/contiguity", "", "%s", p.broken)
		return
	}
	if p.keptEnd+res.truncated != m.n {
		rep.report("C02/coverage", "", "lines cover runes [0,%d), truncated=%d, paragraph has %d runes", p.keptEnd, res.truncated, m.n)
	}
	info.twoLines = len(p.lines) >= 2
	aliasC02 := ""
	if m.hasLS && c02Aliased(m.c) {
		aliasC02 = findingAliasC02 // matcher: letter spacing present and glyph memory shared with the input
	}
	for li := range p.lines {
		l := &p.lines[li]
		if len(l.pieces) >= 2 {
			info.multiRunLine = true
		}
		if res.api == "iterative" && l.o.nextLine != l.e {
			rep.report("C02/nextline", "", "call %d: NextLine=%d but the line ends at rune %d", l.call, l.o.nextLine, l.e)
		}
		spaceTrims := 0
		for pi, ri := range l.pieces {
			run := &l.o.line[ri]
			off, end := run.Runes.Offset, run.Runes.Offset+run.Runes.Count
			if run.Runes.Count == 0 {
				if len(run.Glyphs) != 0 {
					rep.report("C02/glyphs", "", "call %d run %d: no runes but %d glyphs", l.call, ri, len(run.Glyphs))
				}
				continue
			}
			src := &m.b.runs[m.runOf[off]]
			srcEnd := src.Runes.Offset + src.Runes.Count
			if end > srcEnd {
				rep.report("C02/one-input-run", "", "call %d run %d: runes [%d,%d) span more than the input run [%d,%d)", l.call, ri, off, end, src.Runes.Offset, srcEnd)
				continue
			}
			if run.Face != src.Face || run.Direction != src.Direction || run.Size != src.Size {
				rep.report("C02/one-input-run", "", "call %d run %d: face/direction/size differ from the input run holding rune %d", l.call, ri, off)
			}
			if m.inside[off] || m.inside[end] {
				rep.report("C02/cluster-split", "", "call %d run %d: rune range [%d,%d) cuts a glyph cluster", l.call, ri, off, end)
				continue
			}
			// a complex cluster right after / right before an actual break
			if off == l.s && off > 0 && m.startG0[off] != nil && m.startG0[off].RuneCount*m.startG0[off].GlyphCount != 1 ||
				end == l.e && end < m.n && m.endG0[end] != nil && m.endG0[end].RuneCount*m.endG0[end].GlyphCount != 1 {
				info.clusterAtEnd = true
			}
			// expected glyphs: those of the input run whose cluster lies in [off,end), same order
			lo, hi := -1, -1
			for gi := range src.Glyphs {
				ci := src.Glyphs[gi].ClusterIndex
				if ci >= off && ci < end {
					if lo < 0 {
						lo = gi
					}
					hi = gi
				}
			}
			want := src.Glyphs[lo : hi+1]
			for gi := range want { // contiguity of the selected glyphs (holds by monotonicity)
				if ci := want[gi].ClusterIndex; ci < off || ci >= end {
					panic("oracle: non-contiguous expected glyphs")
				}
			}
			vertical := run.Direction.IsVertical()
			if len(run.Glyphs) != len(want) {
				rep.report("C02/glyphs", "", "call %d run %d runes [%d,%d): %d glyphs, expected %d (glyphs of the clusters in the rune range)", l.call, ri, off, end, len(run.Glyphs), len(want))
				continue
			}
			var sum fixed.Int26_6
			mutatedLS := fixed.Int26_6(0)
			for gi := range run.Glyphs {
				got, w := &run.Glyphs[gi], &want[gi]
				sum += gAdv(got, vertical)
				if *got == *w {
					continue
				}
				// the two documented adjustments, each only at its documented position
				firstOfLine := pi == 0 && gi == 0
				edge := gi == len(want)-1
				if cfg.Direction.Progression() == di.TowardTopLeft {
					edge = gi == 0
				}
				canSpace := !cfg.DisableTrailingWhitespaceTrim && edge && gIsSpace(w, vertical)
				kind := m.classifyGlyphDiff(got, w, vertical, int64(m.b.trueStartLS(w)))
				switch {
				case kind == diffStartTrim && firstOfLine:
					info.trimmedStart++
				case kind == diffSpaceZero && canSpace:
					spaceTrims++
					info.trimmedSpace++
				case kind == diffStartTrimSpaceZero && firstOfLine && canSpace:
					spaceTrims++
					info.trimmedSpace++
					info.trimmedStart++
				case kind == diffStartTrim || kind == diffStartTrimSpaceZero && canSpace:
					// start letter spacing removed from a glyph that is not the first of the line
					mutatedLS += m.b.trueStartLS(w)
					if kind == diffStartTrimSpaceZero {
						spaceTrims++
					}
					rep.report("C02/glyphs", aliasC02, "call %d run %d glyph %d (cluster %d): start letter spacing %d removed from a glyph that is not the first glyph of the line", l.call, ri, gi, w.ClusterIndex, m.b.trueStartLS(w))
				default:
					rep.report("C02/glyphs", "", "call %d run %d glyph %d (cluster %d) differs from the input glyph: got %+v want %+v (space-trim allowed here: %v, start-trim allowed here: %v)", l.call, ri, gi, w.ClusterIndex, *got, *w, canSpace, firstOfLine)
				}
			}
			if run.Advance != sum {
				f := ""
				// matcher: the run's glyphs lost start letter spacing through aliasing and the
				// difference is exactly that spacing (the whole-run path keeps the input Advance)
				if m.hasLS && c02Aliased(m.c) {
					d := run.Advance - sum
					if d == mutatedLS || m.advanceDiffIsStartSpacing(run, want, vertical, d) {
						f = findingAliasC02
					}
				}
				rep.report("C02/advance", f, "call %d run %d runes [%d,%d): Advance=%d but its glyphs sum to %d", l.call, ri, off, end, run.Advance, sum)
			}
		}
		if spaceTrims > 1 {
			rep.report("C02/glyphs", "", "call %d: %d whitespace glyphs had their advance zeroed, the trailing-whitespace trim concerns one", l.call, spaceTrims)
		}
	}
	info.nontrivial = info.twoLines || info.multiRunLine || info.clusterAtEnd || cfg.TruncateAfterLines > 0
	return
}

func c02Aliased(c *Case) bool { return c.Iter != "owncopy" }

// advanceDiffIsStartSpacing: the Advance of the run equals the glyph sum plus the start spacing of
// glyphs of this run that (compared with the input) lost it.
func (m *model) advanceDiffIsStartSpacing(run *shaping.Output, want []shaping.Glyph, vertical bool, d fixed.Int26_6) bool {
	var lost fixed.Int26_6
	for gi := range run.Glyphs {
		if startLS(&run.Glyphs[gi]) == 0 {
			lost += m.b.trueStartLS(&want[gi])
		}
	}
	return lost != 0 && d == lost
}

type diffKind int

const (
	diffOther diffKind = iota
	diffStartTrim
	diffSpaceZero
	diffStartTrimSpaceZero
)

// classifyGlyphDiff compares got with the input glyph w field by field.
// ls is the start letter spacing really present on w (the only amount the start trim may remove).
func (m *model) classifyGlyphDiff(got, w *shaping.Glyph, vertical bool, ls int64) diffKind {
	gv, wv := glyphVec(got), glyphVec(w)
	fa, fo := fXAdvance, fXOffset
	if vertical {
		fa, fo = fYAdvance, fYOffset
	}
	for i := range gv {
		if gv[i] != wv[i] && i != fa && i != fo && i != fStartLS {
			return diffOther
		}
	}
	space := gIsSpace(w, vertical)
	switch {
	case gv[fStartLS] == wv[fStartLS] && gv[fo] == wv[fo]:
		if space && gv[fa] == 0 {
			return diffSpaceZero
		}
	case ls != 0 && gv[fStartLS] == 0 && gv[fo] == wv[fo]-ls:
		if gv[fa] == wv[fa]-ls {
			return diffStartTrim
		}
		if space && gv[fa] == 0 {
			return diffStartTrimSpaceZero
		}
	}
	return diffOther
}

// ---------------------------------------------------------------------------------------------
// C03 — break legality
// ---------------------------------------------------------------------------------------------

type c03info struct {
	nontrivial                                   bool
	atMandatory, atOptional, inWord, nearInvalid int
}

func (m *model) checkC03(res *result, p *parsed, rep *reporter) (info c03info) {
	cfg := &m.b.cfg
	k := m.c.Cfg.Lines
	ends := map[int]bool{}
	prevStart := 0
	for li := range p.lines {
		l := &p.lines[li]
		e, s := l.e, l.s
		ends[e] = true
		if li > 0 {
			prevStart = p.lines[li-1].s
		}
		if e == l.s && l.trunc < 0 {
			continue // no visible content and no truncator: nothing ends here (C02's business)
		}
		if e >= m.n {
			continue
		}
		info.nontrivial = true
		truncLine := k > 0 && l.idx == k-1
		if m.inside[e] {
			rep.report("C03/inside-cluster", "", "call %d: the line ends at rune %d, inside a glyph cluster", l.call, e)
			continue
		}
		switch {
		case m.mand[e]:
			info.atMandatory++
		case m.opp[e]:
			info.atOptional++
		default:
			info.inWord++
		}
		if m.unusableCandidateIn(s+1, e+1) || m.unusableCandidateIn(e, m.nextCandidateOrEnd(e)) {
			info.nearInvalid++
		}
		if e == l.s {
			continue // the truncator alone: the visible part is empty, no break was chosen
		}
		allowed := m.opp[e] || (cfg.BreakPolicy != shaping.Never && m.graph[e])
		if !allowed {
			f := ""
			// matcher: the truncated line was committed at an input-run boundary
			if truncLine && m.runStart[e] {
				f = findingRunBoundaryC03
			}
			rep.report("C03/illegal-break", f, "call %d: the line ends at rune %d which is neither a UAX#14 opportunity nor (policy %v) an allowed grapheme boundary [opportunity=%v grapheme=%v run boundary=%v truncated line=%v]",
				l.call, e, cfg.BreakPolicy, m.opp[e], m.graph[e], m.runStart[e], truncLine)
			continue
		}
		if cfg.BreakPolicy == shaping.WhenNecessary && !m.opp[e] && !truncLine {
			// a word was split: only when it cannot fit on a line by itself
			w0 := m.prevValidOpp(e)
			w1 := m.nextCandidate(e, true)
			if w1 < 0 {
				w1 = m.n
			}
			// matcher (unusable candidate): a UAX #14 candidate the grapheme fallback cannot use lies
			// between the previous line's start and the second valid candidate after this line's end
			unusable := ""
			if m.nearBadCandidate(prevStart, e) {
				unusable = findingUnusableC03
			}
			if s < w0 {
				rep.report("C03/unnecessary-split", unusable, "call %d (policy WhenNecessary): line [%d,%d) splits the word [%d,%d) although the word does not start the line", l.call, s, e, w0, w1)
			} else if !m.inside[s] {
				_, strict := m.measure(s, w1)
				if strict.Ceil() <= l.o.width {
					f := unusable
					// matcher (aliasing): letter spacing present, glyph memory shared, and the word
					// does not fit once the start spacings the wrapper may have trimmed are allowed for
					if m.hasLS && c02Aliased(m.c) && (strict+m.lsSlack(s, w1)).Ceil() > l.o.width {
						f = findingAliasC03
					}
					rep.report("C03/unnecessary-split", f, "call %d (policy WhenNecessary): line [%d,%d) splits the word ending at %d although [%d,%d) measures %d <= width %d", l.call, s, e, w1, s, w1, strict.Ceil(), l.o.width)
				}
			}
		}
	}
	// mandatory breaks end their line (unless fused into a cluster or beyond the truncation point)
	for mpos := 1; mpos < m.n && mpos < p.keptEnd; mpos++ {
		if m.mand[mpos] && !m.inside[mpos] && !ends[mpos] {
			rep.report("C03/mandatory", "", "mandatory break before rune %d does not end a line (text kept up to %d)", mpos, p.keptEnd)
			break
		}
	}
	return
}

func (m *model) nextCandidateOrEnd(e int) int {
	q := m.nextCandidate(e, false)
	if q < 0 {
		return m.n
	}
	return q
}

// ---------------------------------------------------------------------------------------------
// C04 — fit, greedy fill, truncation
// ---------------------------------------------------------------------------------------------

type c04info struct {
	nontrivial                              bool
	decisions, truncDecisions, overwideUnit int
	negAdvance                              bool
	trivial                                 string // why no decision was observed
	tightSpaceBeforeTruncator               int    // truncated line cut right after a space that would not have fitted
	letterSpacedTight                       int    // letter-spaced line whose width is within ls/2 of the line's laid-out width
}

func (m *model) checkC04(res *result, p *parsed, rep *reporter) (info c04info) {
	cfg := &m.b.cfg
	c := m.c
	k := m.c.Cfg.Lines
	info.negAdvance = m.hasNeg
	truncAdv := cfg.Truncator.Advance.Ceil()
	aliased := m.hasLS && c02Aliased(m.c)

	// tooWide / fits evaluate a bound (lenient measure must not exceed limit) or a greedy demand
	// (strict measure must exceed limit) and name the known finding whose matcher explains a failure:
	// aliasing when the verdict flips once the start letter spacings the wrapper may have trimmed
	// from shared glyphs are allowed for, else the caller's structural matcher.
	tooWide := func(s, e, limit int, other string) (bad bool, val int, finding string) {
		lo, _ := m.measure(s, e)
		if lo.Ceil() <= limit {
			return false, lo.Ceil(), ""
		}
		if aliased && (lo-m.lsSlack(s, e)).Ceil() <= limit {
			return true, lo.Ceil(), findingAliasC04
		}
		return true, lo.Ceil(), other
	}
	// beforeTruncator: the candidate would be followed by the truncator. Then nothing of it is trailing
	// (the demand is stated on what would be laid out: only a white space glyph that the library is
	// going to trim is not counted); a library that still discounts the end letter spacing / an
	// untrimmed space there extends even more, so the demand never over-asks.
	fits := func(s, e, limit int, other string, beforeTruncator bool) (bad bool, val int, finding string) {
		_, hi := m.measure(s, e)
		if beforeTruncator {
			if t := m.measureBeforeTruncator(s, e); t > hi {
				hi = t
			}
		}
		if hi.Ceil() > limit {
			return false, hi.Ceil(), ""
		}
		if aliased && (hi+m.lsSlack(s, e)).Ceil() > limit {
			return true, hi.Ceil(), findingAliasC04
		}
		return true, hi.Ceil(), other
	}
	// matcher (unusable candidate) for something observed on/after the line [s,e): the grapheme
	// fallback is allowed by the policy and a UAX #14 candidate it cannot use lies between the
	// previous line's start and the second valid UAX #14 candidate after e.
	unusable := func(prevStart, e int) string {
		if cfg.BreakPolicy != shaping.Never && m.nearBadCandidate(prevStart, e) {
			return findingUnusableC04
		}
		return ""
	}

	// (3) number of lines, truncated count, presence / position / range of the truncator
	slotBurned := func() string {
		// matcher: an empty line consumed one of the k permitted lines: seen directly through the
		// iterative API; WrapParagraph drops empty lines, there the structural condition alone
		if cfg.BreakPolicy == shaping.Never || !m.unusableCandidateIn(0, m.n) {
			return ""
		}
		if res.api == "iterative" && len(p.nilCalls) == 0 {
			return ""
		}
		return findingUnusableC04
	}
	if k > 0 && len(p.lines) > k {
		rep.report("C04/line-count", "", "TruncateAfterLines=%d but %d lines were returned", k, len(p.lines))
	}
	// The end of the paragraph. cut = runes not placed on any returned line. (C02 owns the equation
	// "lines + Truncated cover the paragraph once"; C04 owns how runes may go missing at all: only by
	// truncation on reaching the k-th line, reported exactly, with the truncator; done is not reported
	// before the text is exhausted or the line limit reached.)
	cut := m.n - p.keptEnd
	if k == 0 && res.truncated != 0 {
		rep.report("C04/truncated-count", "", "no truncation requested but truncated=%d", res.truncated)
	}
	if cut > 0 && (k == 0 || len(p.lines) < k) {
		rep.report("C04/done-before-end", slotBurned(), "wrapping ended after %d lines with %d runes not placed, although the text is not exhausted and the line limit (TruncateAfterLines=%d) was not reached [Truncated=%d]", len(p.lines), cut, k, res.truncated)
	}
	if res.truncated != cut && cut >= 0 {
		rep.report("C04/truncated-count", "", "Truncated reports %d runes, %d runes are missing after the last line", res.truncated, cut)
	}
	for li := range p.lines {
		l := &p.lines[li]
		if l.trunc < 0 {
			continue
		}
		last := li == len(p.lines)-1
		if l.truncN > 1 || !last || l.trunc != len(l.o.line)-1 {
			rep.report("C04/truncator-position", "", "call %d: the truncator must be the last run of the last line (run %d of %d, line %d of %d, %d truncator runs)", l.call, l.trunc, len(l.o.line), li+1, len(p.lines), l.truncN)
			continue
		}
		if k == 0 {
			rep.report("C04/truncator-presence", "", "call %d: truncator present although TruncateAfterLines is 0", l.call)
			continue
		}
		if l.idx != k-1 {
			rep.report("C04/truncator-presence", slotBurned(), "call %d: truncator on returned line %d, before the %d-th line was reached", l.call, l.idx+1, k)
		}
		if !(cut > 0 || cfg.TextContinues) {
			rep.report("C04/truncator-presence", "", "call %d: truncator present although nothing was truncated and TextContinues is false", l.call)
		}
		tr := &l.o.line[l.trunc]
		if tr.Runes.Offset != p.keptEnd || tr.Runes.Count != cut {
			rep.report("C04/truncator-range", "", "call %d: truncator reports runes {%d,%d}, the cut range is {%d,%d}", l.call, tr.Runes.Offset, tr.Runes.Count, p.keptEnd, cut)
		}
	}
	// The empty paragraph: with TruncateAfterLines == 1 its only (empty) line is the last permitted
	// one, and TextContinues documents that the truncator "should still be inserted" when the text of
	// the paragraph fits: one line holding only the truncator, reporting runes {0,0}.
	if m.n == 0 && k == 1 && cfg.TextContinues && m.c.Cfg.Truncator.Kind != "zero" && m.c.Cfg.Truncator.Kind != "" {
		if len(p.lines) != 1 || p.lines[0].trunc < 0 {
			rep.report("C04/truncator-presence", "", "empty paragraph, TruncateAfterLines=1, TextContinues: expected one line holding the truncator, got %d lines", len(p.lines))
		}
	}
	if k > 0 && len(p.lines) == k && (cut > 0 || cfg.TextContinues) && m.c.Cfg.Truncator.Kind != "zero" && m.c.Cfg.Truncator.Kind != "" {
		// ("Truncator, if provided": the zero-value truncator is recognised when present, not demanded)
		if p.lines[k-1].trunc < 0 {
			rep.report("C04/truncator-presence", "", "line %d reached with %d runes cut, TextContinues=%v, but no truncator run", k, cut, cfg.TextContinues)
		}
	}

	// (1) width bound and (2) greedy fill, per line
	wordsOnlyUnit := cfg.BreakPolicy == shaping.Never
	prevStart := 0
	for li := range p.lines {
		l := &p.lines[li]
		s, e, width := l.s, l.e, l.o.width
		if li > 0 {
			prevStart = p.lines[li-1].s
		}
		if e == s {
			continue // only the truncator
		}
		if m.inside[s] || m.inside[e] {
			continue // C02/C03's business; measures are defined on cluster boundaries
		}
		truncLine := k > 0 && l.idx == k-1
		if l.trunc >= 0 {
			// filled against the width reduced by the truncator's advance
			f := ""
			// matcher (run boundary): the truncated line ends at an input-run boundary, i.e. its tail
			// is a whole run appended by fillUntil and committed unchecked
			if m.runStart[e] {
				f = findingRunBoundaryC04
			}
			if bad, val, fnd := tooWide(s, e, subWidth(width, truncAdv), f); bad {
				rep.report("C04/truncated-width", fnd, "call %d: visible part [%d,%d) measures %d > width %d - truncator %d", l.call, s, e, val, width, truncAdv)
			}
		} else if bad, val, fnd := tooWide(s, e, width, unusable(prevStart, e)); bad {
			// allowed only for a single unbreakable unit
			inner := -1
			for q := s + 1; q < e; q++ {
				if m.candidate(q, wordsOnlyUnit) {
					inner = q
					break
				}
			}
			if inner >= 0 {
				rep.report("C04/width", fnd, "call %d: line [%d,%d) measures %d > width %d and is not a single unbreakable unit (valid candidate at %d)", l.call, s, e, val, width, inner)
			} else {
				info.overwideUnit++
			}
		}
		// the same two bounds on what is actually laid out: the advances of the glyphs present in the
		// returned line (after whatever trimming the library did), not re-derived from the input
		{
			// (a documented adjustment that widens a glyph - zeroing a white space glyph or removing a
			// start letter spacing whose advance / amount is negative - is not held against the line:
			// each glyph counts with the smaller of its returned and its input advance)
			var outSum fixed.Int26_6
			readable := true
			for pi, ri := range l.pieces {
				run := &l.o.line[ri]
				v := run.Direction.IsVertical()
				in := m.inputGlyphs(run)
				if len(in) != len(run.Glyphs) {
					readable = false // glyphs lost or duplicated: C02's business
					break
				}
				for gi := range run.Glyphs {
					a := gAdv(&run.Glyphs[gi], v)
					b := gAdv(&in[gi], v)
					if pi == 0 && gi == 0 {
						if d := m.b.trueStartLS(&in[gi]); d > 0 {
							b -= d // the start trim comes first, a white space glyph may then be zeroed
						}
					}
					if b < a {
						a = b
					}
					outSum += a
				}
			}
			if !readable {
				continue
			}
			lastRun := &l.o.line[l.pieces[len(l.pieces)-1]]
			// the glyph that logically ends the kept text, when it is at the paragraph-direction end of its run
			var lastOut, lastIn *shaping.Glyph
			if sameProgression(lastRun.Direction, cfg.Direction) && len(lastRun.Glyphs) > 0 {
				if lastRun.Direction.Progression() == di.TowardTopLeft {
					lastOut, lastIn = &lastRun.Glyphs[0], m.endG0[e]
				} else {
					lastOut, lastIn = &lastRun.Glyphs[len(lastRun.Glyphs)-1], m.endG1[e]
				}
			}
			vert := lastRun.Direction.IsVertical()
			if l.trunc >= 0 {
				// on the truncated line the truncator is at the line end: nothing before it is trailing
				tight := false
				if lastIn != nil && gIsSpace(lastIn, vert) && gAdv(lastIn, vert) > 0 {
					lo, _ := m.measure(s, e)
					tight = (lo + gAdv(lastIn, vert)).Ceil() > subWidth(width, truncAdv)
				}
				if tight {
					info.tightSpaceBeforeTruncator++
				}
				if laid := outSum + cfg.Truncator.Advance; laid.Ceil() > width {
					f := ""
					// matcher: the glyph that ends the kept text is in a run of the paragraph direction and
					// the fit decision discounted something of it that is nevertheless laid out before the
					// truncator: its whole advance if it is white space and trimming is disabled, else its
					// real end letter spacing; without that amount the line fits
					if lastOut != nil {
						var x fixed.Int26_6
						if gIsSpace(lastOut, vert) {
							if cfg.DisableTrailingWhitespaceTrim {
								x = gAdv(lastOut, vert)
							}
						} else if lastIn != nil {
							x = m.b.trueEndLS(lastIn)
						}
						if x > 0 && (laid-x).Ceil() <= width {
							f = findingUntrimmedSpaceC04
						}
					}
					rep.report("C04/laid-out-truncated-width", f, "call %d: kept text [%d,%d) as returned measures %d/64, truncator %d/64: %d > width %d", l.call, s, e, outSum, cfg.Truncator.Advance, laid.Ceil(), width)
				}
			} else {
				var disc fixed.Int26_6
				if lastOut != nil {
					if gIsSpace(lastOut, vert) {
						disc = gAdv(lastOut, vert)
					} else if lastIn != nil {
						disc = m.b.trueEndLS(lastIn)
					}
				}
				if disc < 0 {
					disc = 0
				}
				if laid := outSum - disc; laid.Ceil() > width {
					inner := false
					for q := s + 1; q < e && !inner; q++ {
						inner = m.candidate(q, wordsOnlyUnit)
					}
					if inner {
						rep.report("C04/laid-out-width", unusable(prevStart, e), "call %d: line [%d,%d) as returned measures %d/64 (trailing white space / real end letter spacing %d/64 not counted): %d > width %d, and it is not a single unbreakable unit", l.call, s, e, outSum, disc, laid.Ceil(), width)
					}
				}
				if m.hasLS && c.LetterSpacing != 0 {
					half := int(c.LetterSpacing) / 2
					if half < 0 {
						half = -half
					}
					d := width - outSum.Ceil()
					if d < 0 {
						d = -d
					}
					if d <= (half+63)/64 {
						info.letterSpacedTight++
					}
				}
			}
		}
		// greedy: the next permitted candidate must not fit
		if e >= m.n || m.mand[e] {
			continue
		}
		var wordsOnly bool
		switch cfg.BreakPolicy {
		case shaping.Never:
			wordsOnly = true
		case shaping.Always:
			wordsOnly = false
		default: // WhenNecessary: inside words only for a word being split or on the truncating line
			wordsOnly = m.opp[e] && !truncLine
		}
		if truncLine && res.truncated == 0 {
			continue
		}
		e2 := m.nextCandidate(e, wordsOnly)
		if e2 < 0 {
			continue
		}
		lineLimit := width
		if l.trunc >= 0 {
			lineLimit = subWidth(width, truncAdv)
		}
		_, strictLine := m.measure(s, e)
		if l.trunc >= 0 {
			if t := m.measureBeforeTruncator(s, e); t > strictLine {
				strictLine = t
			}
		}
		if strictLine.Ceil() > lineLimit {
			// the line itself (possibly) exceeds its budget: an over-wide unbreakable unit (or the
			// bound violation reported above). Extending it cannot fit either, except through
			// negative advances (fits is then not monotone; the wrapper, like any greedy filler,
			// stops at the first unit that does not fit)
			continue
		}
		limit := width
		beforeTruncator := false
		if truncLine {
			info.truncDecisions++
			if !(e2 == m.n && !cfg.TextContinues) {
				limit = subWidth(width, truncAdv)
				beforeTruncator = true
			}
		} else {
			info.decisions++
		}
		if bad, val, fnd := fits(s, e2, limit, unusable(prevStart, e2), beforeTruncator); bad {
			rep.report("C04/greedy", fnd, "call %d: line [%d,%d) ends at an optional break although extending it to the next permitted candidate %d measures %d <= %d (width %d, truncating line=%v)", l.call, s, e, e2, val, limit, width, truncLine)
		}
	}
	// the truncating line may be empty (only the truncator): the first candidate must not have fitted
	if k > 0 && len(p.lines) == k && res.truncated > 0 {
		l := &p.lines[k-1]
		if l.e == l.s && l.s < m.n && !m.inside[l.s] {
			if k > 1 {
				prevStart = p.lines[k-2].s
			} else {
				prevStart = 0
			}
			e2 := m.nextCandidate(l.s, cfg.BreakPolicy == shaping.Never)
			if e2 > 0 {
				limit := subWidth(l.o.width, truncAdv)
				beforeTruncator := true
				if e2 == m.n && !cfg.TextContinues {
					limit = l.o.width
					beforeTruncator = false
				}
				info.truncDecisions++
				if bad, val, fnd := fits(l.s, e2, limit, unusable(prevStart, e2), beforeTruncator); bad {
					rep.report("C04/greedy", fnd, "call %d: everything from rune %d was truncated although the first candidate %d measures %d <= %d", l.call, l.s, e2, val, limit)
				}
			}
		}
	}
	info.nontrivial = info.decisions > 0 || info.truncDecisions > 0
	if !info.nontrivial {
		switch {
		case len(p.lines) <= 1 && res.truncated == 0:
			info.trivial = "everything_on_one_line"
		case info.overwideUnit > 0:
			info.trivial = "only_overwide_units_and_forced_ends"
		default:
			info.trivial = "only_mandatory_or_final_ends"
		}
	}
	return
}

func (m *model) nextValidOppOrEnd(e int) int {
	q := m.nextCandidate(e, true)
	if q < 0 {
		return m.n
	}
	return q
}

// subWidth is width - adv without wrapping around (widths go up to MaxInt; a truncator advance is not
// negative in the generated cases, the guard is for decoded replay files).
func subWidth(width, adv int) int {
	if adv < 0 && width > math.MaxInt+adv {
		return math.MaxInt
	}
	return width - adv
}

// inputGlyphs returns the glyphs of the input run holding the piece whose cluster lies in the
// piece's rune range (nil when the piece is not inside one input run).
func (m *model) inputGlyphs(piece *shaping.Output) []shaping.Glyph {
	off, end := piece.Runes.Offset, piece.Runes.Offset+piece.Runes.Count
	if off < 0 || end > m.n || off >= end {
		return nil
	}
	src := &m.b.runs[m.runOf[off]]
	if end > src.Runes.Offset+src.Runes.Count {
		return nil
	}
	lo, hi := -1, -1
	for gi := range src.Glyphs {
		if ci := src.Glyphs[gi].ClusterIndex; ci >= off && ci < end {
			if lo < 0 {
				lo = gi
			}
			hi = gi
		}
	}
	if lo < 0 {
		return nil
	}
	return src.Glyphs[lo : hi+1]
}
