package wrap

import (
	"fmt"

	"github.com/go-text/typesetting/shaping"
)

// ---------------------------------------------------------------------------------------------
// the harness's own RunIterator
// ---------------------------------------------------------------------------------------------

type budgetExceeded struct{ calls int }

// ownIter is an independent implementation of shaping.RunIterator. It keeps exactly one saved
// position (as the interface documents), returns an "undefined" index and an empty Output when
// exhausted, optionally hands out a fresh deep copy of the run on every call (a lazily shaping
// iterator would), counts the calls it receives (a deterministic non-termination guard) and records
// uses of the protocol that the interface does not define.
type ownIter struct {
	runs     []shaping.Output
	idx      int
	saved    int
	hasSaved bool
	copyMode bool
	calls    int
	budget   int
	proto    string // first protocol misuse observed
}

var _ shaping.RunIterator = (*ownIter)(nil)

func (it *ownIter) tick() {
	it.calls++
	if it.calls > it.budget {
		panic(budgetExceeded{it.calls})
	}
}

func (it *ownIter) get() (int, shaping.Output, bool) {
	if it.idx >= len(it.runs) {
		return -1, shaping.Output{}, false
	}
	r := it.runs[it.idx]
	if it.copyMode {
		r.Glyphs = append(make([]shaping.Glyph, 0, len(r.Glyphs)), r.Glyphs...)
	}
	return it.idx, r, true
}

func (it *ownIter) Next() (int, shaping.Output, bool) {
	it.tick()
	i, r, ok := it.get()
	if ok {
		it.idx++
	}
	return i, r, ok
}

func (it *ownIter) Peek() (int, shaping.Output, bool) {
	it.tick()
	return it.get()
}

func (it *ownIter) Save() {
	it.tick()
	it.saved = it.idx
	it.hasSaved = true
}

func (it *ownIter) Restore() {
	it.tick()
	if !it.hasSaved {
		if it.proto == "" {
			it.proto = "Restore() called before any Save()"
		}
		return
	}
	it.idx = it.saved
}

// ---------------------------------------------------------------------------------------------
// running the wrapper
// ---------------------------------------------------------------------------------------------

// obs is what one call of WrapNextLine returned (or one line of WrapParagraph).
type obs struct {
	line      shaping.Line
	truncated int
	nextLine  int
	done      bool
	width     int
}

type result struct {
	api       string // "paragraph" or "iterative"
	obs       []obs
	truncated int
	panicked  any
	nonterm   string
	proto     string
	input     []shaping.Output // the slice handed to the wrapper (possibly mutated by it)
}

func newIterator(kind string, input []shaping.Output, n int) (shaping.RunIterator, *ownIter) {
	switch kind {
	case "own", "owncopy":
		it := &ownIter{runs: input, copyMode: kind == "owncopy", budget: 4000 * (n + len(input) + 8)}
		return it, it
	}
	return shaping.NewSliceIterator(input), nil
}

// runIterative drives Prepare + WrapNextLine with the per-call widths of the case. The number of
// calls is capped (every call that is not the last must consume at least one rune, so n+1 calls
// suffice; the cap is generous): exceeding it is reported as non-termination, deterministically.
func runIterative(b *built, c *Case, lw *shaping.LineWrapper) (res *result) {
	res = &result{api: "iterative"}
	res.input = cloneRuns(b.runs)
	it, own := newIterator(c.Iter, res.input, len(b.text))
	defer func() {
		if own != nil {
			res.proto = own.proto
		}
		if r := recover(); r != nil {
			if be, ok := r.(budgetExceeded); ok {
				res.nonterm = fmt.Sprintf("iterator received %d calls without the wrapper finishing", be.calls)
				return
			}
			res.panicked = r
		}
	}()
	lw.Prepare(b.cfg, b.text, it)
	maxCalls := 3*len(b.text) + 3*c.Cfg.Lines + 16
	for call := 0; ; call++ {
		if call >= maxCalls {
			res.nonterm = fmt.Sprintf("WrapNextLine called %d times on %d runes without done==true", call, len(b.text))
			return res
		}
		w := c.width(call)
		l, done := lw.WrapNextLine(w)
		res.obs = append(res.obs, obs{line: l.Line, truncated: l.Truncated, nextLine: l.NextLine, done: done, width: w})
		res.truncated += l.Truncated
		if done {
			return res
		}
	}
}

// runParagraph drives WrapParagraph with the constant width Widths[0]. It must only be called after
// runIterative terminated for the same constant width (WrapParagraph is the same loop and has no
// call cap of its own); with the harness iterator the call budget guards it in addition.
func runParagraph(b *built, c *Case, lw *shaping.LineWrapper) (res *result) {
	res = &result{api: "paragraph"}
	res.input = cloneRuns(b.runs)
	it, own := newIterator(c.Iter, res.input, len(b.text))
	defer func() {
		if own != nil {
			res.proto = own.proto
		}
		if r := recover(); r != nil {
			if be, ok := r.(budgetExceeded); ok {
				res.nonterm = fmt.Sprintf("iterator received %d calls without WrapParagraph returning", be.calls)
				return
			}
			res.panicked = r
		}
	}()
	w := c.width(0)
	lines, truncated := lw.WrapParagraph(b.cfg, w, b.text, it)
	res.truncated = truncated
	for i, l := range lines {
		o := obs{line: l, width: w, nextLine: -1}
		if i == len(lines)-1 {
			o.truncated = truncated
			o.done = true
		}
		res.obs = append(res.obs, o)
	}
	return res
}
