package wrap

import (
	"testing"

	"pgregory.net/rapid"
)

// ---------------------------------------------------------------------------------------------
// family S: tight-width sweeps. A small random paragraph (letter-spaced through AddSpacing with odd
// and even values in most cases, truncation in most cases, fractional advances) is wrapped at EVERY
// integer width from 0 to its total advance + truncator + 2, so that every value between "fits" and
// "does not fit" of every prefix (with and without the truncator) is tried, not a random sample.
// ---------------------------------------------------------------------------------------------

var alphabetSweep = []rune{'a', 'b', ' ', 'c', 'a', ' ', 'b', '-', ' ', 'a', 'c', ' ', 0x0301, 'あ', '\n', 'b', ' ', 0x00A0}

var sweepAdvances = []int32{2 * 64, 3 * 64, 64, 4 * 64, 2*64 + 32, 3*64 - 1, 64 + 1, 5 * 64, 90}

// letter spacings in 26.6 units: odd and even, below and above one pixel, some negative
var sweepLetterSpacings = []int32{128, 64, 65, 127, 129, 3, 2, 192, 255, 256, -32, -64, 33}

func genSweep(t *rapid.T) *Case {
	c := &Case{Family: "sweep"}
	n := rapid.IntRange(1, 10).Draw(t, "len")
	c.Text = make([]rune, n)
	for i := range c.Text {
		c.Text[i] = alphabetSweep[rapid.IntRange(0, len(alphabetSweep)-1).Draw(t, "rune")]
	}
	// 1-3 runs
	cuts := []int{0}
	for p := 1; p < n && len(cuts) < 3; p++ {
		if rapid.IntRange(0, 5).Draw(t, "runCut") == 5 {
			cuts = append(cuts, p)
		}
	}
	cuts = append(cuts, n)
	baseRTL := rapid.IntRange(0, 3).Draw(t, "baseRTL") == 3
	for i := 0; i+1 < len(cuts); i++ {
		rtl := baseRTL
		if rapid.IntRange(0, 6).Draw(t, "oppositeRun") == 6 {
			rtl = !rtl
		}
		rs := RunSpec{RTL: rtl, Face: i}
		for p := cuts[i]; p < cuts[i+1]; {
			rc := 1
			if cuts[i+1]-p >= 2 && rapid.IntRange(0, 7).Draw(t, "twoRunes") == 7 {
				rc = 2
			}
			gc := 1
			if rapid.IntRange(0, 7).Draw(t, "twoGlyphs") == 7 {
				gc = 2
			}
			cl := ClusterSpec{Runes: rc}
			for k := 0; k < gc; k++ {
				adv := sweepAdvances[rapid.IntRange(0, len(sweepAdvances)-1).Draw(t, "adv")]
				ink := adv
				if rc == 1 && gc == 1 && isSpaceRune(c.Text[p]) {
					ink = 0
				}
				cl.Glyphs = append(cl.Glyphs, GlyphSpec{Adv: adv, Ink: ink, GID: uint32(1 + p + k)})
			}
			rs.Clusters = append(rs.Clusters, cl)
			p += rc
		}
		c.Runs = append(c.Runs, rs)
	}
	if rapid.IntRange(0, 9).Draw(t, "letterSpacing") >= 3 {
		c.LetterSpacing = sweepLetterSpacings[rapid.IntRange(0, len(sweepLetterSpacings)-1).Draw(t, "ls")]
	}
	if rapid.IntRange(0, 4).Draw(t, "wordSpacing") == 4 {
		c.WordSpacing = rapid.SampledFrom([]int32{128, 33, 64}).Draw(t, "ws")
	}
	genConfig(t, c)
	c.Cfg.RTL = baseRTL
	if rapid.IntRange(0, 6).Draw(t, "paragraphOpposite") == 6 {
		c.Cfg.RTL = !baseRTL
	}
	switch rapid.IntRange(0, 9).Draw(t, "truncationClass") {
	case 0, 1, 2, 3:
		c.Cfg.Lines = 1
	case 4, 5:
		c.Cfg.Lines = 2
	case 6:
		c.Cfg.Lines = 3
	case 7:
		c.Cfg.Lines = 30 // enabled, never reached
	default:
		c.Cfg.Lines = 0
	}
	if c.Cfg.Truncator.Kind == "glyph" {
		c.Cfg.Truncator.Adv = rapid.SampledFrom([]int32{64, 128, 100, 0, 33, 320, 3 * 64}).Draw(t, "truncAdv")
	}
	c.Paragraph = true // constant width: both APIs
	return c
}

// TestPropSweep: family S. Each drawn paragraph is evaluated at every integer width of its window;
// every (paragraph, width) pair is one case.
func TestPropSweep(t *testing.T) {
	rapid.Check(t, func(t *rapid.T) {
		c := genSweep(t)
		b, err := build(c)
		if err != nil {
			t.Fatalf("generator produced an unbuildable case: %v", err)
		}
		m, bad := newModel(b, c, nil)
		if bad != "" {
			t.Fatalf("generator violated a precondition: %s", bad)
		}
		maxW := m.cum[m.n].Ceil() + b.cfg.Truncator.Advance.Ceil() + 2
		if maxW > 160 {
			maxW = 160
		}
		if maxW < 2 {
			maxW = 2
		}
		c.Widths = []int{0}
		for w := 0; w <= maxW; w++ {
			c.Widths[0] = w
			out := evaluate(t, c, b, m)
			classify(c, m, &out)
			record(c, &out)
		}
	})
}
