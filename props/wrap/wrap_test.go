package wrap

import (
	"encoding/json"
	"fmt"
	"os"
	"path/filepath"
	"runtime/debug"
	"sort"
	"strings"
	"testing"

	"github.com/go-text/typesetting/shaping"
	"pgregory.net/rapid"

	"verif/internal/ev"
)

func TestMain(m *testing.M) {
	// every case uses a fresh LineWrapper (so that a failure replays from its case alone); its
	// Prepare allocates ~15 KB of scratch, all garbage at once: collect less often.
	debug.SetGCPercent(1600)
	ev.Main(m)
}

// ---------------------------------------------------------------------------------------------
// evaluation of one case
// ---------------------------------------------------------------------------------------------

type hasher uint64

func newHasher() hasher { return 14695981039346656037 }
func (h *hasher) add(v int64) {
	x := uint64(*h)
	for i := 0; i < 8; i++ {
		x ^= uint64(byte(v >> (8 * i)))
		x *= 1099511628211
	}
	*h = hasher(x)
}

// warm wraps an earlier paragraph on the wrapper (results ignored; a panic or a non-terminating
// wrap of that paragraph is its own case's business, not this one's).
func warm(lw *shaping.LineWrapper, prev *Case, buf []rune) {
	defer func() { recover() }()
	pc := *prev
	pc.Prev = nil
	pb, err := build(&pc)
	if err != nil {
		return
	}
	if buf != nil {
		pb.text = buf[:len(pc.Text)]
		copy(pb.text, pc.Text)
	}
	if len(pc.Widths) == 0 {
		pc.Widths = []int{40}
	}
	res := runIterative(pb, &pc, lw)
	if pc.Paragraph && res.panicked == nil && res.nonterm == "" {
		runParagraph(pb, &pc, lw)
	}
}

func (c *Case) hash() uint64 {
	h := newHasher()
	if c.Prev != nil {
		h.add(int64(c.Prev.hash()))
		h.add(-9)
	}
	b2i := func(b bool) int64 {
		if b {
			return 1
		}
		return 0
	}
	for _, r := range c.Text {
		h.add(int64(r))
	}
	h.add(-1)
	for _, r := range c.Runs {
		h.add(b2i(r.RTL))
		h.add(int64(r.Face))
		for _, cl := range r.Clusters {
			h.add(int64(cl.Runes))
			for _, g := range cl.Glyphs {
				h.add(int64(g.Adv))
				h.add(int64(g.Ink))
			}
			h.add(-2)
		}
		h.add(-3)
	}
	for _, f := range c.Fonts {
		for _, ch := range f {
			h.add(int64(ch))
		}
	}
	h.add(int64(c.Size))
	h.add(int64(c.WordSpacing))
	h.add(int64(c.LetterSpacing))
	h.add(b2i(c.Vertical))
	h.add(int64(c.Cfg.Orient))
	h.add(b2i(c.PrevShared))
	for i := range c.Runs {
		h.add(int64(c.Runs[i].Orient))
	}
	h.add(int64(c.Cfg.Policy))
	h.add(int64(c.Cfg.Lines))
	for _, ch := range c.Cfg.Truncator.Kind {
		h.add(int64(ch))
	}
	h.add(int64(c.Cfg.Truncator.Adv))
	h.add(b2i(c.Cfg.Truncator.RTL))
	h.add(b2i(c.Cfg.TextContinues))
	h.add(b2i(c.Cfg.NoTrim))
	h.add(b2i(c.Cfg.RTL))
	h.add(b2i(c.Paragraph))
	for _, w := range c.Widths {
		h.add(int64(w))
	}
	for _, ch := range c.Iter {
		h.add(int64(ch))
	}
	return uint64(h)
}

// outcome is the classification of one evaluated case for the property being run.
type outcome struct {
	nontrivial bool
	labels     []string
	excluded   map[string]string
	// shape of the result (largest over the APIs run): lines, run pieces in all, most pieces on a line
	lines, pieces, maxPieces int
}

func (o *outcome) label(l string) { o.labels = append(o.labels, l) }

// evaluate wraps the case through the iterative API (always: it is the guard against
// non-termination and the only place where an empty line is observable) and, for Paragraph cases,
// through WrapParagraph, and applies the predicates of the property being run to each result.
func evaluate(t ev.TB, c *Case, b *built, m *model) (out outcome) {
	var lw shaping.LineWrapper
	if c.Prev != nil {
		var buf []rune
		if c.PrevShared {
			// one buffer for both paragraphs: the predecessor is wrapped from it, then it is edited
			// in place and this paragraph is wrapped from the same array
			buf = make([]rune, max(len(c.Text), len(c.Prev.Text)))
		}
		warm(&lw, c.Prev, buf)
		if buf != nil {
			copy(buf, c.Text)
			shared := *b
			shared.text = buf[:len(c.Text)]
			b = &shared
		}
	}
	fail := func(v *violation, res *result) {
		cc := *c
		cc.Shaped = dumpRuns(b.runs, b.faceNames)
		ev.Fail(t, v.check, &cc, "%s [api=%s text=%q policy=%v lines=%d widths=%v]%s", v.msg, res.api, string(c.Text), m.policy(), c.Cfg.Lines, c.Widths, describeLines(res, b.faceNames))
	}
	apis := []string{"iterative"}
	if c.Paragraph {
		apis = append(apis, "paragraph")
	}
	for _, api := range apis {
		var res *result
		if api == "iterative" {
			res = runIterative(b, c, &lw)
		} else {
			res = runParagraph(b, c, &lw)
		}
		p := m.parse(res)
		if len(p.lines) > out.lines {
			out.lines = len(p.lines)
		}
		np := 0
		for i := range p.lines {
			np += len(p.lines[i].pieces)
			if len(p.lines[i].pieces) > out.maxPieces {
				out.maxPieces = len(p.lines[i].pieces)
			}
		}
		if np > out.pieces {
			out.pieces = np
		}
		rep := &reporter{}
		unreadable := res.panicked != nil || res.nonterm != "" || p.broken != ""
		if on("C02") {
			info := m.checkC02(res, p, rep)
			out.nontrivial = out.nontrivial || info.nontrivial
			if prop != "" {
				if info.twoLines {
					out.label("c02_two_or_more_lines")
				}
				if info.multiRunLine {
					out.label("c02_line_with_several_runs")
				}
				if info.clusterAtEnd {
					out.label("c02_complex_cluster_at_line_edge")
				}
				if info.trimmedSpace > 0 {
					out.label("c02_trailing_space_trimmed")
				}
				if info.trimmedStart > 0 {
					out.label("c02_start_letter_spacing_trimmed")
				}
			}
		}
		if on("C03") {
			if unreadable {
				out.label("skipped_result_unreadable_(C02)")
			} else {
				info := m.checkC03(res, p, rep)
				out.nontrivial = out.nontrivial || info.nontrivial
				if prop != "" {
					if info.atMandatory > 0 {
						out.label("c03_end_at_mandatory_break")
					}
					if info.atOptional > 0 {
						out.label("c03_end_at_optional_opportunity")
					}
					if info.inWord > 0 {
						out.label("c03_end_inside_word")
					}
					if info.nearInvalid > 0 {
						out.label("c03_end_adjacent_to_intracluster_candidate")
					}
				}
			}
		}
		if on("C04") {
			if unreadable {
				out.label("skipped_result_unreadable_(C02)")
			} else {
				info := m.checkC04(res, p, rep)
				out.nontrivial = out.nontrivial || info.nontrivial
				if prop != "" {
					if info.decisions > 0 {
						out.label("c04_wrapping_decision")
					}
					if info.truncDecisions > 0 {
						out.label("c04_truncation_decision")
					}
					if info.overwideUnit > 0 {
						out.label("c04_overwide_unbreakable_unit")
					}
					if info.negAdvance {
						out.label("c04_negative_advance")
					}
					if info.tightSpaceBeforeTruncator > 0 {
						out.label("c04_truncated_line_ends_after_space_tight")
					}
					if info.letterSpacedTight > 0 {
						out.label("c04_letter_spaced_width_within_half_spacing_of_line")
					}
					if info.trivial != "" && api == apis[len(apis)-1] && !out.nontrivial {
						out.label("c04_trivial_" + info.trivial)
					}
				}
			}
		}
		for f, what := range rep.excluded {
			if out.excluded == nil {
				out.excluded = map[string]string{}
			}
			if _, ok := out.excluded[f]; !ok {
				out.excluded[f] = what
			}
		}
		if rep.viol != nil {
			fail(rep.viol, res)
			return
		}
		if api == "iterative" && (res.panicked != nil || res.nonterm != "") {
			break // WrapParagraph would panic or spin the same way (reported by C02)
		}
	}
	return
}

// classify adds the input-shape labels shared by the three properties.
func classify(c *Case, m *model, out *outcome) {
	out.label("family_" + c.Family)
	if c.Paragraph {
		out.label("api_WrapParagraph")
	} else {
		out.label("api_WrapNextLine")
		if len(c.Widths) > 1 {
			out.label("varying_widths")
		}
	}
	out.label("iterator_" + c.Iter)
	if c.Prev != nil {
		out.label("wrapper_reused_after_another_paragraph")
		if c.PrevShared {
			out.label("previous_paragraph_in_the_same_rune_buffer")
			if len(c.Prev.Text) == len(c.Text) {
				out.label("previous_paragraph_edited_in_place_same_length")
			}
		}
	}
	if c.Vertical {
		flagged := c.Cfg.Orient != 0
		for i := range c.Runs {
			flagged = flagged || c.Runs[i].Orient != 0
		}
		if flagged {
			out.label("vertical_with_orientation_bits")
		}
	}
	out.label("policy_" + m.policy().String())
	if c.Cfg.Lines > 0 {
		out.label("truncation_active")
		out.label("truncator_" + c.Cfg.Truncator.Kind)
		if c.Cfg.TextContinues {
			out.label("text_continues")
		}
	}
	if len(m.b.runs) > 1 {
		out.label("multi_run")
		mixed := false
		for i := range m.b.runs {
			mixed = mixed || m.b.runs[i].Direction != m.b.runs[0].Direction
		}
		if mixed {
			out.label("mixed_direction_runs")
		}
	}
	if c.Cfg.RTL {
		out.label("paragraph_rtl")
	}
	if c.Vertical {
		out.label("vertical")
	}
	if m.complex {
		out.label("complex_clusters")
	}
	if m.unusableCandidateIn(0, m.n) {
		out.label("uax14_candidate_inside_glyph_or_grapheme_cluster")
	}
	if segs, multi := m.hardSegments(); len(segs) > 0 {
		out.label("segment_without_usable_grapheme_boundary")
		if multi {
			out.label("segment_without_usable_grapheme_boundary_spanning_2_or_more_runs")
			// ... and the whole-segment fallback is actually needed for it: the policy allows the
			// grapheme fallback, the line is not the truncating one, some width is below its measure
			if m.policy() != shaping.Never && c.Cfg.Lines != 1 {
				for _, sg := range segs {
					if m.runOf[sg[0]] == m.runOf[sg[1]-1] {
						continue
					}
					lo, _ := m.measure(sg[0], sg[1])
					for _, w := range c.Widths {
						if lo.Ceil() > w {
							out.label("unsplittable_multi_run_segment_wider_than_a_width")
							break
						}
					}
				}
			}
		}
	}
	if m.hasLS {
		out.label("letter_spacing")
	}
	if c.WordSpacing != 0 {
		out.label("word_spacing")
	}
	if c.Cfg.NoTrim {
		out.label("no_trailing_trim")
	}
	if m.n == 0 {
		out.label("empty_paragraph")
	}
	for _, w := range c.Widths {
		if w == 0 {
			out.label("width_zero")
			break
		}
	}
	if narrow := narrowestCluster(m); narrow > 0 {
		below, wide := false, false
		for _, w := range c.Widths {
			below = below || w < narrow
			wide = wide || w >= 3*narrow
		}
		if below && c.Cfg.Lines >= 2 {
			out.label("truncation_limit_2_or_more_and_width_below_one_cluster")
		}
		if below && wide && !c.Paragraph {
			out.label("per_line_widths_mixing_wide_and_below_one_cluster")
		}
	}
	for _, w := range c.Widths {
		if w >= 1<<25-1 {
			out.label("width_extreme")
			if c.Cfg.Lines > 0 {
				out.label("width_extreme_with_truncation")
			}
			break
		}
	}
}

func record(c *Case, out *outcome) {
	for f := range out.excluded {
		ev.Excluded(f)
		out.label("excluded_" + f)
	}
	// the outcome labels are reported per family (the enumerator would drown the others)
	ls := dedupe(out.labels)
	for i, l := range ls {
		if strings.HasPrefix(l, "c0") || strings.HasPrefix(l, "excluded_") || strings.HasPrefix(l, "skipped_") {
			ls[i] = l + "/" + c.Family
		}
	}
	if out.nontrivial {
		ls = append(ls, "nontrivial/"+c.Family)
	}
	ev.Case(out.nontrivial, c.hash(), ls...)
	if ev.WantSample() {
		ev.Sample(c)
	}
}

func dedupe(ls []string) []string {
	sort.Strings(ls)
	out := ls[:0]
	for i, l := range ls {
		if i == 0 || l != ls[i-1] {
			out = append(out, l)
		}
	}
	return out
}

// runCase materialises and evaluates a decoded case (shared by the rapid properties and TestReplay).
func runCase(t ev.TB, c *Case) {
	b, err := build(c)
	if err != nil {
		t.Fatalf("cannot materialise case: %v", err)
	}
	m, bad := newModel(b, c, nil)
	if bad != "" {
		ev.Case(false, c.hash(), "skipped_precondition_not_met")
		ev.Note("precondition not met (%s): %s", c.Family, bad)
		return
	}
	out := evaluate(t, c, b, m)
	classify(c, m, &out)
	record(c, &out)
}

// ---------------------------------------------------------------------------------------------
// rapid properties
// ---------------------------------------------------------------------------------------------

// TestPropSynthetic: family A. Generator: paragraph over alphabetA, 1-4 runs of independent
// direction with generated cluster structures, advances incl. 0 / fractional / negative, optional
// word and letter spacing, every WrapConfig field, widths around cumulative advances.
func TestPropSynthetic(t *testing.T) {
	rapid.Check(t, func(t *rapid.T) {
		var c *Case
		hostile := rapid.IntRange(0, 5).Draw(t, "stratum") == 4 // stratum H: about one case in six
		if hostile {
			c = genHostile(t)
		} else {
			c = genSynthetic(t)
		}
		b, err := build(c)
		if err != nil {
			t.Fatalf("generator produced an unbuildable case: %v", err)
		}
		m, bad := newModel(b, c, nil)
		if bad != "" {
			t.Fatalf("generator violated a precondition: %s", bad)
		}
		if hostile {
			genHostileWidths(t, c, m)
		} else {
			genWidths(t, c, m)
		}
		genPrev(t, c)
		ev.Journal("C02/termination", c) // names the culprit should the process hang or die
		out := evaluate(t, c, b, m)
		ev.JournalDone()
		classify(c, m, &out)
		record(c, &out)
	})
}

// TestPropPipeline: family B. Text built from words of the scripts the corpus fonts cover ->
// Segmenter.Split -> HarfbuzzShaper.Shape -> optional AddSpacing -> wrap.
func TestPropPipeline(t *testing.T) {
	if len(pipelineFontSets()) == 0 {
		t.Fatalf("no usable font found in the corpus (%s)", os.Getenv("VERIF_CORPUS"))
	}
	rapid.Check(t, func(t *rapid.T) {
		c := genPipeline(t)
		b, err := build(c)
		if err != nil {
			t.Fatalf("cannot build pipeline case: %v", err)
		}
		m, bad := newModel(b, c, nil)
		if bad != "" {
			// real shaper output outside the wrapper's preconditions (deleted default ignorables...):
			// not a wrapping case; counted, never filtered silently
			ev.Case(false, c.hash(), "skipped_precondition_not_met", "family_pipeline")
			ev.Note("pipeline precondition not met: %s (text %q fonts %v)", bad, string(c.Text), c.Fonts)
			return
		}
		genWidths(t, c, m)
		genPrev(t, c)
		ev.Journal("C02/termination", c)
		out := evaluate(t, c, b, m)
		ev.JournalDone()
		classify(c, m, &out)
		record(c, &out)
	})
}

// ---------------------------------------------------------------------------------------------
// replay
// ---------------------------------------------------------------------------------------------

func replayFile(t *testing.T, path string) {
	check, raw, err := ev.LoadReplay(path)
	if err != nil {
		t.Fatalf("cannot load %s: %v", path, err)
	}
	var c Case
	if err := json.Unmarshal(raw, &c); err != nil {
		t.Fatalf("%s: cannot decode case of check %q: %v", path, check, err)
	}
	c.Shaped = nil
	// every check name of this package ("C02/...", "C03/...", "C04/...") has the same case type and
	// the same evaluation; the property being run decides which predicates apply.
	runCase(t, &c)
}

func TestReplay(t *testing.T) {
	if p := ev.ReplayPath(); p != "" {
		replayFile(t, p)
		return
	}
	dir := os.Getenv("VERIF_REPLAY_DIR")
	if dir == "" {
		return
	}
	files, _ := filepath.Glob(filepath.Join(dir, "*.json"))
	sort.Strings(files)
	for _, f := range files {
		f := f
		t.Run(strings.TrimSuffix(filepath.Base(f), ".json"), func(t *testing.T) { replayFile(t, f) })
	}
}

var _ = fmt.Sprintf
