#!/usr/bin/env python3
"""Regenerates the generated parts of DESIGN.md (between <!-- BEGIN x --> / <!-- END x --> markers):
findings/fixes table from known_findings.json and the seeded-change table from seeded/*/meta.json."""
import json, os, re, glob
ROOT = os.path.dirname(os.path.dirname(os.path.abspath(__file__)))
kf = json.load(open(os.path.join(ROOT, "known_findings.json")))["findings"]
def esc(s): return s.replace("|", "\\|").replace("\n", " ")
rows = ["| property | id | status | commit | what |", "|---|---|---|---|---|"]
for f in sorted(kf, key=lambda f: (f["property"], f["status"], f["id"])):
    what = re.sub(r"^fixed: property=C\d+ [0-9a-f]+ ", "", f["what"])
    if len(what) > 330: what = what[:327] + "..."
    rows.append("| %s | %s | %s | %s | %s |" % (f["property"], f["id"], f["status"], f.get("commit", ""), esc(what)))
findings = "\n".join(rows)
rows = ["| seeded change | property | what it needs to manifest | confirmed | quick check result | first violation message |", "|---|---|---|---|---|---|"]
for d in sorted(glob.glob(os.path.join(ROOT, "seeded", "*", "meta.json"))):
    m = json.load(open(d)); name = os.path.basename(os.path.dirname(d))
    runs = [r for r in m.get("check_runs", []) if r["tier"] == "quick"]
    res = "not run"
    msg = ""
    if runs:
        r = runs[-1]; res = "caught (exit 1)" if r["caught"] else "MISSED (exit %d)" % r["exit"]; msg = (r.get("message") or "")[:160]
    needs = m.get("needs_to_manifest", m.get("summary", ""))
    if len(needs) > 260: needs = needs[:257] + "..."
    rows.append("| %s | %s | %s | %s | %s | %s |" % (name, m.get("property", ""), esc(needs), "yes" if m.get("confirmed") else "no", res, esc(msg)))
seeded = "\n".join(rows)
# as-built table from check.json + evidence
rows = ["| id | package | level | technique (deciding method) | quick jobs | last quick run: evaluations / distinct non-trivial / wall | open findings |", "|---|---|---|---|---|---|---|"]
cfg = {}
for f in sorted(glob.glob(os.path.join(ROOT, "props", "*", "check.json"))):
    cfg.update(json.load(open(f))["properties"])
for pid in sorted(cfg):
    pc = cfg[pid]
    jobs = ", ".join("%s(%s%s)" % (j["name"], j.get("kind", "rapid"), (" %dx%d" % (j.get("shards", 1), j["checks"])) if j.get("checks") else (" x%d" % j.get("shards", 1))) for j in pc["tiers"]["quick"])
    evp = os.path.join(ROOT, "evidence", pid + ".json")
    evs = ""
    if os.path.exists(evp):
        e = json.load(open(evp))
        if e.get("tier") == "quick":
            evs = "%d / %d / %.0f s" % (e["coverage"]["evaluations"], e["coverage"]["distinct_nontrivial"], e["wall_s"])
    openf = ", ".join(f["id"] for f in kf if f["property"] == pid and f["status"] == "open") or "none"
    rows.append("| %s | %s | %s | %s | %s | %s | %s |" % (pid, pc["package"], pc["level"], esc(pc["manifest"]["technique"]), esc(jobs), evs, openf))
asbuilt = "\n".join(rows)
p = os.path.join(ROOT, "DESIGN.md")
s = open(p).read()
for key, body in (("findings", findings), ("seeded", seeded), ("asbuilt", asbuilt)):
    b, e = "<!-- BEGIN %s -->" % key, "<!-- END %s -->" % key
    if b in s:
        s = s[:s.index(b) + len(b)] + "\n" + body + "\n" + s[s.index(e):]
open(p, "w").write(s)
print("updated", len(kf), "findings")
