import json,sys
tmpl=open('/verif/tools/seed-prompt.txt').read()
for pid in sys.argv[1:]:
    low=pid.lower()
    for l in open('/verif/properties.jsonl'):
        p=json.loads(l)
        if p['id']==pid:
            txt="Property %s — %s\n\nStatement: %s\n\nQuantified over: %s\n\nWhy the existing tests cannot settle it: %s\n\nAnchored in files: %s\n"%(p['id'],p['title'],p['statement'],p['quantifier']['text'],p['why_tests_cant'],', '.join(p['anchors']['files']))
    s=tmpl.replace('WORKTREE','/tmp/seed-'+low).replace('OUTDIR','/tmp/seedout-'+low).replace('PROPERTYTEXT',txt)
    open('/tmp/seed-prompt-%s.txt'%low,'w').write(s)
    print('wrote',low)
