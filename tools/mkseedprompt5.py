#!/usr/bin/env python3
"""Prompts for a further round of independent seed-writing sub-agents: mkseedprompt5.py <round-tag> <X> <Y> C01 C02 ...
(round-tag names the /tmp directories, X and Y the names of the two changes)."""
import json, sys, os, glob
tmpl = open('/verif/tools/seed-prompt.txt').read()
tag, X, Y = sys.argv[1:4]
for pid in sys.argv[4:]:
    low = pid.lower()
    for l in open('/verif/properties.jsonl'):
        p = json.loads(l)
        if p['id'] == pid:
            txt = "Property %s — %s\n\nStatement: %s\n\nQuantified over: %s\n\nWhy the existing tests cannot settle it: %s\n\nAnchored in files: %s\n" % (
                p['id'], p['title'], p['statement'], p['quantifier']['text'], p['why_tests_cant'], ', '.join(p['anchors']['files']))
    s = tmpl.replace('WORKTREE', '/tmp/%s-%s' % (tag, low)).replace('OUTDIR', '/tmp/%sout-%s' % (tag, low)).replace('PROPERTYTEXT', txt)
    earlier = []
    for d in sorted(glob.glob('/verif/seeded/%s-?' % low)):
        m = json.load(open(d + '/meta.json'))
        earlier.append("- %s [files: %s]" % (m.get('summary', '')[:420].replace('\n', ' '), ', '.join(m.get('files_changed', m.get('verified', {}).get('files_changed', [])))[:160]))
    s += "\n\n%d EARLIER SEEDED CHANGES for this property already exist (written by others). Yours must be DIFFERENT from all of them in mechanism and code site; prefer functions and files none of them touches. This round, prefer, in this order: EMPH_START(1) a bug of omission after a plausible small feature/refactor (a new case added in one place but not in its sibling; a field added to a struct but not to its copy/reset/equality/serialisation); (2) an effect that is SMALL in magnitude (one unit, one rune, one glyph, one entry; a tie broken the other way) rather than gross, and only for a particular combination of API-level options or argument values; (3) latent state: only after a number of uses, a growth/shrink of an internal buffer, or a particular order of calls; (4) integer width / sign / rounding issues that need particular magnitudes; (5) a condition wrong only for a legal-but-unusual shape of a font table or text.EMPH_END The change must still be a plausible maintenance mistake that passes review and the existing tests:\n" % len(earlier)
    import re as _re
    emph = os.environ.get("SEED_EMPHASIS")
    if emph:
        s = _re.sub(r"EMPH_START.*?EMPH_END", emph, s, flags=_re.S)
    else:
        s = s.replace("EMPH_START", "").replace("EMPH_END", "")
    s += "\n".join(earlier)
    s += "\n\nName your two changes %s and %s (directories OUTDIR/%s and OUTDIR/%s).\n".replace('OUTDIR', '/tmp/%sout-%s' % (tag, low)) % (X, Y, X, Y)
    open('/tmp/%s-prompt-%s.txt' % (tag, low), 'w').write(s)
    print('wrote', low, len(earlier))
