#!/bin/bash
# Runs every claimed check's quick (or thorough) command in sequence on /repo and validates evidence.
tier=${1:-quick}
cd "$(dirname "$0")/.."
rc=0
for p in $(python3 -c "import json;print(' '.join(c['property_id'] for c in json.load(open('MANIFEST.json'))['checks']))"); do
  out=$(./run $p $tier 2>&1); r=$?
  echo "$p exit=$r $(echo "$out" | grep "^$p $tier" | head -1)"
  echo "$out" | grep "^VIOLATION\|^INFRA\|^INCOMPLETE\|^UNCONFIRMED" | head -5
  [ $r -ne 0 ] && rc=1
done
python3-vt validate.py
exit $rc
