#!/bin/sh
# Re-run every confirmed seeded change against its property's quick check, one stream per property
# (streams run in parallel; runs of one property are sequential because they share .out/<prop>).
cd "$(dirname "$0")/.."
P=${1:-6}
python3 - <<'PY' > /tmp/seedall-streams.txt
import json, os, collections
d = collections.defaultdict(list)
for n in sorted(os.listdir('seeded')):
    p = os.path.join('seeded', n, 'meta.json')
    if os.path.exists(p):
        m = json.load(open(p))
        if m.get('confirmed', True):
            d[m['property']].append(n)
for prop, names in sorted(d.items()):
    print(prop, ' '.join(names))
PY
cat /tmp/seedall-streams.txt | xargs -P "$P" -L 1 sh -c 'prop=$0; for n in "$@"; do VERIF_JOBS=8 ./seedcheck run $n quick 2>&1 | grep -a "caught=\|does not apply" | cut -c1-140; done'
