#!/opt/veriftools/pyvenv/bin/python
import json, jsonschema, os
m = json.load(open('/verif/MANIFEST.json'))
jsonschema.validate(m, json.load(open('/root/.vp/MANIFEST.schema.json')))
es = json.load(open('/root/.vp/EVIDENCE.schema.json'))
n = 0
for c in m['checks']:
    f = c['evidence_file']
    if not os.path.exists(f):
        print('MISSING evidence', f); continue
    jsonschema.validate(json.load(open(f)), es); n += 1
print('manifest valid;', n, 'evidence files of claimed checks valid')
